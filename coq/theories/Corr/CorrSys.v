(* Correspondence checker for whole-system scenarios: runs Sys.run on the scenario and compares the
   trace and the outcome with what the implementation produced under harness/sim.py. *)
From Wh Require Import Prelude Permute PN Gens Complib Tower Rhythm PyStr Sys CorrGens.
From Coq Require Import NArith ZArith QArith.
Close Scope Q_scope.

Definition near (tol a b : Q) : bool := Qle_bool (qabs (qsub a b)) tol.

Definition skey_eqb (a b : skey) : bool :=
  match a, b with
  | KUpDownIn, KUpDownIn | KStopAtRounds, KStopAtRounds | KCallComp, KCallComp
  | KSensitivity, KSensitivity | KInertia, KInertia | KPealSpeed, KPealSpeed | KOther, KOther => true
  | _, _ => false
  end.

Definition out_eqb (tol : Q) (a b : out) : bool :=
  match a, b with
  | OJoin, OJoin | ORequestState, ORequestState | RReturn, RReturn => true
  | OBell x h, OBell y k => Nat.eqb x y && Bool.eqb h k
  | OCall c, OCall d => ustr_eqb c d
  | OIsRinging x, OIsRinging y => Bool.eqb x y
  | ORollCall x, ORollCall y => Z.eqb x y
  | RInit s u t n, RInit s' u' t' n' => Nat.eqb s s' && Bool.eqb u u' && near tol t t' && Nat.eqb n n'
  | RExpect b r p h, RExpect b' r' p' h' => Nat.eqb b b' && Nat.eqb r r' && Nat.eqb p p' && Bool.eqb h h'
  | ROnBell b h t, ROnBell b' h' t' => Nat.eqb b b' && Bool.eqb h h' && near tol t t'
  | RWaitFor t b r p u h, RWaitFor t' b' r' p' u' h' =>
      near tol t t' && Nat.eqb b b' && Nat.eqb r r' && Nat.eqb p p' && Bool.eqb u u' && Bool.eqb h h'
  | RSetting k t, RSetting k' t' => skey_eqb k k' && near tol t t'
  | OHandlerExn e, OHandlerExn f => exn_eqb e f
  | _, _ => false
  end.

Fixpoint trace_eqb (tol : Q) (a b : list (Q * out)) : bool :=
  match a, b with
  | [], [] => true
  | (t, x) :: a', (u, y) :: b' => near tol t u && out_eqb tol x y && trace_eqb tol a' b'
  | _, _ => false
  end.

(* what the implementation's run ended with *)
Inductive impl_outcome := IStopped | IExited | ICrashed (e : exn).

Definition outcome_agrees (horizon : Q) (m : outcome) (i : impl_outcome) : bool :=
  match m, i with
  | Stopped, IStopped => true
  | Exited, IExited => true
  | Crashed e t, ICrashed f => Qle_bool t horizon && exn_eqb e f
  | Crashed e t, IStopped => negb (Qle_bool t horizon)
  | _, _ => false
  end.

Record sys_case := mkCase {
  sc_gen : option gen_spec;          (* None = PlaceHolderGenerator *)
  sc_udi : bool; sc_stop_at_rounds : bool; sc_call_comps : bool;
  sc_name : option ustring; sc_instance : option Z;
  sc_rhythm : rhythm;
  sc_delta : Q; sc_horizon : Q;
  sc_events : list (Q * qitem);
  sc_look_to_time : option Q;
  sc_origin : Q;
  sc_fuel : nat;
  sc_tol : Q;                        (* tolerance on times *)
  sc_min_margin : Q;                 (* cases whose smallest margin is below this are skipped *)
  sc_trace : list (Q * out);         (* observed on the implementation, oldest first *)
  sc_outcome : option impl_outcome;  (* None: the generator's constructor raised (sc_ctor_err) *)
  sc_ctor_err : exn;
}.

Definition config_of (c : sys_case) (g : gen) : config :=
  {| c_gen := g; c_udi := sc_udi c; c_stop_at_rounds := sc_stop_at_rounds c;
     c_call_comps := sc_call_comps c; c_name := sc_name c; c_instance := sc_instance c;
     c_rhythm := sc_rhythm c; c_delta := sc_delta c; c_horizon := sc_horizon c;
     c_events := sc_events c; c_look_to_time := sc_look_to_time c; c_origin := sc_origin c |}.

Definition model_trace (c : sys_case) (w : world) : list (Q * out) :=
  filter (fun x => Qle_bool (fst x) (sc_horizon c)) (rev (w_out w)).

Definition run_case (c : sys_case) : result (world * outcome) :=
  do g <- match sc_gen c with None => Ok mk_place_holder | Some s => build s end ;;
  Ok (run (sc_fuel c) (config_of c g)).

(* 0 = agree, 1 = disagree, 2 = skipped (knife edge / outside the model / out of fuel) *)
Definition chk_sys (c : sys_case) : nat :=
  match run_case c, sc_outcome c with
  | Err e, None => if exn_eqb e (sc_ctor_err c) then 0 else 1
  | Err _, Some _ => 1
  | Ok _, None => 1
  | Ok (w, o), Some io =>
      if w_fuel_out w || w_unsupported w || rh_unsupported (w_rhythm w) then 2
      else if Qltb (qmin (w_margin w) (rh_margin (w_rhythm w))) (sc_min_margin c) then 2
      else if trace_eqb (sc_tol c) (model_trace c w) (sc_trace c) && outcome_agrees (sc_horizon c) o io
      then 0 else 1
  end.

Fixpoint codes_from {A} (chk : A -> nat) (k : nat) (l : list A) (bad skipped : list nat)
  : list nat * list nat :=
  match l with
  | [] => (rev bad, rev skipped)
  | x :: t => match chk x with
              | 0 => codes_from chk (S k) t bad skipped
              | 1 => codes_from chk (S k) t (k :: bad) skipped
              | _ => codes_from chk (S k) t bad (k :: skipped)
              end
  end.
Definition classify {A} (chk : A -> nat) (l : list A) : list nat * list nat := codes_from chk 0 l [] [].

(* diagnostics: the model's own trace and outcome for a case *)
Definition model_view (c : sys_case) :=
  match run_case c with
  | Ok (w, o) => Some (model_trace c w, o, w_margin w, rh_margin (w_rhythm w), w_fuel_out w)
  | Err _ => None
  end.
