(* Correspondence checker for the tower-page parsing (Model/PageParser.v). *)
From Wh Require Import Prelude PN PageParser CorrGens.
From Coq Require Import NArith.

Definition res_ustr_eqb (a b : result ustring) : bool :=
  match a, b with
  | Ok x, Ok y => ustr_eqb x y
  | Err e, Err f => exn_eqb e f
  | _, _ => false
  end.

(* html body, the --url value, what get_load_balancing_url returned / raised, what _fix_url returned *)
Record page_case := mkPage { pg_html : ustring; pg_unfixed : ustring; pg_observed : result ustring; pg_fixed : ustring }.
Definition chk_page (c : page_case) : bool :=
  res_ustr_eqb (load_balancing_url (pg_html c)) (pg_observed c) && ustr_eqb (fix_url (pg_unfixed c)) (pg_fixed c).
