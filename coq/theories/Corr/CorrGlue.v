(* Correspondence checker for the option handling of main.py (Model/Glue.v). *)
From Wh Require Import Prelude PN PyStr Parse Glue CorrGens.
From Coq Require Import NArith ZArith QArith.
Close Scope Q_scope.

(* ------------------------------------------------------------------ option handling (Model/Glue.v) *)
Definition opt_ustr_eqb (a b : option ustring) : bool :=
  match a, b with Some x, Some y => ustr_eqb x y | None, None => true | _, _ => false end.
Definition opt_z_eqb (a b : option Z) : bool :=
  match a, b with Some x, Some y => Z.eqb x y | None, None => true | _, _ => false end.
Definition cfg_eqb (a b : botcfg) : bool :=
  Bool.eqb (bc_udi a) (bc_udi b) && Bool.eqb (bc_sar a) (bc_sar b) && Bool.eqb (bc_calls a) (bc_calls b)
  && Bool.eqb (bc_wait a) (bc_wait b) && opt_ustr_eqb (bc_name a) (bc_name b)
  && opt_z_eqb (bc_instance a) (bc_instance b) && Z.eqb (bc_peal a) (bc_peal b)
  && Qeq_bool (bc_inertia a) (bc_inertia b) && Qeq_bool (bc_initial_inertia a) (bc_initial_inertia b)
  && Qeq_bool (bc_gap a) (bc_gap b) && Nat.eqb (bc_max a) (bc_max b) && Nat.eqb (bc_min a) (bc_min b).

Inductive glue_case :=
| GConsole (c : cli) (observed : result botcfg)       (* Err: the option's own error ended the run *)
| GServer (id : option Z) (observed : botcfg).
Definition chk_glue (c : glue_case) : bool :=
  match c with
  | GConsole cl obs =>
      match console_cfg cl, obs with
      | Ok a, Ok b => cfg_eqb a b
      | Err e, Err f => exn_eqb e f
      | _, _ => false
      end
  | GServer id obs => cfg_eqb (server_cfg id) obs
  end.
