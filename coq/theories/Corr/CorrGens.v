(* Correspondence checkers for the pure layers.  The harness writes `cases_k.v` files that define a
   list of cases - each the input given to the implementation together with what the
   implementation returned - and asks the kernel (vm_compute) for the indices of the cases on which
   the model disagrees. *)
From Wh Require Import Prelude Permute PN Gens Complib.
From Coq Require Import NArith.

Fixpoint bad_indices_from {A} (chk : A -> bool) (k : nat) (l : list A) : list nat :=
  match l with
  | [] => []
  | x :: t => if chk x then bad_indices_from chk (S k) t else k :: bad_indices_from chk (S k) t
  end.
Definition bad_indices {A} (chk : A -> bool) (l : list A) : list nat := bad_indices_from chk 0 l.

Definition res_eqb {A} (eqb : A -> A -> bool) (a b : result A) : bool :=
  match a, b with
  | Ok x, Ok y => eqb x y
  | Err e, Err f => exn_eqb e f
  | _, _ => false
  end.
Definition opt_eqb {A} (eqb : A -> A -> bool) (a b : option A) : bool :=
  match a, b with
  | Some x, Some y => eqb x y
  | None, None => true
  | _, _ => false
  end.

(* ---- permute ---- *)
Definition permute_case := (nat * places * row * result row)%type.
Definition chk_permute (c : permute_case) : bool :=
  let '(stage, pl, r, expected) := c in res_eqb row_eqb (permute stage pl r) expected.

(* ---- generate_starting_row ---- *)
Definition parse_custom (s : option ustring) : option (option row) :=
  match s with
  | None => None
  | Some u => Some (match bells_of_ustring u with Ok r => Some r | Err _ => None end)
  end.
Definition start_row_case := (nat * option ustring * result row)%type.
Definition chk_start_row (c : start_row_case) : bool :=
  let '(n, s, expected) := c in res_eqb row_eqb (generate_starting_row n (parse_custom s)) expected.

(* ---- convert_pn / valid_pn ---- *)
Definition pn_case := (ustring * result (list places) * bool)%type.
Definition chk_pn (c : pn_case) : bool :=
  let '(s, conv, valid) := c in
  res_eqb (list_eqb row_eqb) (convert_pn s) conv && Bool.eqb (valid_pn s) valid.

(* ---- generator histories ---- *)
Inductive gen_spec :=
| SPN (stage : nat) (method : ustring) (bob single : option (list (Z * ustring)))
      (start_index : Z) (custom : option ustring)
| SPlainHunt (stage : nat) (custom : option ustring)
| SDixon (stage : nat) (plain bob single : option (list (nat * (ustring * ustring))))
         (custom : option ustring)
| SGrandsire (stage : nat) (custom : option ustring)
| SStedman (stage : nat) (custom : option ustring)
| SComplib (p : payload).

Definition build (s : gen_spec) : result gen :=
  match s with
  | SPN stage m b sg si c => mk_pn_gen stage m b sg si (parse_custom c)
  | SPlainHunt stage c => mk_plain_hunt stage (parse_custom c)
  | SDixon stage p b sg c => mk_dixon stage p b sg (parse_custom c)
  | SGrandsire stage c => mk_grandsire stage (parse_custom c)
  | SStedman stage c => mk_stedman stage (parse_custom c)
  | SComplib p => mk_complib p
  end.

Definition rc_eqb (a b : row * list call) : bool :=
  row_eqb (fst a) (fst b) && list_eqb ustr_eqb (snd a) (snd b).

(* expected: Err e when the constructor raised; otherwise the rows returned and the exception (if
   any) that ended the history *)
Definition gen_case := (gen_spec * list gen_op * result (list (row * list call) * option exn))%type.
Definition chk_gen (c : gen_case) : bool :=
  let '(spec, ops, expected) := c in
  match build spec, expected with
  | Err e, Err f => exn_eqb e f
  | Ok g, Ok (rows, ex) =>
      let '(rows', ex') := gen_run g ops in
      list_eqb rc_eqb rows' rows && opt_eqb exn_eqb ex' ex
  | _, _ => false
  end.

(* what the constructor derived (used by C02/C16 suites): method_pn, dicts, start stroke, early calls *)
Definition ctor_view := (list places * call_dict * call_dict * stroke * list (Z * list call) * row)%type.
Definition gen_view (g : gen) : ctor_view :=
  match g_kind g with
  | GPN c => (pc_method c, pc_bobs c, pc_singles c, gen_start_stroke g, [], g_start_row g)
  | _ => ([], [], [], gen_start_stroke g, gen_early_calls g, g_start_row g)
  end.

(* ---- tower view (C20) ---- *)
From Wh Require Import Tower.
Definition tower_case := (list tmsg * (list bool * list (nat * Z) * list (Z * ustring)))%type.
Definition chk_tower (c : tower_case) : bool :=
  let '(h, (bells, assigned, names)) := c in
  let t := tower_run h in
  list_eqb Bool.eqb (tw_bells t) bells
  && Nat.eqb (length (tw_assigned t)) (length assigned)
  && forallb (fun bu => opt_eqb Z.eqb (dict_get Nat.eqb (tw_assigned t) (fst bu)) (Some (snd bu))) assigned
  && Nat.eqb (length (tw_names t)) (length names)
  && forallb (fun un => opt_eqb ustr_eqb (dict_get Z.eqb (tw_names t) (fst un)) (Some (snd un))) names.

(* ---- parsers (C18) ---- *)
From Wh Require Import PyStr Parse.
Inductive parse_case :=
| PCPeal (s : ustring) (expected : result Z)
| PCCall (s : ustring) (expected : result (list (Z * ustring)))
| PCStartRow (s : ustring) (expected : result nat)
| PCPlaceNotation (s : ustring) (expected : result (nat * ustring))
| PCArg (arg url path query : ustring) (expected : result (Z * option ustring * option Z))
| PCRequestUrl (id : Z) (key : option ustring) (subst : option Z) (url : ustring)
| PCInt (s : ustring) (expected : option Z)
| PCClass (c : N) (space numeric : bool) (dec : option Z).

Definition zu_eqb (a b : Z * ustring) : bool := Z.eqb (fst a) (fst b) && ustr_eqb (snd a) (snd b).
Definition chk_parse (c : parse_case) : bool :=
  match c with
  | PCPeal s e => res_eqb Z.eqb (parse_peal_speed s) e
  | PCCall s e => res_eqb (list_eqb zu_eqb) (parse_call s) e
  | PCStartRow s e => res_eqb Nat.eqb (parse_start_row s) e
  | PCPlaceNotation s e =>
      res_eqb (fun a b => Nat.eqb (fst a) (fst b) && ustr_eqb (snd a) (snd b)) (parse_place_notation s) e
  | PCArg arg url path query e =>
      ustr_eqb (normalise_url arg) url &&
      res_eqb (fun a b => match a, b with
                          | (i, k, s), (i', k', s') => Z.eqb i i' && opt_eqb ustr_eqb k k' && opt_eqb Z.eqb s s'
                          end) (parse_arg_from path query) e
  | PCRequestUrl id key subst url => ustr_eqb (request_url id key subst) url
  | PCInt s e => opt_eqb Z.eqb (py_int s) e
  | PCClass ch sp nu de =>
      Bool.eqb (py_isspace ch) sp && Bool.eqb (py_isnumeric_char ch) nu && opt_eqb Z.eqb (dec_value ch) de
  end.

(* ---- handler interleavings (C19) ---- *)
From Wh Require Import Conc.
Record conc_case := mkConc {
  cc_size : nat; cc_cur : nat; cc_queued : option nat; cc_pa : program; cc_pb : program;
  cc_order : list nat;            (* the order in which the real threads entered their critical sections *)
  cc_final_cur : nat; cc_final_next : option nat;
}.
(* a generator (identified by its stage) fits iff its stage is non-zero and at most the tower size *)
Definition chk_conc (c : conc_case) : bool :=
  let fits := fun g => negb (g =? 0) && (g <=? cc_size c) in
  let s := run_seq fits (mkC (cc_cur c) (cc_queued c) None) [cc_pa c; cc_pb c] (cc_order c) in
  cstate_eqb s (mkC (cc_final_cur c) (cc_final_next c) None).
