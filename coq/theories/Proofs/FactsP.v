(* Finite facts about the built-in methods, each proved for EVERY supported stage by computation in
   the kernel (the bound is in the statement), and the equivalence of PlainHuntGenerator with the
   place-notation generator of "x.1n" / "n.1". *)
From Wh Require Import Prelude Permute PN Gens PermuteP GensP CallsP.

Definition strokes_alt (n : nat) : list gen_op := map (fun i => OpNext (Nat.even i)) (seq 0 n).

Definition rows_of (g : gen) (n : nat) : list row := map fst (fst (gen_run g (strokes_alt n))).

Fixpoint all_distinct (l : list row) : bool :=
  match l with
  | [] => true
  | r :: t => negb (existsb (row_eqb r) t) && all_distinct t
  end.

Fixpoint index_in (b : nat) (r : row) (k : nat) : nat :=
  match r with [] => k | x :: t => if Nat.eqb x b then k else index_in b t (S k) end.

(* plain hunting path of the treble on n bells: position at row k (row 0 = start) *)
Definition hunt_pos (n k : nat) : nat :=
  let m := k mod (2 * n) in if m <? n then m else 2 * n - 1 - m.

Definition treble_hunts (n : nat) (rows : list row) : bool :=
  forallb (fun kr => Nat.eqb (index_in 1 (snd kr) 0) (hunt_pos n (S (fst kr))))
          (combine (seq 0 (length rows)) rows).

(* comes round at exactly row `len` and not before; all rows distinct *)
Definition course_ok (g : gen) (len : nat) : bool :=
  let rows := rows_of g len in
  Nat.eqb (length rows) len
  && row_eqb (last rows []) (g_start_row g)
  && negb (existsb (row_eqb (g_start_row g)) (removelast rows))
  && all_distinct rows.

Definition lead_len_of (g : gen) : nat :=
  match g_kind g with GPN c => length (pc_method c) | _ => 0 end.

Definition grandsire_ok (n : nat) : bool :=
  match mk_grandsire n None with
  | Ok g => Nat.eqb (lead_len_of g) (2 * n) && course_ok g (2 * n * (n - 2))
            && treble_hunts n (rows_of g (2 * n * (n - 2)))
  | Err _ => false
  end.

Definition stedman_ok (n : nat) : bool :=
  match mk_stedman n None with
  | Ok g => Nat.eqb (lead_len_of g) 12 && course_ok g (12 * n)
  | Err _ => false
  end.

Lemma grandsire_facts : forallb grandsire_ok (seq 5 12) = true.   (* stages 5..16 *)
Proof. vm_compute. reflexivity. Qed.

Lemma stedman_facts : forallb stedman_ok [5; 7; 9; 11; 13; 15] = true.
Proof. vm_compute. reflexivity. Qed.

(* where the calls of the built-in methods land: Grandsire's at lead index 2n-2 (the change before
   the treble leads), Stedman's at indices 2 and 8 of the twelve (6 and 0 for Doubles singles) *)
Definition call_keys (g : gen) : list nat * list nat :=
  match g_kind g with GPN c => (map fst (pc_bobs c), map fst (pc_singles c)) | _ => ([], []) end.

Lemma grandsire_calls :
  forallb (fun n => match mk_grandsire n None with
                    | Ok g => let '(b, s) := call_keys g in
                              list_eqb Nat.eqb b [2 * n - 2] && list_eqb Nat.eqb s [2 * n - 2]
                    | Err _ => false end) (seq 5 12) = true.
Proof. vm_compute. reflexivity. Qed.

Lemma stedman_calls :
  forallb (fun n => match mk_stedman n None with
                    | Ok g => let '(b, s) := call_keys g in
                              list_eqb Nat.eqb b [2; 8] && list_eqb Nat.eqb s [2; 8]
                    | Err _ => false end) [7; 9; 11; 13; 15] = true
  /\ (match mk_stedman 5 None with
      | Ok g => let '(b, s) := call_keys g in list_eqb Nat.eqb b [] && list_eqb Nat.eqb s [5; 11]
      | Err _ => false end) = true.
Proof. split; vm_compute; reflexivity. Qed.

(* ------------------------------------------------------------------ plain hunt is the notation x.1n / n.1 *)
(* PlainHuntGenerator chooses by STROKE, the place-notation generator by INDEX; on a touch whose
   strokes alternate from handstroke the two coincide.  The place lists used are literally the same:
   [] and [1; n]. *)
Definition hunt_cfg (n : nat) : pn_cfg :=
  {| pc_method := [[]; [1; n]]; pc_bobs := []; pc_singles := []; pc_start_index := 0 |}.

Lemma lead_index_hunt n i : lead_index (hunt_cfg n) i = i mod 2.
Proof.
  unfold lead_index, zmod_nat. cbn [hunt_cfg pc_start_index pc_method length].
  rewrite Z.add_0_r, <- (Nat2Z.inj_mod i 2). apply Nat2Z.id.
Qed.

Lemma even_mod2 i : Nat.even i = (i mod 2 =? 0).
Proof.
  destruct (Nat.even i) eqn:E.
  - apply Nat.even_spec in E. destruct E as [k ->]. rewrite Nat.mul_comm, Nat.mod_mul; auto.
  - symmetry. apply Nat.eqb_neq. intros H.
    assert (Nat.even i = true); [|congruence].
    apply Nat.even_spec. exists (i / 2). pose proof (Nat.div_mod i 2). lia.
Qed.

Definition at_state (k : gen_kind) (n : nat) (s : row) (i : nat) (r : row) : gen :=
  {| g_kind := k; g_stage := n; g_custom := None; g_start_row := s; g_index := i; g_row := r;
     g_has_bob := false; g_has_single := false; g_call_pn := [] |}.

Theorem plain_hunt_is_pn : forall k n s r i,
  gen_run (at_state GPlainHunt n s i r) (map (fun j => OpNext (Nat.even j)) (seq i k))
  = gen_run (at_state (GPN (hunt_cfg n)) n s i r) (map (fun j => OpNext (Nat.even j)) (seq i k)).
Proof.
  induction k as [|k IH]; intros n s r i; cbn [seq map gen_run]; [reflexivity|].
  unfold gen_next at 1 2. cbn [at_state g_kind g_stage g_row g_index g_has_bob g_has_single g_call_pn].
  rewrite (pn_gen_row_plain (hunt_cfg n) n r i) by discriminate.
  rewrite lead_index_hunt, even_mod2.
  assert (Hm : i mod 2 = 0 \/ i mod 2 = 1) by (pose proof (Nat.mod_upper_bound i 2); lia).
  destruct Hm as [Hm|Hm]; rewrite Hm; cbn [Nat.eqb nth_res nth_error hunt_cfg pc_method bind].
  - destruct (permute n [] r) as [r'|e]; cbn [bind]; [|reflexivity].
    specialize (IH n s r' (S i)). unfold set_state, at_state in *. cbn [g_kind g_stage g_custom g_start_row] in *.
    rewrite IH. reflexivity.
  - destruct (permute n [1; n] r) as [r'|e]; cbn [bind]; [|reflexivity].
    specialize (IH n s r' (S i)). unfold set_state, at_state in *. cbn [g_kind g_stage g_custom g_start_row] in *.
    rewrite IH. reflexivity.
Qed.
