(* C18: every command-line value is converted or rejected with the option's OWN error, and what the
   validators accept the consumers can use - for EVERY string. *)
From Wh Require Import Prelude Permute PN PyStr Gens Complib Parse PermuteP GensP.
From Coq Require Import NArith ZArith.

(* ------------------------------------------------------------------ totality *)
Definition own_or_ok {A} (r : result A) : Prop := (exists v, r = Ok v) \/ r = Err EOwn.

Lemma catch_int s : own_or_ok (catch (int_raise s)).
Proof. unfold catch, int_raise. destruct (py_int s); [left; eauto | right; reflexivity]. Qed.

Ltac oo := first [left; eexists; reflexivity | right; reflexivity].

Theorem parse_peal_speed_total s : own_or_ok (parse_peal_speed s).
Proof.
  unfold parse_peal_speed.
  set (st := if ends_with cM (py_strip s) then _ else _).
  destruct (contains cH st).
  - destruct (split_on cH st) as [|hour [|minute [|x l]]]; try oo.
    destruct (catch_int (py_strip hour)) as [[h ->]| ->]; cbn [bind]; [|oo].
    destruct (h <? 0)%Z; [oo|].
    destruct (py_strip minute) as [|c m] eqn:M; cbn [bind].
    + cbn. oo.
    + destruct (catch_int (c :: m)) as [[mm ->]| ->]; cbn [bind]; [|oo].
      destruct (mm <? 0)%Z; [oo|]. destruct (59 <? mm)%Z; oo.
  - destruct (catch_int st) as [[m ->]| ->]; cbn [bind]; [|oo]. destruct (m <? 0)%Z; oo.
Qed.

Theorem parse_call_total s : own_or_ok (parse_call s).
Proof.
  unfold parse_call. generalize (@nil (Z * ustring)) as acc. generalize (split_on cSLASH s) as segs.
  induction segs as [|seg rest IH]; intros acc; cbn [parse_call_segments]; [oo|].
  assert (H : own_or_ok (if contains cCOLON seg
                         then match split_on cCOLON seg with
                              | [l; p] => do loc <- catch (int_raise (py_strip l));; Ok (loc, py_strip p)
                              | _ => Err EOwn end
                         else Ok (0%Z, py_strip seg))).
  { destruct (contains cCOLON seg); [|oo].
    destruct (split_on cCOLON seg) as [|l [|p [|x t]]]; try oo.
    destruct (catch_int (py_strip l)) as [[z ->]| ->]; cbn; oo. }
  destruct H as [[[loc pn] ->]| ->]; cbn [bind]; [|oo].
  destruct pn as [|c pn]; [oo|].
  destruct (negb (valid_pn (c :: pn))); [oo|].
  destruct (dict_get Z.eqb acc loc); [oo|]. apply IH.
Qed.

Lemma bells_of_ustring_errors s e : bells_of_ustring s = Err e -> e = EValue.
Proof.
  unfold bells_of_ustring. induction s as [|c s IH]; cbn [mapM]; [discriminate|].
  unfold convert_bell_string at 1. destruct (index_of c BELL_NAMES 0); cbn [bind]; [|intros H; now inversion H].
  destruct (mapM convert_bell_string s) as [l|e']; cbn [bind]; [discriminate|].
  intros H; inversion H; subst. now apply IH.
Qed.

Theorem parse_start_row_total s : own_or_ok (parse_start_row s).
Proof.
  unfold parse_start_row. destruct (bells_of_ustring s) as [bells|e] eqn:B; cbn [catch bind].
  - assert (C : forall bs ex, own_or_ok (consume bs ex)).
    { induction bs as [|b bs IH]; intros ex; cbn [consume]; [oo|].
      destruct (remove_first b ex); [apply IH | oo]. }
    destruct (C bells (seq1 (fold_left Nat.max bells 0))) as [[l ->]| ->]; cbn [bind]; [|oo].
    destruct l; oo.
  - rewrite (bells_of_ustring_errors s e B). cbn. oo.
Qed.

Theorem parse_place_notation_total s : own_or_ok (parse_place_notation s).
Proof.
  unfold parse_place_notation.
  destruct (split_on cCOLON s) as [|sp [|pn [|x l]]]; try oo.
  destruct (negb (py_isnumeric sp)); [oo|].
  destruct (catch_int sp) as [[z ->]| ->]; cbn [bind]; [|oo].
  destruct (negb _); [oo|]. destruct (negb (valid_pn pn)); oo.
Qed.

Theorem parse_arg_total path query : own_or_ok (parse_arg_from path query).
Proof.
  unfold parse_arg_from.
  destruct (split_on cSLASH path) as [|first segs]; [oo|].
  destruct first; [|oo]. destruct segs as [|s0 [|s1 t]]; try oo.
  destruct (negb (ustr_eqb s0 uCOMPOSITION)); [oo|].
  destruct (catch_int s1) as [[id ->]| ->]; cbn [bind]; [|oo].
  assert (Q : forall parts k sb, own_or_ok (parse_query parts k sb)).
  { induction parts as [|q parts IH]; intros k sb; cbn [parse_query]; [oo|].
    destruct (split_on cEQ q) as [|a [|b [|x l]]]; try apply IH.
    destruct (ustr_eqb a uSUBST); [|apply IH].
    destruct (catch_int b) as [[z ->]| ->]; cbn [bind]; [apply IH | oo]. }
  destruct (Q (split_on cAMPER query) None None) as [[[k sb] ->]| ->]; cbn; oo.
Qed.

(* ------------------------------------------------------------------ the validator agrees with the converter *)
Lemma in_bell_names_convert c : in_bell_names c = is_ok (convert_bell_string c).
Proof. unfold in_bell_names, convert_bell_string. destruct (index_of c BELL_NAMES 0); reflexivity. Qed.

Lemma mapM_ok_forallb {A B} (f : A -> result B) (p : A -> bool) :
  (forall a, p a = is_ok (f a)) -> forall l, forallb p l = is_ok (mapM f l).
Proof.
  intros H. induction l as [|a l IH]; cbn [forallb mapM]; [reflexivity|].
  rewrite H, IH. destruct (f a); cbn; [|reflexivity]. destruct (mapM f l); reflexivity.
Qed.

Lemma piece_valid p : (ustr_eqb p [cDASH] || forallb in_bell_names p) = is_ok (convert_piece p).
Proof.
  unfold convert_piece. destruct (ustr_eqb p [cDASH]); [reflexivity|]. cbn [orb].
  apply mapM_ok_forallb. apply in_bell_names_convert.
Qed.

Lemma valid_block_convert b s : valid_block s = is_ok (convert_block b s).
Proof.
  unfold valid_block, convert_block.
  rewrite (mapM_ok_forallb convert_piece _ piece_valid).
  destruct (mapM convert_piece (pn_pieces s)); cbn [bind is_ok]; [|reflexivity].
  destruct (if b then _ else _); reflexivity.
Qed.

(* valid_pn accepts EXACTLY the strings convert_pn can convert *)
Theorem valid_pn_iff_convertible s : valid_pn s = is_ok (convert_pn s).
Proof.
  unfold valid_pn, convert_pn. destruct (has_comma s); [|apply valid_block_convert].
  rewrite (mapM_ok_forallb (convert_block true) _ (valid_block_convert true)).
  destruct (mapM (convert_block true) (split_on cCOMMA s)); reflexivity.
Qed.

(* convert_pn never returns an empty notation, so the lead length is never 0 *)
Lemma split_on_nonempty c s : split_on c s <> [].
Proof.
  induction s as [|x s IH]; cbn; [discriminate|].
  destruct (N.eqb x c); [discriminate|]. destruct (split_on c s); [congruence | discriminate].
Qed.
Lemma mapM_length {A B} (f : A -> result B) : forall l r, mapM f l = Ok r -> length r = length l.
Proof.
  induction l as [|a l IH]; cbn [mapM]; intros r H; [inversion H; reflexivity|].
  destruct (f a); cbn [bind] in H; [|discriminate]. destruct (mapM f l) eqn:E; cbn [bind] in H; [|discriminate].
  inversion H; subst. cbn. f_equal. now apply IH.
Qed.
Lemma convert_block_nonempty b s r : convert_block b s = Ok r -> r <> [].
Proof.
  unfold convert_block. destruct (mapM convert_piece (pn_pieces s)) as [conv|] eqn:E; cbn [bind]; [|discriminate].
  assert (L : length conv = length (pn_pieces s)) by (eapply mapM_length; eauto).
  assert (N : conv <> []).
  { intros ->. unfold pn_pieces in L. cbn in L. symmetry in L. apply length_zero_iff_nil in L.
    now apply split_on_nonempty in L. }
  destruct (if b then _ else _); intros H; inversion H; subst; [|exact N].
  destruct conv; [congruence | discriminate].
Qed.
Theorem convert_pn_nonempty s r : convert_pn s = Ok r -> r <> [].
Proof.
  unfold convert_pn. destruct (has_comma s); [|apply convert_block_nonempty].
  destruct (mapM (convert_block true) (split_on cCOMMA s)) as [blocks|] eqn:E; cbn [bind]; [|discriminate].
  intros H; inversion H; subst. clear H.
  destruct (split_on cCOMMA s) as [|b0 rest] eqn:S; [now apply split_on_nonempty in S|].
  cbn [mapM] in E. destruct (convert_block true b0) as [r0|] eqn:B0; cbn [bind] in E; [|discriminate].
  destruct (mapM (convert_block true) rest); cbn [bind] in E; [|discriminate]. inversion E; subst.
  cbn [concat]. apply convert_block_nonempty in B0. destruct r0; [congruence | discriminate].
Qed.

(* ------------------------------------------------------------------ what is accepted can be rung *)
Lemma parse_call_dict_ok L : L <> 0 -> forall defs acc,
  Forall (fun d => valid_pn (snd d) = true) defs -> exists d, parse_call_dict L defs acc = Ok d.
Proof.
  intros HL. induction defs as [|[i s] defs IH]; intros acc F; cbn [parse_call_dict]; [eauto|].
  inversion F as [|? ? Hv F']; subst. cbn [snd] in Hv. rewrite valid_pn_iff_convertible in Hv.
  destruct (convert_pn s); [|discriminate]. cbn [bind]. destruct (L =? 0) eqn:E; [apply Nat.eqb_eq in E; congruence|].
  apply IH; exact F'.
Qed.

Example default_calls_valid : valid_pn [49;52]%N = true /\ valid_pn [49;50;51;52]%N = true.
Proof. vm_compute. auto. Qed.

(* any place notation the command line accepts builds a generator (default calls, any start index) *)
Theorem accepted_pn_rings s stage pn si :
  parse_place_notation s = Ok (stage, pn) -> exists g, mk_pn_gen stage pn None None si None = Ok g.
Proof.
  unfold parse_place_notation.
  destruct (split_on cCOLON s) as [|sp [|pn' [|x l]]]; try discriminate.
  destruct (negb (py_isnumeric sp)); [discriminate|].
  destruct (catch (int_raise sp)) as [z|]; cbn [bind]; [|discriminate].
  destruct ((0 <? z)%Z && (z <=? 16)%Z) eqn:R; cbn [negb]; [|discriminate].
  destruct (valid_pn pn') eqn:V; cbn [negb]; [|discriminate].
  intros H; inversion H; subst. clear H.
  apply Bool.andb_true_iff in R. destruct R as [R1 R2]. apply Z.ltb_lt in R1. apply Z.leb_le in R2.
  unfold mk_pn_gen, generate_starting_row, rounds.
  assert (LE : (Z.to_nat z <=? MAX_BELL) = true) by (apply Nat.leb_le; unfold MAX_BELL; lia).
  rewrite LE. cbn [bind].
  rewrite valid_pn_iff_convertible in V. destruct (convert_pn pn) as [mpn|] eqn:C; [|discriminate]. cbn [bind].
  assert (HL : length mpn <> 0).
  { intros E. apply length_zero_iff_nil in E. now apply (convert_pn_nonempty pn mpn C). }
  destruct default_calls_valid as [D1 D2].
  destruct (parse_call_dict_ok (length mpn) HL DEFAULT_BOB []) as [b ->];
    [repeat constructor; exact D1|]. cbn [bind].
  destruct (parse_call_dict_ok (length mpn) HL DEFAULT_SINGLE []) as [sg ->];
    [repeat constructor; exact D2|]. cbn [bind]. eauto.
Qed.

(* any --bob / --single definition the command line accepts can be turned into a call dictionary *)
Lemma parse_call_segments_valid : forall segs acc r,
  Forall (fun d => valid_pn (snd d) = true) acc -> parse_call_segments segs acc = Ok r ->
  Forall (fun d => valid_pn (snd d) = true) r.
Proof.
  induction segs as [|seg rest IH]; intros acc r F; cbn [parse_call_segments]; [intros H; inversion H; subst; exact F|].
  destruct (if contains cCOLON seg then _ else _) as [[loc pn]|]; cbn [bind]; [|discriminate].
  destruct pn as [|c pn]; [discriminate|].
  destruct (valid_pn (c :: pn)) eqn:V; cbn [negb]; [|discriminate].
  destruct (dict_get Z.eqb acc loc); [discriminate|].
  apply IH. apply Forall_app. split; [exact F | repeat constructor; exact V].
Qed.
Theorem accepted_call_rings s d L :
  L <> 0 -> parse_call s = Ok d -> exists cd, parse_call_dict L d [] = Ok cd.
Proof.
  intros HL H. apply parse_call_dict_ok; [exact HL|].
  unfold parse_call in H. eapply parse_call_segments_valid; [constructor | exact H].
Qed.

(* any --start-row the command line accepts has no bell twice, so it builds an opening row on every
   tower of at most 16 bells *)
Lemma remove_first_In x l l' : remove_first x l = Some l' -> In x l /\ length l = S (length l').
Proof.
  revert l'. induction l as [|y l IH]; cbn; intros l' H; [discriminate|].
  destruct (Nat.eqb_spec x y) as [->|N].
  - inversion H; subst. auto.
  - destruct (remove_first x l) as [t|]; [|discriminate]. inversion H; subst.
    destruct (IH t eq_refl) as [A B]. cbn. split; [now right | now rewrite B].
Qed.
Lemma remove_first_NoDup x l l' : NoDup l -> remove_first x l = Some l' -> NoDup l' /\ ~ In x l' /\ incl l' l.
Proof.
  revert l'. induction l as [|y l IH]; cbn; intros l' ND H; [discriminate|].
  inversion ND as [|? ? Hy ND']; subst.
  destruct (Nat.eqb_spec x y) as [->|N].
  - inversion H; subst. repeat split; auto. intros a Ha; now right.
  - destruct (remove_first x l) as [t|] eqn:E; [|discriminate]. inversion H; subst.
    destruct (IH t ND' eq_refl) as [A [B C]]. repeat split.
    + constructor; [intros Hin; apply Hy; now apply C | exact A].
    + intros [->|Hin]; [congruence | contradiction].
    + intros a [->|Ha]; [now left | right; now apply C].
Qed.
Lemma consume_nodup : forall bells ex left,
  NoDup ex -> consume bells ex = Ok left -> NoDup bells /\ (forall b, In b bells -> ~ In b left).
Proof.
  induction bells as [|b bells IH]; intros ex left ND; cbn [consume].
  - intros H. split; [constructor | intros b []].
  - destruct (remove_first b ex) as [e'|] eqn:R; [|discriminate]. intros H.
    destruct (remove_first_NoDup b ex e' ND R) as [ND' [Nb Inc]].
    destruct (IH e' left ND' H) as [A B]. split.
    + constructor; [|exact A]. intros Hin.
      (* b would have to be removed from e' again, but it is not there *)
      clear - Hin Nb H. revert e' left Nb H. induction bells as [|c bells IH2]; [inversion Hin|].
      intros e' left Nb H. cbn [consume] in H. destruct (remove_first c e') as [e''|] eqn:R2; [|discriminate].
      destruct Hin as [->|Hin].
      * apply remove_first_In in R2. tauto.
      * apply (IH2 Hin e'' left); [|exact H]. intros Hb. apply Nb.
        clear - R2 Hb. revert e'' R2 Hb. induction e' as [|y e' IHe]; cbn; intros e'' R2 Hb; [discriminate|].
        destruct (Nat.eqb c y); [inversion R2; subst; now right|].
        destruct (remove_first c e') as [t|]; [|discriminate]. inversion R2; subst.
        destruct Hb as [->|Hb]; [now left | right; eapply IHe; eauto].
    + intros x [->|Hx]; [|now apply B].
      intros Hin. clear - Hin Nb H. revert e' Nb H. induction bells as [|c bells IH2]; intros e' Nb H; cbn [consume] in H.
      * inversion H; subst. contradiction.
      * destruct (remove_first c e') as [e''|] eqn:R2; [|discriminate]. apply (IH2 e''); [|exact H].
        intros Hb. apply Nb. clear - R2 Hb. revert e'' R2 Hb.
        induction e' as [|y e' IHe]; cbn; intros e'' R2 Hb; [discriminate|].
        destruct (Nat.eqb c y); [inversion R2; subst; now right|].
        destruct (remove_first c e') as [t|]; [|discriminate]. inversion R2; subst.
        destruct Hb as [->|Hb]; [now left | right; eapply IHe; eauto].
Qed.

Theorem accepted_start_row_rings s k n :
  parse_start_row s = Ok k -> n <= MAX_BELL ->
  exists bells r, bells_of_ustring s = Ok bells /\ generate_starting_row n (Some (Some bells)) = Ok r.
Proof.
  unfold parse_start_row. destruct (bells_of_ustring s) as [bells|e] eqn:B; cbn [catch bind].
  2:{ destruct e; discriminate. }
  destruct (consume bells (seq1 (fold_left Nat.max bells 0))) as [left|] eqn:C; cbn [bind]; [|discriminate].
  intros _ Hn. destruct (consume_nodup _ _ _ (seq1_NoDup _) C) as [ND _].
  exists bells. unfold generate_starting_row.
  assert (D : has_dup bells = false).
  { clear - ND. induction bells as [|b bells IH]; cbn; [reflexivity|]. inversion ND; subst.
    rewrite IH by assumption. rewrite Bool.orb_false_r.
    destruct (mem_nat b bells) eqn:M; [apply mem_nat_In in M; contradiction | reflexivity]. }
  rewrite D. apply Nat.leb_le in Hn. rewrite Hn. eauto.
Qed.
