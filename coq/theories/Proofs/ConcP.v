(* C19: a selection that arrives concurrently with a size change or a Look to has the fate of one of
   the sequential orders - for EVERY statement-level interleaving that respects the lock - and the
   same code without the lock does not have this property. *)
From Wh Require Import Prelude Conc.

(* generators: 1 = current, 2 = already queued, 3 = the new selection; whether each fits the new
   tower size is arbitrary *)
Definition fits_of (f1 f2 f3 : bool) (g : gid) : bool :=
  match g with 1 => f1 | 2 => f2 | 3 => f3 | _ => true end.
Definition start (queued : bool) : cstate := mkC 1 (if queued then Some 2 else None) None.

Definition all_bool3 : list (bool * bool * bool) :=
  concat (map (fun a => concat (map (fun b => map (fun c => (a, b, c)) [true; false]) [true; false])) [true; false]).

(* row-gen || size-change, row-gen || look-to, and all three together; with or without a generator
   already queued; every fit valuation; EVERY interleaving *)
Definition all_configs_linearise : bool :=
  forallb (fun '(f1, f2, f3) =>
    forallb (fun q =>
      linearisable (fits_of f1 f2 f3) (start q) [prog_row_gen 3; prog_size_change]
      && linearisable (fits_of f1 f2 f3) (start q) [prog_row_gen 3; prog_look_to]
      && linearisable (fits_of f1 f2 f3) (start q) [prog_size_change; prog_look_to]
      && linearisable (fits_of f1 f2 f3) (start q) [prog_row_gen 3; prog_size_change; prog_look_to])
    [true; false]) all_bool3.

Theorem handlers_linearise : all_configs_linearise = true.
Proof. vm_compute. reflexivity. Qed.

(* the selection is never lost: after row-gen || look-to (nothing else) the new generator is either
   queued or current *)
Definition selection_survives (s : cstate) : bool :=
  Nat.eqb (c_cur s) 3 || match c_next s with Some 3 => true | _ => false end.
Theorem selection_never_lost :
  forallb (fun q =>
    forallb selection_survives
      (explore (fits_of true true true) 10 (start q) [mkT (prog_row_gen 3) None; mkT prog_look_to None]))
  [true; false] = true.
Proof. vm_compute. reflexivity. Qed.

(* without the lock the very race the code comment describes exists: the size-change handler reads
   the old queued generator (too big), the new selection arrives, and is then discarded *)
Theorem handlers_race_without_lock :
  linearisable (fits_of true false true) (start true) [prog_row_gen_nolock 3; prog_size_change_nolock] = false.
Proof. vm_compute. reflexivity. Qed.
Theorem look_to_races_without_lock :
  linearisable (fits_of true true true) (start true) [prog_row_gen_nolock 3; prog_look_to_nolock] = false.
Proof. vm_compute. reflexivity. Qed.

(* how many interleavings the theorem covers (for the evidence) *)
Example interleavings_of_three :
  length (explore (fits_of true true true) 10 (start true)
            [mkT (prog_row_gen 3) None; mkT prog_size_change None; mkT prog_look_to None]) = 6.
Proof. vm_compute. reflexivity. Qed.
