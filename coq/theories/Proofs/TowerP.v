(* C20: the view Wheatley maintains with dictionaries (Model/Tower.v) refines the per-key,
   backward-looking reading of the message history (Spec/TowerSpec.v), for EVERY history. *)
From Wh Require Import Prelude Permute PN Gens Tower TowerSpec.
From Coq Require Import NArith ZArith.

Section Dict.
  Context {K V : Type} (keq : K -> K -> bool).
  Hypothesis keq_spec : forall a b, keq a b = true <-> a = b.

  Lemma keq_refl a : keq a a = true.  Proof. now apply keq_spec. Qed.
  Lemma keq_neq a b : a <> b -> keq a b = false.
  Proof. intros H. destruct (keq a b) eqn:E; [apply keq_spec in E; contradiction | reflexivity]. Qed.

  Lemma get_set_same (d : list (K * V)) k v : dict_get keq (dict_set keq d k v) k = Some v.
  Proof.
    induction d as [|[k' v'] d IH]; cbn; [now rewrite keq_refl|].
    destruct (keq k' k) eqn:E; cbn; rewrite E; auto.
  Qed.
  Lemma get_set_other (d : list (K * V)) k v k2 :
    k <> k2 -> dict_get keq (dict_set keq d k v) k2 = dict_get keq d k2.
  Proof.
    intros Hn. induction d as [|[k' v'] d IH]; cbn; [now rewrite keq_neq|].
    destruct (keq k' k) eqn:E; cbn.
    - apply keq_spec in E. subst k'. now rewrite keq_neq.
    - destruct (keq k' k2); auto.
  Qed.

  (* keys stay unique *)
  Fixpoint keys_nodup (d : list (K * V)) : Prop :=
    match d with
    | [] => True
    | (k, _) :: t => dict_get keq t k = None /\ keys_nodup t
    end.
  Lemma nodup_set (d : list (K * V)) k v : keys_nodup d -> keys_nodup (dict_set keq d k v).
  Proof.
    induction d as [|[k' v'] d IH]; cbn; [auto|]. intros [H1 H2].
    destruct (keq k' k) eqn:E; cbn; [auto|]. split; [|auto].
    rewrite get_set_other; auto. intros ->. now rewrite keq_refl in E.
  Qed.
  Lemma get_del_same (d : list (K * V)) k : keys_nodup d -> dict_get keq (dict_del keq d k) k = None.
  Proof.
    induction d as [|[k' v'] d IH]; cbn; [auto|]. intros [H1 H2].
    destruct (keq k' k) eqn:E; cbn; [apply keq_spec in E; now subst | rewrite E; auto].
  Qed.
  Lemma get_del_other (d : list (K * V)) k k2 : k <> k2 -> dict_get keq (dict_del keq d k) k2 = dict_get keq d k2.
  Proof.
    intros Hn. induction d as [|[k' v'] d IH]; cbn; [auto|].
    destruct (keq k' k) eqn:E; cbn.
    - apply keq_spec in E. subst k'. now rewrite keq_neq.
    - destruct (keq k' k2); auto.
  Qed.
  Lemma nodup_del (d : list (K * V)) k : keys_nodup d -> keys_nodup (dict_del keq d k).
  Proof.
    induction d as [|[k' v'] d IH]; cbn; [auto|]. intros [H1 H2].
    destruct (keq k' k) eqn:E; cbn; [auto|]. split; [|auto].
    rewrite get_del_other; auto. intros ->. now rewrite keq_refl in E.
  Qed.
  Lemma get_filter (p : K * V -> bool) (d : list (K * V)) k :
    keys_nodup d ->
    dict_get keq (filter p d) k =
    match dict_get keq d k with Some v => if p (k, v) then Some v else None | None => None end.
  Proof.
    induction d as [|[k' v'] d IH]; cbn; [auto|]. intros [H1 H2].
    destruct (keq k' k) eqn:E.
    - apply keq_spec in E. subst k'. destruct (p (k, v')) eqn:P; cbn; [now rewrite keq_refl|].
      rewrite IH; auto. now rewrite H1.
    - destruct (p (k', v')); cbn; [rewrite E|]; auto.
  Qed.
  Lemma get_filter_none (p : K * V -> bool) (d : list (K * V)) k : dict_get keq d k = None -> dict_get keq (filter p d) k = None.
  Proof.
    induction d as [|[k' v'] d IH]; cbn; [auto|].
    destruct (keq k' k) eqn:E; [discriminate|]. intros H. destruct (p (k', v')); cbn; [rewrite E|]; auto.
  Qed.
  Lemma nodup_filter (p : K * V -> bool) (d : list (K * V)) : keys_nodup d -> keys_nodup (filter p d).
  Proof.
    induction d as [|[k' v'] d IH]; cbn; [auto|]. intros [H1 H2].
    destruct (p (k', v')); cbn; auto. split; auto. now apply get_filter_none.
  Qed.
End Dict.

Lemma nat_eqb_spec a b : Nat.eqb a b = true <-> a = b.  Proof. apply Nat.eqb_eq. Qed.
Lemma z_eqb_spec a b : Z.eqb a b = true <-> a = b.  Proof. apply Z.eqb_eq. Qed.

(* histories in arrival order; the spec reads them newest first *)
Definition view (h : list tmsg) : tower := tower_run h.

Lemma tower_run_snoc h m : tower_run (h ++ [m]) = tower_step (tower_run h) m.
Proof. unfold tower_run. now rewrite fold_left_app. Qed.

Lemma user_list_names l : forall t u,
  dict_get Z.eqb (tw_names (tw_user_list t l)) u =
  match last_in_list l u with Some n => Some n | None => dict_get Z.eqb (tw_names t) u end.
Proof.
  unfold tw_user_list. induction l as [|[u' n] l IH]; intros t u; cbn [fold_left last_in_list fst snd]; [reflexivity|].
  rewrite IH. destruct (last_in_list l u); [reflexivity|]. cbn.
  destruct (Z.eqb_spec u' u) as [->|Hn].
  - apply (get_set_same Z.eqb z_eqb_spec).
  - apply (get_set_other Z.eqb z_eqb_spec); auto.
Qed.
Lemma user_list_others l : forall t,
  tw_bells (tw_user_list t l) = tw_bells t /\ tw_assigned (tw_user_list t l) = tw_assigned t.
Proof.
  unfold tw_user_list. induction l as [|[u' n] l IH]; intros t; cbn [fold_left fst snd]; [auto|].
  destruct (IH (tw_user_entered t u' n)) as [A B]. rewrite A, B. auto.
Qed.

(* the three components of the invariant, proved together by induction on the history (from the
   oldest message): strokes, names, holders; plus uniqueness of the dictionary keys *)
Theorem view_refines_spec : forall h,
  tw_bells (view h) = spec_bells (rev h)
  /\ (forall u, dict_get Z.eqb (tw_names (view h)) u = spec_name (rev h) u)
  /\ (forall b, dict_get Nat.eqb (tw_assigned (view h)) b = spec_holder (rev h) b)
  /\ keys_nodup Nat.eqb (tw_assigned (view h)).
Proof.
  unfold view. induction h as [|m h IH] using rev_ind; [cbn; auto|].
  rewrite tower_run_snoc, rev_app_distr. cbn [rev app].
  destruct IH as [HB [HN [HA HU]]]. set (t := tower_run h) in *.
  destruct m as [st who|st|uid nm|l|uid|bell uid|n]; cbn [tower_step spec_bells spec_name spec_holder].
  - repeat split; auto.
  - repeat split; auto.
  - repeat split; auto. intros u. cbn.
    destruct (Z.eqb_spec uid u) as [->|Hn];
      [apply (get_set_same Z.eqb z_eqb_spec) | rewrite (get_set_other Z.eqb z_eqb_spec); auto].
  - destruct (user_list_others l t) as [A B]. rewrite A, B. repeat split; auto.
    intros u. rewrite user_list_names, HN. reflexivity.
  - repeat split; auto.
    + intros b. cbn. rewrite (get_filter Nat.eqb nat_eqb_spec); auto. rewrite HA.
      destruct (spec_holder (rev h) b) as [u'|]; [|reflexivity]. cbn.
      destruct (Z.eqb u' uid); reflexivity.
    + cbn. apply nodup_filter; auto.
  - unfold tw_assign. destruct (bell_ok bell) eqn:BO.
    + destruct (Z.eqb_spec uid 0) as [->|Hz]; cbn; repeat split; auto.
      * intros b. destruct (Nat.eqb_spec bell b) as [->|Hn]; cbn [andb].
        -- apply (get_del_same Nat.eqb nat_eqb_spec); auto.
        -- rewrite (get_del_other Nat.eqb nat_eqb_spec); auto.
      * apply (nodup_del Nat.eqb nat_eqb_spec); auto.
      * intros b. destruct (Nat.eqb_spec bell b) as [->|Hn]; cbn [andb].
        -- apply (get_set_same Nat.eqb nat_eqb_spec).
        -- rewrite (get_set_other Nat.eqb nat_eqb_spec); auto.
      * apply (nodup_set Nat.eqb nat_eqb_spec); auto.
    + repeat split; auto. intros b. rewrite Bool.andb_false_r. apply HA.
  - unfold tw_size_change, tw_size. rewrite HB.
    destruct (n =? length (spec_bells (rev h))) eqn:E; cbn; [repeat split; auto|].
    repeat split; auto.
    + intros b. rewrite (get_filter Nat.eqb nat_eqb_spec); auto. rewrite HA. cbn.
      destruct (spec_holder (rev h) b); destruct (b <=? n); reflexivity.
    + apply nodup_filter; auto.
Qed.

(* consequences in the vocabulary of the property *)
Corollary size_matches_history h : tw_size (view h) = length (spec_bells (rev h)).
Proof. unfold tw_size. now destruct (view_refines_spec h) as [-> _]. Qed.

Corollary ownership_matches_history h b name :
  tw_assigned_to (view h) b name = spec_is_wheatleys (rev h) b name.
Proof.
  unfold tw_assigned_to, spec_is_wheatleys. destruct (view_refines_spec h) as [_ [HN [HA _]]].
  rewrite HA. destruct (spec_holder (rev h) b); [now rewrite HN | reflexivity].
Qed.
