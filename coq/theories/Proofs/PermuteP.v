(* Proofs about Model/Permute.v: permute yields a permutation and a legal change. *)
From Wh Require Import Prelude Permute.
From Coq Require Import Permutation.

(* [legal n r r']: r' is r with some disjoint adjacent pairs swapped, all inside the first n
   positions; everything else stays where it is. *)
Inductive legal : nat -> row -> row -> Prop :=
| legal_stop n t : legal n t t
| legal_keep n a t t' : legal n t t' -> legal (S n) (a :: t) (a :: t')
| legal_swap n a b t t' : legal n t t' -> legal (S (S n)) (a :: b :: t) (b :: a :: t').

Lemma legal_perm n r r' : legal n r r' -> Permutation r r'.
Proof.
  induction 1 as [n t | n a t t' _ IH | n a b t t' _ IH].
  - apply Permutation_refl.
  - now apply perm_skip.
  - eapply perm_trans; [apply perm_swap|]. now do 2 apply perm_skip.
Qed.

Lemma legal_length n r r' : legal n r r' -> length r' = length r.
Proof. intros H. symmetry. apply Permutation_length. eapply legal_perm; eauto. Qed.

Lemma legal_mono n m r r' : legal n r r' -> n <= m -> legal m r r'.
Proof.
  intros H. revert m. induction H as [n t | n a t t' _ IH | n a b t t' _ IH]; intros m Hm.
  - apply legal_stop.
  - destruct m as [|m]; [lia|]. apply legal_keep, IH. lia.
  - destruct m as [|[|m]]; try lia. apply legal_swap, IH. lia.
Qed.

(* covers: positions >= n are untouched *)
Lemma legal_tail n r r' : legal n r r' -> forall i, n <= i -> nth_error r' i = nth_error r i.
Proof.
  induction 1 as [n t | n a t t' _ IH | n a b t t' _ IH]; intros i Hi.
  - reflexivity.
  - destruct i as [|i]; [lia|]. cbn. apply IH. lia.
  - destruct i as [|[|i]]; try lia. cbn. apply IH. lia.
Qed.

(* nobody jumps: what is at position i afterwards was at i, i+1 or i-1 before, and in the two
   latter cases the neighbour went the other way (a swap of an adjacent pair) *)
Lemma legal_local n r r' : legal n r r' -> forall i,
    nth_error r' i = nth_error r i
    \/ (nth_error r' i = nth_error r (S i) /\ nth_error r' (S i) = nth_error r i /\ S i < n)
    \/ (exists j, i = S j /\ nth_error r' i = nth_error r j /\ nth_error r' j = nth_error r i /\ i < n).
Proof.
  induction 1 as [n t | n a t t' _ IH | n a b t t' _ IH]; intros i.
  - now left.
  - destruct i as [|i]; [now left|]. cbn [nth_error].
    destruct (IH i) as [H | [[H1 [H2 H3]] | [j [Hj [H1 [H2 H3]]]]]].
    + now left.
    + right; left. repeat split; auto. lia.
    + right; right. exists (S j). subst i. cbn [nth_error]. repeat split; auto. lia.
  - destruct i as [|[|i]].
    + right; left. cbn. repeat split; auto. lia.
    + right; right. exists 0. cbn. repeat split; auto. lia.
    + cbn [nth_error].
      destruct (IH i) as [H | [[H1 [H2 H3]] | [j [Hj [H1 [H2 H3]]]]]].
      * now left.
      * right; left. repeat split; auto. lia.
      * right; right. exists (S (S j)). subst i. cbn [nth_error]. repeat split; auto. lia.
Qed.

Lemma swap_at_app pre a b t : swap_at (length pre) (pre ++ a :: b :: t) = Some (pre ++ b :: a :: t).
Proof. induction pre as [|x pre IH]; cbn; [reflexivity|]. now rewrite IH. Qed.

Lemma permute_loop_inv fuel stage pl :
  forall i pre suf,
    1 <= i -> length pre = i - 1 -> stage <= length (pre ++ suf) -> stage < fuel + i ->
    exists suf', permute_loop fuel stage pl i (pre ++ suf) = Ok (pre ++ suf')
                 /\ legal (stage - (i - 1)) suf suf'.
Proof.
  induction fuel as [|f IH]; intros i pre suf Hi Hpre Hlen Hfuel.
  - cbn [permute_loop]. destruct (Nat.ltb_spec i stage) as [Hlt|Hge]; [lia|].
    exists suf. split; [reflexivity | apply legal_stop].
  - cbn [permute_loop]. destruct (Nat.ltb_spec i stage) as [Hlt|Hge].
    2:{ exists suf. split; [reflexivity | apply legal_stop]. }
    rewrite app_length in Hlen.
    destruct suf as [|a [|b t]]; cbn [length] in Hlen; try lia.
    destruct (mem_nat i pl).
    + destruct (IH (i + 1) (pre ++ [a]) (b :: t)) as [suf' [He Hl]].
      * lia.
      * rewrite app_length; cbn; lia.
      * rewrite !app_length; cbn; lia.
      * lia.
      * exists (a :: suf'). rewrite <- !app_assoc in He. cbn [app] in He. split; [exact He|].
        replace (stage - (i - 1)) with (S (stage - (i + 1 - 1))) by lia.
        now apply legal_keep.
    + replace (i - 1) with (length pre) by lia. rewrite swap_at_app.
      destruct (IH (i + 2) (pre ++ [b; a]) t) as [suf' [He Hl]].
      * lia.
      * rewrite app_length; cbn; lia.
      * rewrite !app_length; cbn; lia.
      * lia.
      * exists (b :: a :: suf'). rewrite <- !app_assoc in He. cbn [app] in He. split; [exact He|].
        replace (stage - (length pre)) with (S (S (stage - (i + 2 - 1)))) by lia.
        now apply legal_swap.
Qed.

Lemma permute_start_cases pl : permute_start pl = 1 \/ permute_start pl = 2.
Proof. unfold permute_start. destruct pl as [|p ?]; auto. destruct (Nat.even p); auto. Qed.

(* Main lemma: under exactly the guard that keeps Python from raising IndexError, permute succeeds
   and the result is a legal change of the first [stage] places. ALL stages, place lists, rows. *)
Lemma permute_legal stage pl r :
  stage <= length r -> exists r', permute stage pl r = Ok r' /\ legal stage r r'.
Proof.
  intros Hlen. unfold permute.
  destruct (permute_start_cases pl) as [E|E]; rewrite E.
  - destruct (permute_loop_inv stage stage pl 1 [] r) as [s [He Hl]]; cbn; try lia.
    exists s. cbn in He. split; [exact He|]. now rewrite Nat.sub_0_r in Hl.
  - destruct r as [|a t].
    + cbn in Hlen. assert (stage = 0) by lia. subst. cbn. exists []. split; [reflexivity|apply legal_stop].
    + destruct (permute_loop_inv stage stage pl 2 [a] t) as [s [He Hl]]; cbn; try lia.
      * cbn in Hlen. lia.
      * exists (a :: s). cbn in He. split; [exact He|].
        destruct stage as [|st].
        { cbn in Hl. inversion Hl; subst. apply legal_stop. }
        apply legal_keep. replace (S st - (2 - 1)) with st in Hl by lia. exact Hl.
Qed.

Lemma permute_ok stage pl r :
  stage <= length r ->
  exists r', permute stage pl r = Ok r' /\ Permutation r r' /\ length r' = length r.
Proof.
  intros H. destruct (permute_legal stage pl r H) as [r' [E L]].
  exists r'. split; [exact E|]. split; [eapply legal_perm; eauto | eapply legal_length; eauto].
Qed.

(* the error branch: a row shorter than the stage makes the loop index past the end, unless every
   remaining index is a made place *)
Lemma permute_never_other_error stage pl r e :
  permute stage pl r = Err e -> e = EIndex /\ length r < stage.
Proof.
  intros H. destruct (le_lt_dec stage (length r)) as [Hle|Hlt].
  - destruct (permute_legal stage pl r Hle) as [r' [E _]]. congruence.
  - split; [|exact Hlt]. unfold permute in H.
    assert (G : forall fuel i r0, stage < fuel + i -> permute_loop fuel stage pl i r0 = Err e -> e = EIndex).
    { induction fuel as [|f IH]; intros i r0 Hf; cbn [permute_loop];
        destruct (Nat.ltb_spec i stage) as [Hl|Hg]; try discriminate; try lia.
      destruct (mem_nat i pl).
      - apply IH. lia.
      - destruct (swap_at (i - 1) r0) as [r1|]; [apply IH; lia | congruence]. }
    eapply G; [|exact H]. destruct (permute_start_cases pl) as [E|E]; rewrite E; lia.
Qed.

(* made places: a place named in the notation that the loop reaches un-swapped stays put.  We state
   the parity-consistent case through the structural characterisation used by C03: if p is in the
   place list and the loop visits index p, position p-1 is unchanged. *)
Lemma legal_refl_nth n r r' i : legal n r r' -> n <= i -> nth_error r' i = nth_error r i.
Proof. intros; eapply legal_tail; eauto. Qed.
