(* Algebra of the regression rhythm over exact rationals (Model/Rhythm.v with r_round = false):
   exact recovery of a line from collinear data, translation invariance, lerp laws, the inertia-1
   freeze and the rejection of grossly misplaced strikes.  Everything is stated up to Qeq (==),
   because the model normalises fractions with Qred after every operation. *)
From Wh Require Import Prelude Permute PN Gens Rhythm.
From Coq Require Import NArith ZArith QArith Qreduction Qfield Qpower Lra Lqa.
Local Open Scope Q_scope.

Lemma qadd_eq a b : qadd a b == a + b.  Proof. apply Qred_correct. Qed.
Lemma qsub_eq a b : qsub a b == a - b.  Proof. apply Qred_correct. Qed.
Lemma qmul_eq a b : qmul a b == a * b.  Proof. apply Qred_correct. Qed.
Lemma qdiv_eq a b : qdiv a b == a / b.  Proof. apply Qred_correct. Qed.

Global Instance qadd_proper : Proper (Qeq ==> Qeq ==> Qeq) qadd.
Proof. intros a b H c d H2. now rewrite !qadd_eq, H, H2. Qed.
Global Instance qsub_proper : Proper (Qeq ==> Qeq ==> Qeq) qsub.
Proof. intros a b H c d H2. now rewrite !qsub_eq, H, H2. Qed.
Global Instance qmul_proper : Proper (Qeq ==> Qeq ==> Qeq) qmul.
Proof. intros a b H c d H2. now rewrite !qmul_eq, H, H2. Qed.

(* ------------------------------------------------------------------ the five weighted sums *)
Fixpoint Sw (d : list datapoint) : Q := match d with [] => 0 | (x, y, w) :: t => Sw t + w end.
Fixpoint Sx (d : list datapoint) : Q := match d with [] => 0 | (x, y, w) :: t => Sx t + w * x end.
Fixpoint Sy (d : list datapoint) : Q := match d with [] => 0 | (x, y, w) :: t => Sy t + w * y end.
Fixpoint Sxx (d : list datapoint) : Q := match d with [] => 0 | (x, y, w) :: t => Sxx t + w * (x * x) end.
Fixpoint Sxy (d : list datapoint) : Q := match d with [] => 0 | (x, y, w) :: t => Sxy t + w * (x * y) end.

Lemma sums_spec d :
  let '(sw, sx, sy, sxx, sxy) := sums d in
  sw == Sw d /\ sx == Sx d /\ sy == Sy d /\ sxx == Sxx d /\ sxy == Sxy d.
Proof.
  induction d as [|[[x y] w] d IH]; cbn [sums Sw Sx Sy Sxx Sxy].
  - repeat split; reflexivity.
  - destruct (sums d) as [[[[sw sx] sy] sxx] sxy]. destruct IH as [A [B [C [D E]]]].
    repeat split; rewrite ?qadd_eq, ?qmul_eq, ?A, ?B, ?C, ?D, ?E; reflexivity.
Qed.

Definition det (d : list datapoint) : Q := Sw d * Sxx d - Sx d * Sx d.

(* calculate_regression solves the weighted normal equations *)
Lemma regression_closed_form d a b :
  calculate_regression d = Some (a, b) ->
  ~ det d == 0 /\ a == (Sxx d * Sy d - Sx d * Sxy d) / det d /\ b == (Sw d * Sxy d - Sx d * Sy d) / det d.
Proof.
  unfold calculate_regression. pose proof (sums_spec d) as S.
  destruct (sums d) as [[[[sw sx] sy] sxx] sxy]. destruct S as [A [B [C [D E]]]].
  destruct (Qeqb _ 0) eqn:Z; [discriminate|]. intros H. inversion H; subst. clear H.
  assert (Hd : qsub (qmul sw sxx) (qmul sx sx) == det d).
  { unfold det. now rewrite qsub_eq, !qmul_eq, A, B, D. }
  split; [|split].
  - intros Hz. unfold Qeqb in Z.
    assert (Hz' : qsub (qmul sw sxx) (qmul sx sx) == 0) by (eapply Qeq_trans; [exact Hd | exact Hz]).
    apply Qeq_bool_iff in Hz'. congruence.
  - rewrite qdiv_eq, Hd, qsub_eq, !qmul_eq, B, C, D, E. reflexivity.
  - rewrite qdiv_eq, Hd, qsub_eq, !qmul_eq, A, B, C, E. reflexivity.
Qed.

Lemma regression_defined d : ~ det d == 0 -> exists a b, calculate_regression d = Some (a, b).
Proof.
  intros Hd. unfold calculate_regression. pose proof (sums_spec d) as S.
  destruct (sums d) as [[[[sw sx] sy] sxx] sxy]. destruct S as [A [B [C [D E]]]].
  destruct (Qeqb _ 0) eqn:Z; [|eauto]. exfalso. apply Hd.
  unfold Qeqb in Z. apply Qeq_bool_iff in Z. unfold det.
  rewrite <- A, <- B, <- D. rewrite <- Z. rewrite qsub_eq, !qmul_eq. reflexivity.
Qed.

(* ------------------------------------------------------------------ C12: exact recovery from collinear data *)
Definition on_line (a b : Q) (p : datapoint) : Prop := let '(x, y, w) := p in y == a + b * x.

Lemma collinear_sums a b d :
  Forall (on_line a b) d -> Sy d == a * Sw d + b * Sx d /\ Sxy d == a * Sx d + b * Sxx d.
Proof.
  induction 1 as [|[[x y] w] d Hp _ IH]; cbn [Sw Sx Sy Sxx Sxy].
  - split; ring.
  - destruct IH as [A B]. cbn in Hp. rewrite A, B, Hp. split; ring.
Qed.

(* ANY weights, any number of points, any tempo: if all the data lie on y = a + b x (and the system
   is not degenerate) the regression returns exactly that line *)
Theorem collinear_recovery a b d a' b' :
  Forall (on_line a b) d -> calculate_regression d = Some (a', b') -> a' == a /\ b' == b.
Proof.
  intros Hl Hr. destruct (regression_closed_form d a' b' Hr) as [Hd [Ha Hb]].
  destruct (collinear_sums a b d Hl) as [Ey Exy].
  split.
  - rewrite Ha, Ey, Exy. unfold det in *. field. exact Hd.
  - rewrite Hb, Ey, Exy. unfold det in *. field. exact Hd.
Qed.

(* ------------------------------------------------------------------ C14: time itself is irrelevant *)
Definition shift_point (c : Q) (p : datapoint) : datapoint := let '(x, y, w) := p in (x, y + c, w).

Lemma shift_sums c d :
  Sw (map (shift_point c) d) == Sw d /\ Sx (map (shift_point c) d) == Sx d
  /\ Sxx (map (shift_point c) d) == Sxx d
  /\ Sy (map (shift_point c) d) == Sy d + c * Sw d
  /\ Sxy (map (shift_point c) d) == Sxy d + c * Sx d.
Proof.
  induction d as [|[[x y] w] d IH]; cbn [map shift_point Sw Sx Sy Sxx Sxy].
  - repeat split; ring.
  - destruct IH as [A [B [C [D E]]]]. rewrite A, B, C, D, E. repeat split; ring.
Qed.

(* moving the clock's origin by c moves the fitted start by c and leaves the interval alone *)
Theorem regression_translates c d a b a' b' :
  calculate_regression d = Some (a, b) ->
  calculate_regression (map (shift_point c) d) = Some (a', b') ->
  a' == a + c /\ b' == b.
Proof.
  intros H1 H2.
  destruct (regression_closed_form _ _ _ H1) as [Hd [Ha Hb]].
  destruct (regression_closed_form _ _ _ H2) as [Hd' [Ha' Hb']].
  destruct (shift_sums c d) as [A [B [C [D E]]]].
  unfold det in *. split.
  - rewrite Ha', Ha, A, B, C, D, E. field. exact Hd.
  - rewrite Hb', Hb, A, B, C, D, E. field. exact Hd.
Qed.

(* ------------------------------------------------------------------ lerp *)
Lemma lerp_eq a b t : lerp a b t == (1 - t) * a + t * b.
Proof. unfold lerp. now rewrite qadd_eq, !qmul_eq, qsub_eq. Qed.
Lemma lerp_same a t : lerp a a t == a.
Proof. rewrite lerp_eq. ring. Qed.
(* the distance to the new value contracts by exactly the inertia *)
Lemma lerp_contracts new old t : lerp new old t - new == t * (old - new).
Proof. rewrite lerp_eq. ring. Qed.
Lemma lerp_zero new old : lerp new old 0 == new.
Proof. rewrite lerp_eq. ring. Qed.
Lemma lerp_contracts_iter new old t k :
  (* k successive moves towards the same target *)
  Nat.iter k (fun cur => lerp new cur t) old - new == t ^ (Z.of_nat k) * (old - new).
Proof.
  induction k as [|k IH].
  - cbn. ring.
  - change (Nat.iter (S k) (fun cur => lerp new cur t) old) with (lerp new (Nat.iter k (fun cur => lerp new cur t) old) t).
    rewrite lerp_contracts, IH. rewrite Nat2Z.inj_succ, <- Z.add_1_r.
    destruct (Qeq_dec t 0) as [E|N].
    + rewrite E. rewrite (Qpower_0 (Z.of_nat k + 1)) by lia. ring.
    + rewrite Qpower_plus by exact N. cbn. ring.
Qed.

(* ------------------------------------------------------------------ C13: inertia 1 freezes the line *)
Theorem inertia1_line_frozen r row place t w r' :
  (0 < row)%nat -> Qeqb (r_pref_inertia r) 1 = true ->
  add_data_point r row place t w = Ok r' ->
  r_start r' = r_start r /\ r_interval r' = r_interval r.
Proof.
  intros Hr Hi. unfold add_data_point.
  set (r1 := fold_left _ _ r).
  set (f := fun (r' : regr) (p : datapoint) => note_margin r' (qsub (snd p) WEIGHT_REJECTION_THRESHOLD)).
  assert (F : forall (l : list datapoint) r0,
              r_start (fold_left f l r0) = r_start r0 /\ r_interval (fold_left f l r0) = r_interval r0
              /\ r_pref_inertia (fold_left f l r0) = r_pref_inertia r0).
  { induction l as [|p l IH]; intros r0; cbn [fold_left]; [auto|].
    destruct (IH (f r0 p)) as [A [B C]]. rewrite A, B, C. auto. }
  assert (ABC : r_start r1 = r_start r /\ r_interval r1 = r_interval r /\ r_pref_inertia r1 = r_pref_inertia r)
    by (unfold r1; apply F).
  destruct ABC as [A [B C]].
  destruct (if (r_max r1 <=? length _)%nat then _ else _) as [d3|e]; cbn [bind]; [|discriminate].
  destruct (Nat.ltb_spec 0 row); [|lia]. rewrite C, Hi.
  intros Heq. inversion Heq; subst. cbn. rewrite A, B. auto.
Qed.

(* ------------------------------------------------------------------ C13: a gross blunder is dropped on arrival *)
Theorem low_weight_point_is_filtered (d : list datapoint) bt t w :
  Qle_bool w WEIGHT_REJECTION_THRESHOLD = true ->
  filter (fun p : datapoint => Qltb WEIGHT_REJECTION_THRESHOLD (snd p)) (d ++ [(bt, t, w)])
  = filter (fun p : datapoint => Qltb WEIGHT_REJECTION_THRESHOLD (snd p)) d.
Proof.
  intros H. rewrite filter_app. cbn [filter snd]. unfold Qltb. rewrite H. cbn. apply app_nil_r.
Qed.

(* exp_neg of anything at or beyond 60 is 0, and a displacement of |diff| >= 8 places gives diff^2 >= 60:
   the coarse bound used by the executable model; the sharp bound (3 places) is a computed fact *)
Example exp_neg_9_below_threshold : Qle_bool (exp_neg 9) WEIGHT_REJECTION_THRESHOLD = true.
Proof. vm_compute. reflexivity. Qed.
Example exp_neg_6_76_above_threshold : Qltb WEIGHT_REJECTION_THRESHOLD (exp_neg (169 # 25)) = true.  (* 2.6^2 *)
Proof. vm_compute. reflexivity. Qed.

(* ------------------------------------------------------------------ C19: a peal-speed change bends the line without a jump *)
(* the blow position that the real time t corresponds to is the same before and after the change,
   and the slope is the new interval *)
Theorem speed_change_is_continuous r p t s r' :
  r_start r = Some s -> ~ r_interval r == 0 -> (0 < p)%Z -> r_round r = false ->
  regr_change_setting r KPealSpeed (VInt p) t = Ok r' ->
  let ni := peal_speed_to_blow_interval (inject_Z p) (r_stage r) in
  r_interval r' = ni /\
  (forall s', r_start r' = Some s' -> ~ ni == 0 -> (t - s') / ni == (t - s) / r_interval r).
Proof.
  intros Hs Hi Hp Hr. unfold regr_change_setting. cbn [to_int bind].
  destruct (Z.leb_spec p 0) as [|_]; [lia|].
  Opaque peal_speed_to_blow_interval qsub qmul qdiv qadd qround Qeqb.
  cbn.
  destruct (Qeqb (r_interval r) 0) eqn:Z.
  { Transparent Qeqb. unfold Qeqb in Z. apply Qeq_bool_iff in Z. contradiction. }
  rewrite Hs. intros H. inversion H; subst. clear H. cbn. split; [reflexivity|].
  intros s' E Hn. inversion E; subst. clear E. rewrite Hr.
  Transparent peal_speed_to_blow_interval qsub qmul qdiv qadd qround.
  cbn [qround].
  rewrite qsub_eq, qmul_eq, qdiv_eq, qsub_eq.
  set (ni := peal_speed_to_blow_interval (inject_Z p) (r_stage r)) in *. field. split; assumption.
Qed.
