(* Proofs about the Bot's control logic (Model/Sys.v): the start counter and the row number stay in
   step with the generator's start stroke, hence the `assert next_stroke == start_stroke` of
   bot.py:416 can never fire - along EVERY history of messages and ticks (granularity H). *)
From Wh Require Import Prelude Permute PN Gens Complib Tower Rhythm PyStr Sys GensP.
From Coq Require Import NArith ZArith QArith.
From RecordUpdate Require Import RecordSet.
Import RecordSetNotations.
Close Scope Q_scope.

(* ------------------------------------------------------------------ the control skeleton *)
(* [Jc k rn sp]: if the start counter holds c, then the row that will begin after c further
   turnovers (row rn + 1 + c) is on the generator's start stroke *)
Definition Jc (k_left : option Z) (rn : nat) (sp : bool) : Prop :=
  match k_left with
  | Some c => (0 <= c)%Z /\ Nat.even (rn + 1 + Z.to_nat c) = sp
  | None => True
  end.

Lemma even_SS n : Nat.even (S (S n)) = Nat.even n.  Proof. reflexivity. Qed.
Lemma even_S n : Nat.even (S n) = negb (Nat.even n).
Proof. rewrite Nat.even_succ. rewrite <- Nat.negb_even. reflexivity. Qed.

(* what the control step does to the start counter, whatever the other inputs *)
Lemma snr_ctl_left sar hjr nh ok fits k :
  match snr_ctl sar hjr nh ok fits k with
  | Ok (k', act) =>
      k_left k' = (if opt_z_is (k_left k) 0 then None else opt_z_dec (k_left k))
      /\ (opt_z_is (k_left k) 0 = true -> ok = true)
      /\ (act = NoStart <-> opt_z_is (k_left k) 0 = false)
  | Err e => opt_z_is (k_left k) 0 = true /\ ok = false
  end.
Proof.
  unfold snr_ctl. destruct (opt_z_is (k_left k) 0) eqn:E0; [destruct ok|]; cbn [negb bind].
  - repeat match goal with |- context [let '(_, _) := ?x in _] => destruct x end.
    cbn. repeat split; auto; intros; discriminate.
  - auto.
  - repeat match goal with |- context [let '(_, _) := ?x in _] => destruct x end.
    cbn. repeat split; auto; intros; discriminate.
Qed.

Lemma snr_ctl_J sar hjr fits k rn sp :
  Jc (k_left k) rn sp ->
  match snr_ctl sar hjr (Nat.even (S rn)) (Bool.eqb (Nat.even (S rn)) sp) fits k with
  | Ok (k', _) => Jc (k_left k') (S rn) sp
  | Err _ => False
  end.
Proof.
  intros HJ.
  pose proof (snr_ctl_left sar hjr (Nat.even (S rn)) (Bool.eqb (Nat.even (S rn)) sp) fits k) as L.
  destruct (snr_ctl _ _ _ _ _ k) as [[k' act]|e].
  - destruct L as [L _]. rewrite L. unfold Jc, opt_z_is, opt_z_dec in *.
    destruct (k_left k) as [c|]; [|exact I]. destruct HJ as [Hc He].
    destruct (Z.eqb_spec c 0) as [->|Hn]; [exact I|]. split; [lia|].
    replace (S rn + 1 + Z.to_nat (c - 1)) with (rn + 1 + Z.to_nat c) by lia. exact He.
  - destruct L as [L1 L2]. unfold Jc, opt_z_is in *. destruct (k_left k) as [c|]; [|discriminate].
    destruct HJ as [Hc He]. apply Z.eqb_eq in L1. subst c. change (Z.to_nat 0) with 0 in He.
    replace (rn + 1 + 0) with (S rn) in He by lia. rewrite He, Bool.eqb_reflx in L2. discriminate.
Qed.

(* the first row of a touch: Look to has just set the counter to None / 2 (hand start) / 3 *)
Lemma snr_ctl_first sar hjr fits k (sp udi : bool) :
  k_left k = (if negb udi then @None Z else if sp then Some 2%Z else Some 3%Z) ->
  match snr_ctl sar hjr true (Bool.eqb true sp) fits k with
  | Ok (k', act) => Jc (k_left k') 0 sp /\ act = NoStart
  | Err _ => False
  end.
Proof.
  intros E.
  pose proof (snr_ctl_left sar hjr true (Bool.eqb true sp) fits k) as L.
  assert (Z0 : opt_z_is (k_left k) 0 = false).
  { rewrite E. destruct udi, sp; reflexivity. }
  destruct (snr_ctl _ _ _ _ _ k) as [[k' act]|e].
  - destruct L as [L1 [_ L3]]. rewrite Z0 in L1. split; [|now apply L3].
    rewrite L1, E. unfold Jc, opt_z_dec. destruct udi; cbn [negb]; [|exact I].
    destruct sp; split; try lia; reflexivity.
  - destruct L as [L _]. congruence.
Qed.

(* Go: counter := 1 if the row in progress is on the start stroke, else 0 *)
Lemma go_J rn sp : Jc (Some (if Bool.eqb (Nat.even rn) sp then 1%Z else 0%Z)) rn sp.
Proof.
  unfold Jc. destruct (Bool.eqb (Nat.even rn) sp) eqn:E.
  - apply Bool.eqb_prop in E. split; [lia|]. change (Z.to_nat 1) with 1.
    replace (rn + 1 + 1) with (S (S rn)) by lia. now rewrite even_SS.
  - split; [lia|]. change (Z.to_nat 0) with 0. replace (rn + 1 + 0) with (S rn) by lia.
    rewrite even_S. destruct (Nat.even rn), sp; cbn in *; congruence.
Qed.

(* ------------------------------------------------------------------ on the Bot record *)
Definition Jb (b : bot) : Prop := Jc (b_rounds_left b) (b_row_number b) (gen_start_stroke (b_gen b)).
Definition Jw (w : world) : Prop := Jb (w_bot w).

(* things that do not touch the bot *)
Lemma bot_log w o : w_bot (log w o) = w_bot w.  Proof. reflexivity. Qed.
Lemma bot_enqueue w t i : w_bot (enqueue w t i) = w_bot w.  Proof. reflexivity. Qed.
Lemma bot_emit_call w c : w_bot (emit_call w c) = w_bot w.  Proof. reflexivity. Qed.
Lemma bot_make_call w c : w_bot (make_call w c) = w_bot w.
Proof. unfold make_call. destruct (b_call_comps (w_bot w)); reflexivity. Qed.
Lemma bot_make_calls cs : forall w, w_bot (make_calls w cs) = w_bot w.
Proof.
  unfold make_calls. induction cs as [|c cs IH]; intros w; cbn [fold_left]; [reflexivity|].
  rewrite IH. apply bot_make_call.
Qed.
Lemma bot_server_ring w bell cl : w_bot (server_ring w bell cl) = w_bot w.
Proof.
  unfold server_ring. destruct (bell =? 0); [reflexivity|].
  destruct (nth_error (w_server w) (bell - 1)); [|reflexivity].
  destruct (match cl with Some c => Bool.eqb b c | None => true end); reflexivity.
Qed.
Lemma bot_emit_bell w bell h : w_bot (emit_bell w bell h) = w_bot w.
Proof. unfold emit_bell. now rewrite bot_server_ring. Qed.
Lemma bot_expect_loop r : forall w i, w_bot (expect_loop w r i) = w_bot w.
Proof.
  induction r as [|bell r IH]; intros w i; cbn [expect_loop]; [reflexivity|].
  rewrite IH. destruct (user_assigned w bell); reflexivity.
Qed.

Lemma gen_start_stroke_static a b : static_eq a b -> gen_start_stroke a = gen_start_stroke b.
Proof. intros [K _]. unfold gen_start_stroke. now rewrite K. Qed.

Lemma generate_next_row_J w w' oe :
  generate_next_row w = (w', oe) ->
  b_rounds_left (w_bot w') = b_rounds_left (w_bot w)
  /\ b_row_number (w_bot w') = b_row_number (w_bot w)
  /\ gen_start_stroke (b_gen (w_bot w')) = gen_start_stroke (b_gen (w_bot w)).
Proof.
  unfold generate_next_row.
  destruct (b_opening_flag (w_bot w)); [intros H; inversion H; subst; cbn; auto|].
  destruct (b_rounds_flag (w_bot w)); [intros H; inversion H; subst; cbn; auto|].
  destruct (gen_next (b_gen (w_bot w)) (stroke_of_row (b_row_number (w_bot w)))) as [[g' [r cs]]|e] eqn:E;
    intros H; inversion H; subst; cbn; auto.
  repeat split; auto. apply gen_start_stroke_static. eapply gen_next_static; eauto.
Qed.

(* the arguments start_next_row passes to the control skeleton *)
Definition snr_args (w : world) (is_first : bool) :=
  let b0 := w_bot w in
  let rn := if is_first then 0 else S (b_row_number b0) in
  let w1 := upd_bot w (fun b => b <| b_place := 0 |> <| b_row_number := rn |> <| b_calls :=
              match b_rounds_left b0 with
              | Some k => match dict_get Z.eqb (gen_early_calls (b_gen b0)) k with
                          | Some (c :: cs) => c :: cs | _ => [] end
              | None => [] end |>) in
  snr_ctl (b_stop_at_rounds b0) (row_eqb (b_row b0) (b_rounds b0)) (stroke_of_row rn)
          (Bool.eqb (stroke_of_row rn) (gen_start_stroke (b_gen b0))) (check_bells w1 (b_gen b0)) (ctl_of b0).

(* the row turnover: the start-stroke assertion (bot.py:416) cannot fire, and the invariant is kept *)
Lemma start_next_row_J w :
  Jw w -> (exists k act, snr_args w false = Ok (k, act)) /\ Jw (fst (start_next_row w false)).
Proof.
  unfold Jw, Jb. intros HJ. unfold start_next_row, snr_args.
  set (b0 := w_bot w). fold b0 in HJ.
  set (w1 := upd_bot w _).
  pose proof (snr_ctl_J (b_stop_at_rounds b0) (row_eqb (b_row b0) (b_rounds b0))
                (check_bells w1 (b_gen b0)) (ctl_of b0) (b_row_number b0)
                (gen_start_stroke (b_gen b0)) HJ) as HS.
  unfold stroke_of_row.
  destruct (snr_ctl _ _ _ _ _ (ctl_of b0)) as [[k act]|e]; [|contradiction].
  split; [eauto|].
  set (w2 := upd_bot _ (fun b => set_ctl b k)).
  assert (H2 : b_rounds_left (w_bot w2) = k_left k /\ b_row_number (w_bot w2) = S (b_row_number b0)
               /\ gen_start_stroke (b_gen (w_bot w2)) = gen_start_stroke (b_gen b0)).
  { unfold w2, w1. destruct act as [|[|]]; cbn; rewrite ?bot_make_call; cbn; auto. }
  set (w3 := match act with Start _ => upd_bot w2 _ | NoStart => w2 end).
  assert (H3 : b_rounds_left (w_bot w3) = k_left k /\ b_row_number (w_bot w3) = S (b_row_number b0)
               /\ gen_start_stroke (b_gen (w_bot w3)) = gen_start_stroke (b_gen b0)).
  { unfold w3. destruct H2 as [A [B C]]. destruct act; cbn; auto. }
  destruct H3 as [A [B C]].
  destruct (negb (b_ringing (w_bot w3))); cbn [fst hok].
  - now rewrite A, B, C.
  - destruct (generate_next_row w3) as [w4 [e|]] eqn:G; cbn [hthen hok fst];
      destruct (generate_next_row_J _ _ _ G) as [A' [B' C']];
      rewrite ?bot_expect_loop, A', B', C', A, B, C; exact HS.
Qed.

(* the first row of a touch *)
Lemma start_next_row_first_J w (udi : bool) :
  b_rounds_left (w_bot w) =
    (if negb udi then @None Z else if gen_start_stroke (b_gen (w_bot w)) then Some 2%Z else Some 3%Z) ->
  Jw (fst (start_next_row w true)).
Proof.
  unfold Jw, Jb. intros HL. unfold start_next_row.
  set (b0 := w_bot w). fold b0 in HL.
  set (w1 := upd_bot w _).
  pose proof (snr_ctl_first (b_stop_at_rounds b0) (row_eqb (b_row b0) (b_rounds b0))
                (check_bells w1 (b_gen b0)) (ctl_of b0) (gen_start_stroke (b_gen b0)) udi HL) as HS.
  change (stroke_of_row 0) with true.
  destruct (snr_ctl _ _ _ _ _ (ctl_of b0)) as [[k act]|e]; [|contradiction].
  destruct HS as [HS ->].
  set (w2 := upd_bot w1 (fun b => set_ctl b k)).
  assert (H2 : b_rounds_left (w_bot w2) = k_left k /\ b_row_number (w_bot w2) = 0
               /\ gen_start_stroke (b_gen (w_bot w2)) = gen_start_stroke (b_gen b0)).
  { unfold w2, w1. cbn. auto. }
  destruct H2 as [A [B C]].
  destruct (negb (b_ringing (w_bot w2))); cbn [fst hok].
  - now rewrite A, B, C.
  - destruct (generate_next_row w2) as [w4 [e|]] eqn:G; cbn [hthen hok fst];
      destruct (generate_next_row_J _ _ _ G) as [A' [B' C']];
      rewrite ?bot_expect_loop, A', B', C', A, B, C; exact HS.
Qed.

Lemma on_go_J w : Jw w -> Jw (on_go w).
Proof.
  unfold Jw, Jb, on_go. intros HJ.
  destruct (b_rounds_flag (w_bot w) || b_opening_flag (w_bot w)); [|exact HJ].
  set (k := if Bool.eqb _ _ then 1%Z else 0%Z).
  set (w1 := upd_bot w _).
  assert (E : forall (l : list (Z * list call)) w0, w_bot w0 = w_bot w1 ->
              w_bot (fold_left (fun w ic => make_calls w (snd ic)) l w0) = w_bot w1).
  { induction l as [|x l IH]; intros w0 H0; cbn [fold_left]; [exact H0|].
    apply IH. now rewrite bot_make_calls. }
  rewrite (E _ w1 eq_refl). unfold w1, k. cbn. apply go_J.
Qed.

(* Look to: the nested sleep (WaitForUserRhythm.initialise_line) may deliver further messages *)
Lemma look_to_J (nested : world -> Q -> world) w t :
  (forall w0 t0, Jw w0 -> Jw (nested w0 t0)) -> Jw w -> Jw (fst (look_to_has_been_called nested w t)).
Proof.
  intros HN HJ. unfold look_to_has_been_called.
  set (w0 := (log w RReturn) <| w_rhythm := rh_return (w_rhythm w) |>).
  assert (J0 : Jw w0) by exact HJ.
  destruct (b_opening_row (w_bot w0)) as [|treble rest]; [exact J0|].
  set (w1 := log w0 _).
  match goal with |- Jw (fst (hthen ?r ?f)) => set (rinit := r); set (k := f) end.
  assert (JR : Jw (fst rinit)).
  { unfold rinit. destruct (w_rhythm w1) as [d|g|ws g] eqn:ER.
    - exact J0.
    - destruct (regr_initialise_line g (N_of w1) _ _); exact J0.
    - set (w2 := nested _ _).
      assert (J2 : Jw w2) by (apply HN; exact J0).
      destruct (w_rhythm w2) as [d2|g2|ws2 g2]; try exact J2.
      destruct (regr_initialise_line g2 (N_of w2) _ _); exact J2. }
  destruct rinit as [wr [e|]]; cbn [hthen fst] in *; [exact JR|].
  unfold k. apply (start_next_row_first_J _ (b_udi (w_bot wr))). cbn.
  destruct (b_udi (w_bot wr)); reflexivity.
Qed.

(* every other message leaves the three fields alone *)
Definition same_J (w w' : world) : Prop :=
  b_rounds_left (w_bot w') = b_rounds_left (w_bot w)
  /\ b_row_number (w_bot w') = b_row_number (w_bot w)
  /\ gen_start_stroke (b_gen (w_bot w')) = gen_start_stroke (b_gen (w_bot w)).

Lemma same_J_Jw w w' : same_J w w' -> Jw w -> Jw w'.
Proof. unfold same_J, Jw, Jb. intros [A [B C]] H. now rewrite A, B, C. Qed.

Lemma bot_on_size_change_same w : same_J w (fst (bot_on_size_change w)).
Proof.
  unfold bot_on_size_change, same_J.
  destruct (generate_starting_row _ _) as [opening|e]; [|cbn; auto].
  destruct (rounds (N_of w)) as [rd|e]; [|cbn; auto].
  cbn [fst hok]. destruct (b_next_gen _) as [g|]; [|cbn; auto].
  destruct (check_bells _ g); cbn; auto.
Qed.

Lemma on_bell_rung_same w st who : same_J w (fst (on_bell_rung w st who)).
Proof.
  unfold on_bell_rung, same_J. destruct (negb (bell_ok who)); [cbn; auto|].
  destruct (tw_get_stroke _ who); [|cbn; auto].
  destruct (user_assigned _ who); [|cbn; auto].
  destruct (rh_on_bell _ _ _ _) as [r [e|]]; cbn; auto.
Qed.

Lemma on_setting_same kvs : forall w, same_J w (fst (on_setting w kvs)).
Proof.
  induction kvs as [|[k v] kvs IH]; intros w; cbn [on_setting]; [unfold same_J; cbn; auto|].
  assert (H1 : same_J w (fst (on_setting_one w k v))).
  { unfold on_setting_one, same_J. destruct k; try (destruct (to_bool v); cbn; auto; fail).
    all: destruct (rh_change_setting _ _ _ _) as [r [e|]]; cbn; auto. }
  destruct (on_setting_one w k v) as [w1 [e|]]; cbn [hthen fst] in *; [exact H1|].
  specialize (IH w1). unfold same_J in *. destruct H1 as [A [B C]], IH as [A' [B' C']].
  repeat split; congruence.
Qed.

Lemma on_row_gen_same w j : same_J w (fst (on_row_gen w j)).
Proof. unfold on_row_gen, same_J. destruct (json_to_row_generator j); cbn; auto. Qed.

(* one message *)
Lemma handle_J (nested : world -> Q -> world) w m :
  (forall w0 t0, Jw w0 -> Jw (nested w0 t0)) -> Jw w -> Jw (fst (handle nested w m)).
Proof.
  intros HN HJ. destruct m; cbn [handle].
  - (* call *) unfold on_call.
    repeat match goal with |- context [if ?c then _ else _] => destruct c end;
      try exact HJ; cbn [fst hok].
    + unfold on_look_to. cbv zeta. destruct (check_start_row w && check_bells w _); [|exact HJ].
      apply look_to_J; auto.
    + apply on_go_J; exact HJ.
  - eapply same_J_Jw; [apply on_bell_rung_same | exact HJ].
  - eapply same_J_Jw; [apply bot_on_size_change_same | exact HJ].
  - exact HJ.
  - exact HJ.
  - exact HJ.
  - destruct (tw_assign _ _ _); exact HJ.
  - destruct (tw_size_change _ _) as [t fire]. destruct fire; [|exact HJ].
    eapply same_J_Jw; [apply bot_on_size_change_same | exact HJ].
  - destruct (server_mode w); [|exact HJ]. eapply same_J_Jw; [apply on_setting_same | exact HJ].
  - destruct (server_mode w); [|exact HJ]. eapply same_J_Jw; [apply on_row_gen_same | exact HJ].
  - destruct (server_mode w); exact HJ.
Qed.

Lemma deliver_J (nested : world -> Q -> world) w i :
  (forall w0 t0, Jw w0 -> Jw (nested w0 t0)) -> Jw w -> Jw (deliver nested w i).
Proof.
  intros HN HJ. unfold deliver.
  destruct i as [m|bell|n|v]; cbn [fst snd].
  - pose proof (handle_J nested w m HN HJ) as H. destruct (handle nested w m) as [w' [e|]]; exact H.
  - unfold Jw. rewrite bot_server_ring. exact HJ.
  - set (w1 := w <| w_server := repeat true n |>).
    pose proof (handle_J nested w1 (MSizeChange n) HN HJ) as H.
    destruct (handle nested w1 (MSizeChange n)) as [w' [e|]]; exact H.
  - set (w1 := w <| w_server := v |>).
    pose proof (handle_J nested w1 (MGlobalState v) HN HJ) as H.
    destruct (handle nested w1 (MGlobalState v)) as [w' [e|]]; exact H.
Qed.

(* the clock *)
Lemma sleep_until_J : forall fuel w t, Jw w -> Jw (sleep_until fuel w t).
Proof.
  induction fuel as [|f IH]; intros w t HJ; cbn [sleep_until]; [exact HJ|].
  destruct (w_queue w) as [|[te i] rest]; [exact HJ|].
  destruct (Qle_bool te t); [|exact HJ].
  apply IH. apply deliver_J; [intros; now apply IH | exact HJ].
Qed.

Lemma sleep_J fuel w d : Jw w -> Jw (sleep fuel w d).
Proof. apply sleep_until_J. Qed.

(* waits *)
Lemma poll_pull_off_J : forall fuel w, Jw w -> Jw (poll_pull_off fuel w).
Proof.
  induction fuel as [|f IH]; intros w HJ; cbn [poll_pull_off]; [exact HJ|].
  destruct (Qltb (w_horizon w) (w_now w)); [exact HJ|].
  destruct (regr_of (w_rhythm w)) as [g|]; [|exact HJ].
  destruct (r_start g); [exact HJ|]. apply IH. now apply sleep_J.
Qed.

Lemma regr_wait_J fuel w ct row place uc : Jw w -> Jw (regr_wait fuel w ct row place uc).
Proof.
  intros HJ. unfold regr_wait. destruct (regr_of (w_rhythm w)) as [g|]; [|exact HJ].
  destruct (regr_wait_plan g ct row place uc) as [|d m]; [now apply poll_pull_off_J|].
  set (w1 := w <| w_rhythm := _ |>).
  assert (J1 : Jw (sleep fuel w1 d)) by (apply sleep_J; exact HJ).
  destruct (regr_of (w_rhythm (sleep fuel w1 d))); exact J1.
Qed.

Lemma wait_poll_J : forall fuel w bell st acc, Jw w -> Jw (fst (wait_poll fuel w bell st acc)).
Proof.
  induction fuel as [|f IH]; intros w bell st acc HJ; cbn [wait_poll]; [exact HJ|].
  destruct (Qltb (w_horizon w) (w_now w)); [exact HJ|].
  destruct (w_rhythm w) as [d|g|ws g]; try exact HJ.
  destruct (mem_nat bell (ws_exp ws st)); [|exact HJ].
  set (w1 := sleep (S f) w SLEEP_001).
  assert (J1 : Jw w1) by (apply sleep_J; exact HJ).
  destruct (w_rhythm w1) as [d1|g1|ws1 g1]; try exact J1.
  destruct (ws_return ws1); [exact J1|]. apply IH. exact J1.
Qed.

Lemma rhythm_wait_J fuel w bell row place uc st : Jw w -> Jw (rhythm_wait fuel w bell row place uc st).
Proof.
  intros HJ. unfold rhythm_wait. destruct (w_rhythm w) as [durs|g|ws g] eqn:ER.
  - destruct durs; apply sleep_J; exact HJ.
  - now apply regr_wait_J.
  - set (w1 := if Bool.eqb st (ws_stroke ws) then w else _).
    assert (J1 : Jw w1) by (unfold w1; destruct (Bool.eqb st (ws_stroke ws)); exact HJ).
    set (w2 := regr_wait fuel w1 _ row place uc).
    assert (J2 : Jw w2) by (apply regr_wait_J; exact J1).
    set (w3 := if uc then _ else w2).
    assert (J3 : Jw w3).
    { unfold w3. destruct uc; [|exact J2].
      pose proof (wait_poll_J fuel w2 bell st 0%Q J2) as JP.
      destruct (wait_poll fuel w2 bell st 0%Q) as [wp acc]. cbn [fst] in JP.
      destruct (w_rhythm wp) as [d|g'|ws' g']; try exact JP.
      destruct (Qeqb acc 0%Q); exact JP. }
    destruct (w_rhythm w3) as [d|g'|ws' g']; exact J3.
Qed.

(* one tick: the invariant is kept, and the turnover (if any) happens in a state satisfying it *)
Lemma tick_end_J w bell uc : Jw w -> Jw (fst (tick_end w bell uc)).
Proof.
  intros J2. unfold tick_end.
  set (w3 := if uc then w else _).
  assert (J3 : Jw w3).
  { unfold w3. destruct uc; [exact J2|].
    destruct (tw_get_stroke (w_tower w) bell) as [s|]; [|exact J2].
    destruct (Bool.eqb s _); [|exact J2]. unfold Jw. rewrite bot_emit_bell. exact J2. }
  set (w4 := if b_place (w_bot w3) =? 0 then _ else w3).
  assert (J4 : Jw w4).
  { unfold w4. destruct (b_place (w_bot w3) =? 0); [|exact J3]. unfold Jw. rewrite bot_make_calls. exact J3. }
  set (w5 := upd_bot w4 _).
  assert (J5 : Jw w5) by exact J4.
  destruct (Nat.min _ (N_of w5) <=? b_place (w_bot w5)); [|exact J5].
  apply start_next_row_J. exact J5.
Qed.

Lemma tick_J fuel w : Jw w -> Jw (fst (tick fuel w)).
Proof.
  intros HJ. unfold tick.
  destruct (nth_error (b_row (w_bot w)) (b_place (w_bot w))) as [bell|]; [|exact HJ].
  apply tick_end_J. apply rhythm_wait_J. exact HJ.
Qed.

Lemma main_step_J fuel w p : Jw w -> Jw (fst (fst (main_step fuel w p))).
Proof.
  intros HJ. unfold main_step. destruct p as [k lt| | | | |].
  - destruct (tw_bells (w_tower w)); [destruct (k <? 20); [apply sleep_J|]; exact HJ|].
    destruct lt as [t|]; [|exact HJ].
    pose proof (look_to_J (sleep_until fuel) w t (fun w0 t0 H => sleep_until_J fuel w0 t0 H) HJ) as JL.
    destruct (look_to_has_been_called (sleep_until fuel) w t) as [w' [e|]]; exact JL.
  - exact HJ.
  - destruct (b_ringing (w_bot w)); [exact HJ|].
    set (w1 := sleep fuel w SLEEP_001). assert (J1 : Jw w1) by (apply sleep_J; exact HJ).
    set (w2 := if server_mode w1 then _ else w1).
    assert (J2 : Jw w2) by (unfold w2; destruct (server_mode w1); exact J1).
    destruct (server_mode w2 && _); exact J2.
  - destruct (b_instance (w_bot w)); exact HJ.
  - destruct (b_ringing (w_bot w)); [|exact HJ].
    pose proof (tick_J fuel w HJ) as JT. destruct (tick fuel w) as [w' [e|]]; cbn [fst] in *; [exact JT|].
    apply sleep_J; exact JT.
  - destruct (server_mode w); exact HJ.
Qed.

Lemma main_loop_J : forall fuel w p, Jw w -> Jw (fst (main_loop fuel w p)).
Proof.
  induction fuel as [|f IH]; intros w p HJ; cbn [main_loop]; [exact HJ|].
  destruct (Qltb (w_horizon w) (w_now w)); [exact HJ|].
  pose proof (main_step_J (S f) w p HJ) as JS.
  destruct (main_step (S f) w p) as [[w' p'] o]. cbn [fst] in JS.
  destruct o; try exact JS. apply IH; exact JS.
Qed.

(* every state the system can reach (at main-loop granularity, for every amount of fuel, every
   configuration, every timed history of events) satisfies the invariant *)
Theorem J_reachable fuel c : Jw (fst (run fuel c)).
Proof. unfold run. apply main_loop_J. exact I. Qed.

(* and in every state satisfying it the start-stroke assertion of the row turnover holds *)
Theorem start_assert_never_fires w : Jw w -> exists k act, snr_args w false = Ok (k, act).
Proof. intros HJ. apply (start_next_row_J w HJ). Qed.

(* ------------------------------------------------------------------ C07: the stop discipline on the control skeleton *)
Ltac snr_cases :=
  unfold snr_ctl;
  repeat match goal with
         | |- context [opt_z_is ?x ?v] => destruct (opt_z_is x v) eqn:?
         end;
  repeat match goal with |- context [negb ?b] => destruct b eqn:? end;
  cbn [negb bind andb orb];
  repeat match goal with |- context [let '(_, _) := ?x in _] => destruct x eqn:? end.

(* ringing can only stop at a row turnover into a HANDSTROKE, and only because a stand was pending
   (called, or raised by stop-at-rounds at this very turnover): so a whole number of whole pulls
   has been rung and every bell is left at hand *)
Lemma ringing_stops_only_at_handstroke sar hjr nh ok fits k k' act :
  snr_ctl sar hjr nh ok fits k = Ok (k', act) -> k_ringing k = true -> k_ringing k' = false ->
  nh = true /\ (k_stand k = true \/ (sar = true /\ hjr = true /\ k_opening k = false)).
Proof.
  unfold snr_ctl. intros H Hr Hs.
  destruct (opt_z_is (k_left k) 0); [destruct ok; cbn [negb bind] in H; [|discriminate]|cbn [bind] in H].
  all: destruct nh; cbn [andb] in H.
  all: destruct (sar && hjr && negb (k_opening k)) eqn:E1.
  all: try destruct (k_stand k) eqn:E2.
  all: repeat match type of H with context [let '(_, _) := ?x in _] => destruct x eqn:? end.
  all: inversion H; subst; cbn in Hs; try congruence.
  all: split; auto.
  all: try (right; apply Bool.andb_true_iff in E1; destruct E1 as [E1 E3];
            apply Bool.andb_true_iff in E1; destruct E1; apply Bool.negb_true_iff in E3; auto).
  all: try (left; reflexivity).
Qed.

(* a pending stand takes effect at the next handstroke turnover and is then forgotten *)
Lemma stand_at_handstroke sar hjr ok fits k k' act :
  snr_ctl sar hjr true ok fits k = Ok (k', act) -> k_stand k = true ->
  k_ringing k' = false /\ k_stand k' = false.
Proof.
  unfold snr_ctl. intros H Hs. rewrite Hs in H.
  destruct (opt_z_is (k_left k) 0); [destruct ok; cbn [negb bind] in H; [|discriminate]|cbn [bind] in H].
  all: destruct (sar && hjr && negb (k_opening k)); cbn [andb] in H.
  all: repeat match type of H with context [let '(_, _) := ?x in _] => destruct x eqn:? end.
  all: inversion H; subst; cbn; auto.
Qed.
(* ... and is carried across a backstroke turnover *)
Lemma stand_waits_for_handstroke sar hjr ok fits k k' act :
  snr_ctl sar hjr false ok fits k = Ok (k', act) -> k_stand k = true ->
  k_ringing k' = k_ringing k /\ k_stand k' = true.
Proof.
  unfold snr_ctl. intros H Hs. rewrite Hs in H.
  destruct (opt_z_is (k_left k) 0); [destruct ok; cbn [negb bind] in H; [|discriminate]|cbn [bind] in H].
  all: destruct (sar && hjr && negb (k_opening k)); cbn [andb] in H.
  all: repeat match type of H with context [let '(_, _) := ?x in _] => destruct x eqn:? end.
  all: inversion H; subst; cbn; auto.
Qed.

(* That's all (counter = 1): if the row just rung was rounds, rounds at once; otherwise exactly one
   more method row (counter 1 -> 0 now, rounds at the following turnover) *)
Lemma thats_all_after_rounds sar nh ok fits k k' act :
  snr_ctl sar true nh ok fits k = Ok (k', act) -> k_rows_left k = Some 1%Z ->
  k_rounds k' = true /\ k_rows_left k' = None.
Proof.
  unfold snr_ctl. intros H Hs. rewrite Hs in H. cbn [opt_z_is Z.eqb orb andb] in H.
  destruct (opt_z_is (k_left k) 0); [destruct ok; cbn [negb bind] in H; [|discriminate]|cbn [bind] in H].
  all: repeat match type of H with context [let '(_, _) := ?x in _] => destruct x eqn:? end.
  all: inversion H; subst; cbn; auto.
Qed.
Lemma thats_all_one_more_row sar nh ok fits k k' act :
  snr_ctl sar false nh ok fits k = Ok (k', act) -> k_rows_left k = Some 1%Z ->
  opt_z_is (k_left k) 0 = false ->
  k_rounds k' = k_rounds k /\ k_rows_left k' = Some 0%Z.
Proof.
  unfold snr_ctl. intros H Hs Hl. rewrite Hs, Hl in H. cbn [opt_z_is Z.eqb orb andb bind] in H.
  repeat match type of H with context [let '(_, _) := ?x in _] => destruct x eqn:? end.
  inversion H; subst; cbn; auto.
Qed.
Lemma thats_all_then_rounds sar hjr nh ok fits k k' act :
  snr_ctl sar hjr nh ok fits k = Ok (k', act) -> k_rows_left k = Some 0%Z ->
  k_rounds k' = true /\ k_rows_left k' = None.
Proof.
  unfold snr_ctl. intros H Hs. rewrite Hs in H. cbn [opt_z_is Z.eqb orb andb] in H.
  destruct (opt_z_is (k_left k) 0); [destruct ok; cbn [negb bind] in H; [|discriminate]|cbn [bind] in H].
  all: repeat match type of H with context [let '(_, _) := ?x in _] => destruct x eqn:? end.
  all: inversion H; subst; cbn; auto.
Qed.

(* the opening row is rung until the start counter reaches 0: no start before *)
Lemma no_start_before_counter_zero sar hjr nh ok fits k k' act :
  snr_ctl sar hjr nh ok fits k = Ok (k', act) -> opt_z_is (k_left k) 0 = false ->
  act = NoStart /\ k_opening k' = k_opening k.
Proof.
  unfold snr_ctl. intros H Hl. rewrite Hl in H. cbn [bind] in H.
  repeat match type of H with context [let '(_, _) := ?x in _] => destruct x eqn:? end.
  inversion H; subst; cbn; auto.
Qed.
Lemma start_when_counter_zero sar hjr nh fits k k' act :
  snr_ctl sar hjr nh true fits k = Ok (k', act) -> opt_z_is (k_left k) 0 = true ->
  act = Start (negb fits) /\ k_opening k' = false /\ k_left k' = None.
Proof.
  unfold snr_ctl. intros H Hl. rewrite Hl in H. cbn [negb bind] in H.
  repeat match type of H with context [let '(_, _) := ?x in _] => destruct x eqn:? end.
  inversion H; subst; cbn; auto.
Qed.

(* Go while the method is being rung changes nothing *)
Lemma go_during_method_is_noop w :
  b_rounds_flag (w_bot w) = false -> b_opening_flag (w_bot w) = false -> on_go w = w.
Proof. intros A B. unfold on_go. now rewrite A, B. Qed.

(* ------------------------------------------------------------------ C20: the system's tower view is the tower fold *)
From Wh Require Import Tower.
Definition tmsg_of (m : msg) : option tmsg :=
  match m with
  | MBellRung s who => Some (TBellRung s who)
  | MGlobalState s => Some (TGlobal s)
  | MUserEntered u n => Some (TUserEntered u n)
  | MUserList l => Some (TUserList l)
  | MUserLeft u => Some (TUserLeft u)
  | MAssign b u => Some (TAssign b u)
  | MSizeChange n => Some (TSizeChange n)
  | _ => None
  end.

Lemma bot_on_size_change_tower w : w_tower (fst (bot_on_size_change w)) = w_tower w.
Proof.
  unfold bot_on_size_change.
  destruct (generate_starting_row _ _) as [opening|e]; [|reflexivity].
  destruct (rounds (N_of w)) as [rd|e]; [|reflexivity].
  cbn [fst hok]. destruct (b_next_gen _) as [g|]; [|reflexivity].
  destruct (check_bells _ g); reflexivity.
Qed.

Lemma handle_tower nested w m tm :
  tmsg_of m = Some tm -> w_tower (fst (handle nested w m)) = tower_step (w_tower w) tm.
Proof.
  destruct m; cbn [tmsg_of]; intros H; inversion H; subst; cbn [handle tower_step].
  - unfold on_bell_rung. destruct (negb (bell_ok who)); [reflexivity|].
    cbn. destruct (tw_get_stroke _ who); [|reflexivity].
    destruct (user_assigned _ who); [|reflexivity].
    destruct (rh_on_bell _ _ _ _) as [r [e|]]; reflexivity.
  - now rewrite bot_on_size_change_tower.
  - reflexivity.
  - reflexivity.
  - reflexivity.
  - destruct (tw_assign (w_tower w) bell uid); reflexivity.
  - destruct (tw_size_change (w_tower w) n) as [t fire]. destruct fire; cbn [fst]; [|reflexivity].
    now rewrite bot_on_size_change_tower.
Qed.

(* ------------------------------------------------------------------ C17: tower size vs stage *)
Definition gen_to_ring (w : world) : gen :=
  match b_next_gen (w_bot w) with Some g => g | None => b_gen (w_bot w) end.

(* the gate, spelt out *)
Lemma gate_iff w :
  check_start_row w && check_bells w (gen_to_ring w) = true <->
  length (b_opening_row (w_bot w)) = N_of w /\ g_stage (gen_to_ring w) <> 0 /\ g_stage (gen_to_ring w) <= N_of w.
Proof.
  unfold check_start_row, check_bells. rewrite !Bool.andb_true_iff, !Bool.negb_true_iff.
  rewrite Nat.eqb_eq, Nat.eqb_neq, Nat.ltb_ge. tauto.
Qed.

(* a refused Look to changes nothing and emits nothing *)
Lemma refused_look_to_is_silent nested w :
  check_start_row w && check_bells w (gen_to_ring w) = false -> on_look_to nested w = (w, None).
Proof. intros H. unfold on_look_to. cbv zeta. fold (gen_to_ring w). now rewrite H. Qed.

Lemma accepted_look_to nested w :
  check_start_row w && check_bells w (gen_to_ring w) = true ->
  on_look_to nested w = look_to_has_been_called nested w (w_now w).
Proof. intros H. unfold on_look_to. cbv zeta. fold (gen_to_ring w). now rewrite H. Qed.

(* a size change recomputes the opening row and rounds for the new size, and drops a queued
   generator exactly when it does not fit *)
Lemma size_change_recomputes w w' :
  bot_on_size_change w = (w', None) ->
  generate_starting_row (N_of w) (match g_custom (b_gen (w_bot w)) with Some r => Some (Some r) | None => None end)
    = Ok (b_opening_row (w_bot w'))
  /\ rounds (N_of w) = Ok (b_rounds (w_bot w'))
  /\ b_gen (w_bot w') = b_gen (w_bot w)
  /\ b_next_gen (w_bot w') =
       match b_next_gen (w_bot w) with
       | Some g => if negb (g_stage g =? 0) && negb (N_of w <? g_stage g) then Some g else None
       | None => None
       end.
Proof.
  unfold bot_on_size_change.
  destruct (generate_starting_row _ _) as [opening|e]; [|intros H; inversion H].
  destruct (rounds (N_of w)) as [rd|e]; [|intros H; inversion H].
  cbn [hok].
  set (w1 := upd_bot (upd_bot w _) _).
  assert (E1 : b_next_gen (w_bot w1) = b_next_gen (w_bot w)) by reflexivity.
  assert (E2 : N_of w1 = N_of w) by reflexivity.
  rewrite E1. destruct (b_next_gen (w_bot w)) as [g|] eqn:NG.
  - unfold check_bells. rewrite E2.
    destruct (negb (g_stage g =? 0) && negb (N_of w <? g_stage g)) eqn:F;
      intros H; inversion H; subst; cbn; auto.
  - intros H; inversion H; subst; cbn. auto.
Qed.

(* covers: a method row shorter than the opening row is extended with the opening row's tail *)
Lemma covers_in_order w w' g' r cs :
  b_opening_flag (w_bot w) = false -> b_rounds_flag (w_bot w) = false ->
  gen_next (b_gen (w_bot w)) (stroke_of_row (b_row_number (w_bot w))) = Ok (g', (r, cs)) ->
  generate_next_row w = (w', None) ->
  b_row (w_bot w') = if length r <? length (b_opening_row (w_bot w))
                     then r ++ skipn (length r) (b_opening_row (w_bot w)) else r.
Proof.
  intros A B E. unfold generate_next_row. rewrite A, B, E. intros H. inversion H; subst. reflexivity.
Qed.

(* opening rows: a start row that is a permutation of 1..k, in a tower of n bells, gives a row of
   max n k bells: the custom row followed by the missing bells in ascending order *)
Lemma add_missing_app a b : forall r, add_missing (a ++ b) r = add_missing b (add_missing a r).
Proof. induction a as [|x a IH]; intros r; cbn [app add_missing]; [reflexivity|apply IH]. Qed.

Lemma add_missing_In cands : forall r x, In x (add_missing cands r) <-> In x r \/ In x cands.
Proof.
  induction cands as [|c cands IH]; intros r x; cbn [add_missing].
  - cbn. tauto.
  - rewrite IH. destruct (mem_nat c r) eqn:M.
    + apply mem_nat_In in M. cbn. split; [tauto|]. intros [H|[->|H]]; auto.
    + rewrite in_app_iff. cbn. tauto.
Qed.

Lemma opening_row_length n k r :
  NoDup r -> (forall x, In x r <-> 1 <= x <= k) ->
  length (add_missing (seq1 n) r) = Nat.max n (length r) /\ length r = k.
Proof.
  intros ND HI.
  assert (Lk : length r = k).
  { apply Nat.le_antisymm.
    - rewrite <- (seq1_length k). apply NoDup_incl_length; [exact ND|].
      intros x Hx. apply seq1_In. now apply HI.
    - rewrite <- (seq1_length k) at 1. apply NoDup_incl_length; [apply seq1_NoDup|].
      intros x Hx. apply HI. now apply seq1_In. }
  split; [|exact Lk]. rewrite Lk.
  induction n as [|n IH]; cbn [seq1 add_missing]; [lia|].
  rewrite add_missing_app. cbn [add_missing].
  destruct (mem_nat (S n) (add_missing (seq1 n) r)) eqn:M.
  - apply mem_nat_In, add_missing_In in M. destruct M as [M|M].
    + apply HI in M. lia.
    + apply seq1_In in M. lia.
  - rewrite app_length, IH. cbn [length].
    assert (~ In (S n) r).
    { intros Hin. assert (In (S n) (add_missing (seq1 n) r)) by (apply add_missing_In; now left).
      apply mem_nat_In in H. congruence. }
    assert (k <= n) by (destruct (le_lt_dec k n); auto; exfalso; apply H; apply HI; lia).
    lia.
Qed.

(* ------------------------------------------------------------------ C08: which strikes a tick emits *)
Fixpoint bells_of (l : list (Q * out)) : list (nat * bool) :=
  match l with
  | [] => []
  | (_, OBell b h) :: t => (b, h) :: bells_of t
  | _ :: t => bells_of t
  end.
Definition obells (w : world) : list (nat * bool) := bells_of (w_out w).

Lemma obells_log w o : obells (log w o) = match o with OBell b h => (b, h) :: obells w | _ => obells w end.
Proof. unfold obells, log. cbn. destruct o; reflexivity. Qed.
Lemma out_enqueue w t i : w_out (enqueue w t i) = w_out w.  Proof. reflexivity. Qed.
Lemma out_server_ring w bell cl : w_out (server_ring w bell cl) = w_out w.
Proof.
  unfold server_ring. destruct (bell =? 0); [reflexivity|].
  destruct (nth_error (w_server w) (bell - 1)); [|reflexivity].
  destruct (match cl with Some c => Bool.eqb b c | None => true end); reflexivity.
Qed.
Lemma obells_emit_bell w bell h : obells (emit_bell w bell h) = (bell, h) :: obells w.
Proof. unfold emit_bell, obells. rewrite out_server_ring. reflexivity. Qed.
Lemma obells_make_call w c : obells (make_call w c) = obells w.
Proof. unfold make_call. destruct (b_call_comps (w_bot w)); reflexivity. Qed.
Lemma obells_make_calls cs : forall w, obells (make_calls w cs) = obells w.
Proof.
  unfold make_calls. induction cs as [|c cs IH]; intros w; cbn [fold_left]; [reflexivity|].
  rewrite IH. apply obells_make_call.
Qed.
Lemma obells_expect_loop r : forall w i, obells (expect_loop w r i) = obells w.
Proof.
  induction r as [|bell r IH]; intros w i; cbn [expect_loop]; [reflexivity|].
  rewrite IH. destruct (user_assigned w bell); reflexivity.
Qed.
Lemma obells_generate_next_row w : obells (fst (generate_next_row w)) = obells w.
Proof.
  unfold generate_next_row.
  destruct (b_opening_flag (w_bot w)); [reflexivity|].
  destruct (b_rounds_flag (w_bot w)); [reflexivity|].
  destruct (gen_next _ _) as [[g' [r cs]]|e]; reflexivity.
Qed.
Lemma obells_upd_bot w f : obells (upd_bot w f) = obells w.
Proof. reflexivity. Qed.

Lemma obells_start_next_row w f : obells (fst (start_next_row w f)) = obells w.
Proof.
  unfold start_next_row.
  destruct (snr_ctl _ _ _ _ _ _) as [[k act]|e]; [|reflexivity].
  set (w2 := upd_bot _ (fun b => set_ctl b k)).
  assert (E2 : obells w2 = obells w).
  { unfold w2. destruct act as [|[|]]; try reflexivity.
    match goal with |- obells (upd_bot (make_call ?x uStand) _) = _ =>
      change (obells (make_call x uStand) = obells w); rewrite obells_make_call end. reflexivity. }
  set (w3 := match act with Start _ => upd_bot w2 _ | NoStart => w2 end).
  assert (E3 : obells w3 = obells w) by (unfold w3; destruct act; rewrite ?obells_upd_bot; exact E2).
  destruct (negb (b_ringing (w_bot w3))); [exact E3|].
  pose proof (obells_generate_next_row w3) as G.
  destruct (generate_next_row w3) as [w4 [e|]]; cbn [hthen hok fst] in *; [congruence|].
  rewrite obells_expect_loop. congruence.
Qed.

(* The complete rule: the second half of a tick strikes exactly when the bell sampled at the start of
   the tick was Wheatley's (uc = false) and the tower's stroke of that bell equals the stroke of the
   row in progress; the strike is for that very bell on that very stroke, and nothing else is struck. *)
Theorem tick_end_strikes w bell uc :
  obells (fst (tick_end w bell uc)) =
  match (if uc then None else tw_get_stroke (w_tower w) bell) with
  | Some s => if Bool.eqb s (stroke_of_row (b_row_number (w_bot w))) then (bell, s) :: obells w else obells w
  | None => obells w
  end.
Proof.
  unfold tick_end.
  set (w3 := if uc then w else _).
  assert (E3 : obells w3 =
    match (if uc then None else tw_get_stroke (w_tower w) bell) with
    | Some s => if Bool.eqb s (stroke_of_row (b_row_number (w_bot w))) then (bell, s) :: obells w else obells w
    | None => obells w
    end).
  { unfold w3. destruct uc; [reflexivity|].
    destruct (tw_get_stroke (w_tower w) bell) as [s|]; [|reflexivity].
    destruct (Bool.eqb s _); [apply obells_emit_bell | reflexivity]. }
  rewrite <- E3.
  set (w4 := if b_place (w_bot w3) =? 0 then _ else w3).
  assert (E4 : obells w4 = obells w3).
  { unfold w4. destruct (b_place (w_bot w3) =? 0); [apply obells_make_calls | reflexivity]. }
  set (w5 := upd_bot w4 _).
  destruct (Nat.min _ (N_of w5) <=? b_place (w_bot w5)); [rewrite obells_start_next_row|]; exact E4.
Qed.

(* the bell and the ownership a tick acts on are those sampled when the tick begins *)
Theorem tick_samples_at_begin fuel w :
  tick fuel w =
  match nth_error (b_row (w_bot w)) (b_place (w_bot w)) with
  | None => (w, Some EIndex)
  | Some bell =>
      let uc := negb (tw_assigned_to (w_tower w) bell (b_name (w_bot w))) in
      tick_end (rhythm_wait fuel (log w (RWaitFor (w_now w) bell (b_row_number (w_bot w)) (b_place (w_bot w)) uc
                                             (stroke_of_row (b_row_number (w_bot w)))))
                            bell (b_row_number (w_bot w)) (b_place (w_bot w)) uc
                            (stroke_of_row (b_row_number (w_bot w)))) bell uc
  end.
Proof. reflexivity. Qed.

Lemma tower_make_calls cs : forall w, w_tower (make_calls w cs) = w_tower w.
Proof.
  unfold make_calls. induction cs as [|c cs IH]; intros w; cbn [fold_left]; [reflexivity|].
  rewrite IH. unfold make_call. destruct (b_call_comps (w_bot w)); reflexivity.
Qed.
Lemma tower_emit_bell w bell h : w_tower (emit_bell w bell h) = w_tower w.
Proof.
  unfold emit_bell, server_ring. destruct (bell =? 0); [reflexivity|].
  destruct (nth_error _ _); [|reflexivity]. destruct (Bool.eqb _ _); reflexivity.
Qed.

(* places advance one at a time within a row, so with C01 no bell is struck twice for one row *)
Theorem tick_end_advances w bell uc :
  let w' := fst (tick_end w bell uc) in
  (Nat.min (length (b_row (w_bot w))) (N_of w) <=? S (b_place (w_bot w))) = false ->
  b_place (w_bot w') = S (b_place (w_bot w)) /\ b_row_number (w_bot w') = b_row_number (w_bot w)
  /\ b_row (w_bot w') = b_row (w_bot w).
Proof.
  cbv zeta. unfold tick_end.
  set (w3 := if uc then w else _).
  assert (B3 : w_bot w3 = w_bot w /\ w_tower w3 = w_tower w).
  { unfold w3. destruct uc; [auto|]. destruct (tw_get_stroke (w_tower w) bell) as [s|]; [|auto].
    destruct (Bool.eqb s _); [|auto]. split; [apply bot_emit_bell | apply tower_emit_bell]. }
  destruct B3 as [B3 T3].
  set (w4 := if b_place (w_bot w3) =? 0 then _ else w3).
  assert (B4 : w_bot w4 = w_bot w /\ w_tower w4 = w_tower w).
  { unfold w4. destruct (b_place (w_bot w3) =? 0); [|auto].
    rewrite bot_make_calls, tower_make_calls. auto. }
  destruct B4 as [B4 T4].
  set (w5 := upd_bot w4 _). intros Hn.
  assert (E : (Nat.min (length (b_row (w_bot w5))) (N_of w5) <=? b_place (w_bot w5)) = false).
  { unfold w5, N_of. cbn. rewrite T4, B4. exact Hn. }
  rewrite E. cbn [fst hok]. unfold w5. cbn. rewrite B4. auto.
Qed.

(* ------------------------------------------------------------------ C09: when the polling loop of a human bell's tick ends *)
(* The loop of WaitForUserRhythm.wait_for_bell_time for a user-controlled bell ends only when the
   bell is no longer awaited on that stroke - or Wheatley was told to return to the main loop (Look
   to / Stop touch), or the run was cut (horizon / fuel of the model). There is no time-out. *)
Lemma wait_poll_exit : forall fuel w bell st acc,
  let w' := fst (wait_poll fuel w bell st acc) in
  w_fuel_out w' = true \/ Qltb (w_horizon w') (w_now w') = true \/
  match w_rhythm w' with
  | RWait ws _ => ws_return ws = true \/ mem_nat bell (ws_exp ws st) = false
  | _ => True
  end.
Proof.
  induction fuel as [|f IH]; intros w bell st acc; cbn [wait_poll fst].
  - left. reflexivity.
  - destruct (Qltb (w_horizon w) (w_now w)) eqn:H; cbn [fst]; [right; left; exact H|].
    destruct (w_rhythm w) as [d|g|ws g] eqn:R; cbn [fst]; try (right; right; rewrite R; exact I).
    destruct (mem_nat bell (ws_exp ws st)) eqn:M; cbn [fst].
    2:{ right; right. rewrite R. right. exact M. }
    set (w1 := sleep (S f) w SLEEP_001).
    destruct (w_rhythm w1) as [d1|g1|ws1 g1] eqn:R1; cbn [fst]; try (right; right; rewrite R1; exact I).
    destruct (ws_return ws1) eqn:RT; cbn [fst].
    + right; right. rewrite R1. left. exact RT.
    + apply IH.
Qed.

(* ------------------------------------------------------------------ C15: the wait for a human pull-off *)
(* the loop `while self._start_time == inf: sleep(0.01)` ends only when the line has left infinity
   (or the modelled run was cut): there is no time-out, however long the human takes *)
Lemma poll_pull_off_exit : forall fuel w,
  let w' := poll_pull_off fuel w in
  w_fuel_out w' = true \/ Qltb (w_horizon w') (w_now w') = true \/
  match regr_of (w_rhythm w') with Some g => r_start g <> None | None => True end.
Proof.
  induction fuel as [|f IH]; intros w; cbn [poll_pull_off].
  - left. reflexivity.
  - destruct (Qltb (w_horizon w) (w_now w)) eqn:H; [right; left; exact H|].
    destruct (regr_of (w_rhythm w)) as [g|] eqn:R; [|right; right; now rewrite R].
    destruct (r_start g) eqn:S; [right; right; rewrite R, S; discriminate|].
    apply IH.
Qed.

(* ------------------------------------------------------------------ C10: what can kill the main loop *)
(* the next tick finds its bell whenever the row did not turn over *)
Lemma no_turnover_keeps_index w bell uc :
  (Nat.min (length (b_row (w_bot w))) (N_of w) <=? S (b_place (w_bot w))) = false ->
  nth_error (b_row (w_bot (fst (tick_end w bell uc)))) (b_place (w_bot (fst (tick_end w bell uc)))) <> None.
Proof.
  intros H. destruct (tick_end_advances w bell uc H) as [A [_ C]]. rewrite A, C.
  apply Nat.leb_gt in H. apply nth_error_Some. lia.
Qed.

(* every exception that can escape a tick (and so end main_loop) has one of three sources: the row
   has no bell at the current place; the start-stroke assertion; the row generator *)
Lemma start_next_row_failure w f w' e :
  start_next_row w f = (w', Some e) ->
  snr_args w f = Err e \/ exists g st, gen_next g st = Err e.
Proof.
  unfold start_next_row, snr_args.
  destruct (snr_ctl _ _ _ _ _ _) as [[k act]|e0]; [|intros H; inversion H; subst; now left].
  set (w3 := match act with Start _ => _ | NoStart => _ end).
  destruct (negb (b_ringing (w_bot w3))); [discriminate|].
  unfold generate_next_row.
  destruct (b_opening_flag (w_bot w3)); [cbn; discriminate|].
  destruct (b_rounds_flag (w_bot w3)); [cbn; discriminate|].
  destruct (gen_next _ _) as [[g' [r cs]]|e1] eqn:G; cbn [hthen hok]; [discriminate|].
  intros H; inversion H; subst. right. eauto.
Qed.

Theorem tick_failure_sources fuel w w' e :
  tick fuel w = (w', Some e) ->
  (nth_error (b_row (w_bot w)) (b_place (w_bot w)) = None /\ e = EIndex)
  \/ (exists w1, snr_args w1 false = Err e)
  \/ (exists g st, gen_next g st = Err e).
Proof.
  unfold tick. destruct (nth_error (b_row (w_bot w)) (b_place (w_bot w))) as [bell|] eqn:N.
  2:{ intros H; inversion H; subst. left. auto. }
  unfold tick_end.
  match goal with |- context [if ?c then start_next_row ?x false else _] => destruct c; [|discriminate];
    intros H; destruct (start_next_row_failure x false w' e H) as [A|A]; [right; left; eauto | right; right; exact A] end.
Qed.

(* with C06's invariant the assertion is excluded, so only an empty place or the generator remain *)
Corollary tick_failure_sources_J fuel w w' e :
  Jw w -> tick fuel w = (w', Some e) ->
  (nth_error (b_row (w_bot w)) (b_place (w_bot w)) = None /\ e = EIndex)
  \/ (exists g st, gen_next g st = Err e).
Proof.
  intros HJ. unfold tick. destruct (nth_error (b_row (w_bot w)) (b_place (w_bot w))) as [bell|] eqn:N.
  2:{ intros H; inversion H; subst. left. auto. }
  set (w2 := rhythm_wait _ _ _ _ _ _ _).
  assert (J2 : Jw w2) by (apply rhythm_wait_J; exact HJ).
  unfold tick_end.
  set (w3 := if user_assigned w bell then w2 else _).
  assert (J3 : Jw w3).
  { unfold w3. destruct (user_assigned w bell); [exact J2|].
    destruct (tw_get_stroke (w_tower w2) bell) as [s|]; [|exact J2].
    destruct (Bool.eqb s _); [|exact J2]. unfold Jw. rewrite bot_emit_bell. exact J2. }
  set (w4 := if b_place (w_bot w3) =? 0 then _ else w3).
  assert (J4 : Jw w4).
  { unfold w4. destruct (b_place (w_bot w3) =? 0); [|exact J3]. unfold Jw. rewrite bot_make_calls. exact J3. }
  set (w5 := upd_bot w4 _).
  assert (J5 : Jw w5) by exact J4.
  destruct (_ <=? _); [|discriminate].
  intros H. destruct (start_next_row_failure w5 false w' e H) as [A|A]; [|right; exact A].
  destruct (start_next_row_J w5 J5) as [[k [act E]] _]. congruence.
Qed.

(* ------------------------------------------------------------------ C19: server-mode control *)
(* the generator being rung is only ever REPLACED by the hand-over of a Look to; everything else
   keeps its kind, stage and start row (ticks advance it, Bob/Single set its flags) *)
Definition same_gen (w w' : world) : Prop := static_eq (b_gen (w_bot w')) (b_gen (w_bot w)).

Lemma static_refl g : static_eq g g.  Proof. unfold static_eq. auto. Qed.
Lemma static_trans a b c : static_eq a b -> static_eq b c -> static_eq a c.
Proof. unfold static_eq. intros [A [B [C D]]] [A' [B' [C' D']]]. repeat split; congruence. Qed.

Lemma generate_next_row_same_gen w : same_gen w (fst (generate_next_row w)).
Proof.
  unfold generate_next_row, same_gen.
  destruct (b_opening_flag (w_bot w)); [apply static_refl|].
  destruct (b_rounds_flag (w_bot w)); [apply static_refl|].
  destruct (gen_next _ _) as [[g' [r cs]]|e] eqn:E; [|apply static_refl].
  cbn. eapply gen_next_static; eauto.
Qed.

Lemma start_next_row_same_gen w f : same_gen w (fst (start_next_row w f)).
Proof.
  unfold start_next_row, same_gen.
  destruct (snr_ctl _ _ _ _ _ _) as [[k act]|e]; [|apply static_refl].
  set (w2 := upd_bot _ (fun b => set_ctl b k)).
  assert (E2 : b_gen (w_bot w2) = b_gen (w_bot w)).
  { unfold w2. destruct act as [|[|]]; cbn; rewrite ?bot_make_call; reflexivity. }
  set (w3 := match act with Start _ => upd_bot w2 _ | NoStart => w2 end).
  assert (E3 : static_eq (b_gen (w_bot w3)) (b_gen (w_bot w))).
  { unfold w3. destruct act as [|cs].
    - rewrite E2. apply static_refl.
    - change (static_eq (gen_reset (b_gen (w_bot w2))) (b_gen (w_bot w))). rewrite E2.
      unfold static_eq. cbn. auto. }
  destruct (negb (b_ringing (w_bot w3))); [exact E3|].
  pose proof (generate_next_row_same_gen w3) as G. unfold same_gen in G.
  destruct (generate_next_row w3) as [w4 [e|]]; cbn [hthen hok fst] in *.
  - eapply static_trans; eauto.
  - rewrite bot_expect_loop. eapply static_trans; eauto.
Qed.

(* a selection only writes next_row_generator; a malformed one (RowGenParseError or any other
   exception out of the parser) leaves the state exactly as it was *)
Lemma row_gen_only_queues w j :
  b_gen (w_bot (fst (on_row_gen w j))) = b_gen (w_bot w)
  /\ match json_to_row_generator j with
     | JGen g => b_next_gen (w_bot (fst (on_row_gen w j))) = Some g
     | _ => fst (on_row_gen w j) = w
     end.
Proof. unfold on_row_gen. destruct (json_to_row_generator j); cbn; auto. Qed.

(* Stop touch: ringing is switched off at once; the main loop then rings nothing more *)
Lemma stop_touch_stops w : b_ringing (w_bot (on_stop_touch w)) = false.
Proof. reflexivity. Qed.
Lemma not_ringing_no_tick fuel w :
  b_ringing (w_bot w) = false -> main_step fuel w PRing = (w, PRingExit, Running).
Proof. intros H. unfold main_step. now rewrite H. Qed.

(* the roll call is answered exactly when the main loop leaves the idle loop because ringing has
   started *)
Lemma ring_enter_needs_ringing fuel w w' p' o :
  main_step fuel w PIdle = (w', p', o) -> p' = PRingEnter -> b_ringing (w_bot w) = true.
Proof.
  unfold main_step. destruct (b_ringing (w_bot w)); [auto|].
  destruct (server_mode _ && _); intros H E; inversion H; subst; discriminate.
Qed.
Lemma ring_enter_emits_roll_call fuel w id :
  b_instance (w_bot w) = Some id ->
  fst (fst (main_step fuel w PRingEnter)) = log (log w (OIsRinging true)) (ORollCall id).
Proof. intros H. unfold main_step. now rewrite H. Qed.

(* Wheatley exits only from the idle loop, only in server mode, only after more than 300 s of it *)
Lemma exit_only_when_idle fuel w p w' p' :
  main_step fuel w p = (w', p', Exited) ->
  p = PIdle /\ b_ringing (w_bot w) = false /\ server_mode w' = true
  /\ Qltb (qadd (b_last_activity (w_bot w')) INACTIVITY) (w_now w') = true.
Proof.
  unfold main_step. destruct p as [k lt| | | | |].
  - destruct (tw_bells (w_tower w)); [destruct (k <? 20); discriminate |].
    destruct lt as [t|]; [|discriminate].
    destruct (look_to_has_been_called (sleep_until fuel) w t) as [w0 [e|]]; discriminate.
  - discriminate.
  - destruct (b_ringing (w_bot w)) eqn:R; [discriminate|].
    set (w1 := sleep fuel w SLEEP_001).
    set (w2 := if server_mode w1 then _ else w1).
    destruct (server_mode w2) eqn:S; cbn [andb]; [|discriminate].
    destruct (Qltb _ (w_now w2)) eqn:Q; [|discriminate].
    intros H. inversion H; subst.
    assert (B : w_bot w2 = w_bot w1) by (unfold w2; destruct (server_mode w1); reflexivity).
    rewrite B. auto.
  - destruct (b_instance (w_bot w)); discriminate.
  - destruct (b_ringing (w_bot w)); [|discriminate]. destruct (tick fuel w) as [w1 [e|]]; discriminate.
  - discriminate.
Qed.

(* ------------------------------------------------------------------ C01 / C17: cover bells *)
(* The generator's start row (built for the method's stage) is a prefix of the Bot's opening row (built
   for the tower): the surplus bells follow in ascending order.  Hence a method row - a permutation of
   the start row - padded with the opening row's tail is a permutation of the opening row, i.e. a
   complete row of the tower. *)
Lemma seq1_app n m : seq1 (n + m) = seq1 n ++ map (fun i => n + i) (seq1 m).
Proof.
  induction m as [|m IH]; cbn [seq1 map]; [now rewrite Nat.add_0_r, app_nil_r|].
  rewrite Nat.add_succ_r. cbn [seq1]. rewrite IH, map_app, app_assoc. cbn [map]. rewrite Nat.add_succ_r. reflexivity.
Qed.

Lemma add_missing_prefix cands : forall r, exists extra, add_missing cands r = r ++ extra.
Proof.
  induction cands as [|c cands IH]; intros r; cbn [add_missing]; [exists []; now rewrite app_nil_r|].
  destruct (mem_nat c r).
  - apply IH.
  - destruct (IH (r ++ [c])) as [e He]. exists (c :: e). rewrite He, <- app_assoc. reflexivity.
Qed.

Lemma opening_row_extends_start_row stage n custom sr op :
  stage <= n ->
  generate_starting_row stage custom = Ok sr -> generate_starting_row n custom = Ok op ->
  exists extra, op = sr ++ extra.
Proof.
  intros Hle. unfold generate_starting_row, rounds.
  destruct custom as [[c|]|]; try discriminate.
  - destruct (has_dup c); [discriminate|].
    destruct (stage <=? MAX_BELL); [|discriminate]. destruct (n <=? MAX_BELL); [|discriminate].
    intros H1 H2. inversion H1; inversion H2; subst.
    replace n with (stage + (n - stage)) by lia. rewrite seq1_app, add_missing_app.
    apply add_missing_prefix.
  - destruct (stage <=? MAX_BELL); [|discriminate]. destruct (n <=? MAX_BELL); [|discriminate].
    intros H1 H2. inversion H1; inversion H2; subst.
    replace n with (stage + (n - stage)) by lia. rewrite seq1_app. eauto.
Qed.

Theorem cover_padding_is_complete_row stage n custom sr op r :
  stage <= n ->
  generate_starting_row stage custom = Ok sr -> generate_starting_row n custom = Ok op ->
  Permutation.Permutation r sr ->
  Permutation.Permutation (if length r <? length op then r ++ skipn (length r) op else r) op.
Proof.
  intros Hle H1 H2 HP. destruct (opening_row_extends_start_row stage n custom sr op Hle H1 H2) as [extra ->].
  pose proof (Permutation.Permutation_length HP) as HL.
  rewrite app_length. destruct (Nat.ltb_spec (length r) (length sr + length extra)) as [Hlt|Hge].
  - rewrite HL. rewrite skipn_app, skipn_all, Nat.sub_diag. cbn [skipn app].
    apply Permutation.Permutation_app_tail. exact HP.
  - assert (extra = []) by (destruct extra; [reflexivity | cbn in Hge; lia]). subst. rewrite app_nil_r. exact HP.
Qed.

(* ------------------------------------------------------------------ C05 at the level of the Bot *)
(* the turnover at which the start counter is 0 resets the generator BEFORE the first method row is
   generated: that row, the calls attached to it and the generator that rings on are a function of
   gen_reset (generator) alone *)
Definition pad_to (opening r : row) : row :=
  if length r <? length opening then r ++ skipn (length r) opening else r.

Lemma snr_ctl_start sar hjr nh ok fits k k' act :
  opt_z_is (k_left k) 0 = true -> snr_ctl sar hjr nh ok fits k = Ok (k', act) ->
  act = Start (negb fits) /\ k_opening k' = false.
Proof.
  unfold snr_ctl. intros Z0. rewrite Z0. destruct (negb ok); [discriminate|]. cbn [bind].
  repeat match goal with |- context [let '(_, _) := ?x in _] => destruct x end.
  intros H; inversion H; subst; cbn; auto.
Qed.

Lemma bot_upd_bot w f : w_bot (upd_bot w f) = f (w_bot w).  Proof. reflexivity. Qed.
Section Prj.
  Variables (b : bot) (k : ctl) (g g' : gen) (r : row) (c : list call) (pl rn : nat).
  Let b1 := b <| b_place := pl |> <| b_row_number := rn |> <| b_calls := c |>.
  Lemma prj1_gen : b_gen b1 = b_gen b.  Proof. reflexivity. Qed.
  Lemma prj1_opening_row : b_opening_row b1 = b_opening_row b.  Proof. reflexivity. Qed.
  Lemma prj1_row_number : b_row_number b1 = rn.  Proof. reflexivity. Qed.
  Lemma prjc_gen : b_gen (set_ctl b k) = b_gen b.  Proof. reflexivity. Qed.
  Let b4 := set_ctl b k <| b_gen := g |>.
  Lemma prj_opening : b_opening_flag b4 = k_opening k.  Proof. reflexivity. Qed.
  Lemma prj_rounds : b_rounds_flag b4 = k_rounds k.  Proof. reflexivity. Qed.
  Lemma prj_ringing : b_ringing b4 = k_ringing k.  Proof. reflexivity. Qed.
  Lemma prj_gen : b_gen b4 = g.  Proof. reflexivity. Qed.
  Lemma prj_opening_row : b_opening_row b4 = b_opening_row b.  Proof. reflexivity. Qed.
  Lemma prj_row_number : b_row_number b4 = b_row_number b.  Proof. reflexivity. Qed.
  Lemma prj_rounds_row : b_rounds_flag (b <| b_row := r |>) = b_rounds_flag b.  Proof. reflexivity. Qed.
  Let b5 := b <| b_gen := g' |> <| b_row := r |> <| b_calls := c |>.
  Lemma prj5_row_number : b_row_number b5 = b_row_number b.  Proof. reflexivity. Qed.
  Lemma prj5_gen : b_gen b5 = g'.  Proof. reflexivity. Qed.
  Lemma prj5_row : b_row b5 = r.  Proof. reflexivity. Qed.
  Lemma prj5_calls : b_calls b5 = c.  Proof. reflexivity. Qed.
End Prj.

Opaque gen_next gen_reset expect_loop make_call.
Theorem method_start_is_fresh w f w' :
  opt_z_is (b_rounds_left (w_bot w)) 0 = true ->
  start_next_row w f = (w', None) ->
  b_ringing (w_bot w') = true -> b_rounds_flag (w_bot w') = false ->
  exists g' r cs,
    gen_next (gen_reset (b_gen (w_bot w))) (stroke_of_row (b_row_number (w_bot w'))) = Ok (g', (r, cs))
    /\ b_gen (w_bot w') = g'
    /\ b_row (w_bot w') = pad_to (b_opening_row (w_bot w)) r
    /\ b_calls (w_bot w') = cs.
Proof.
  intros Z0. unfold start_next_row.
  set (b0 := w_bot w).
  set (rn := if f then 0 else S (b_row_number b0)).
  match goal with |- context [upd_bot w ?f] => set (w1 := upd_bot w f); pose (b1 := f b0) end.
  cbv beta in b1.
  assert (W1 : w_bot w1 = b1) by reflexivity.
  destruct (snr_ctl _ _ _ _ _ (ctl_of b0)) as [[k act]|e] eqn:SS; [|discriminate].
  assert (Z1 : opt_z_is (k_left (ctl_of b0)) 0 = true) by exact Z0.
  destruct (snr_ctl_start _ _ _ _ _ _ _ _ Z1 SS) as [-> Ko]. clear SS.
  cbv iota.
  match goal with |- context [hthen (generate_next_row ?x)] => set (w4 := x) end.
  assert (B4 : w_bot w4 = (set_ctl b1 k) <| b_gen := gen_reset (b_gen b0) |>).
  { unfold w4. rewrite !bot_upd_bot.
    assert (E : w_bot (if negb (check_bells w1 (b_gen b0)) then make_call w1 uStand else w1) = b1).
    { destruct (negb (check_bells w1 (b_gen b0))); [rewrite bot_make_call|]; exact W1. }
    rewrite E. rewrite prjc_gen. unfold b1. rewrite prj1_gen. reflexivity. }
  clearbody w4 w1.
  destruct (negb (b_ringing (w_bot w4))) eqn:R.
  - intros H; inversion H; subst w'. intros R'. rewrite R' in R. discriminate.
  - unfold generate_next_row. rewrite B4.
    rewrite prj_opening, prj_rounds, prj_gen, prj_opening_row, prj_row_number, Ko.
    unfold b1 at 1 2 3. rewrite prj1_opening_row, prj1_row_number.
    destruct (k_rounds k) eqn:Kr.
    + cbn [hthen hok]. intros H; inversion H; subst w'. rewrite bot_expect_loop, bot_upd_bot, B4.
      rewrite prj_rounds_row, prj_rounds, Kr. discriminate.
    + destruct (gen_next (gen_reset (b_gen b0)) (stroke_of_row rn)) as [[g' [r cs]]|e] eqn:G; cbn [hthen hok]; [|discriminate].
      intros H; inversion H; subst w'. rewrite !bot_expect_loop. intros _ _.
      exists g', r, cs. rewrite !bot_upd_bot, B4.
      rewrite prj5_row_number, prj5_gen, prj5_row, prj5_calls, prj_row_number. unfold b1. rewrite prj1_row_number.
      split; [exact G|]. split; [reflexivity|]. split; reflexivity.
Qed.

(* ... hence, whatever the session did to the generator since it was built (ops: calls pending, a call
   half rung, any position), the method starts exactly as a freshly launched Wheatley starts it *)
Corollary method_start_like_fresh_launch w f w' g0 ops :
  fresh g0 -> b_gen (w_bot w) = gen_after g0 ops ->
  opt_z_is (b_rounds_left (w_bot w)) 0 = true ->
  start_next_row w f = (w', None) ->
  b_ringing (w_bot w') = true -> b_rounds_flag (w_bot w') = false ->
  exists g' r cs,
    gen_next g0 (stroke_of_row (b_row_number (w_bot w'))) = Ok (g', (r, cs))
    /\ b_gen (w_bot w') = g'
    /\ b_row (w_bot w') = pad_to (b_opening_row (w_bot w)) r
    /\ b_calls (w_bot w') = cs.
Proof.
  intros F E Z0 H R1 R2. destruct (method_start_is_fresh w f w' Z0 H R1 R2) as [g' [r [cs [G rest]]]].
  exists g', r, cs. split; [|exact rest]. rewrite E, (reset_after_any_history_is_fresh g0 ops F) in G. exact G.
Qed.
