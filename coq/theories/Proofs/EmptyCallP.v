(* C04: a call for which the method defines NO position at all (Stedman Doubles' Bob, a JSON definition with
   "bob": {}) never acts: with such a call pending every change is the plain method's, at every index. *)
From Wh Require Import Prelude Permute PN Gens PermuteP GensP CallsP.

Lemma call_at_empty li : call_at [] li = None.
Proof. reflexivity. Qed.

Theorem empty_bob_definition_never_acts c stage prev index :
  pc_method c <> [] -> pc_bobs c = [] ->
  pn_gen_row c stage prev index true false [] =
  do p <- nth_res (pc_method c) (lead_index c index) ;; do r <- permute stage p prev ;; Ok (r, (true, false, [])).
Proof.
  intros Hm Hb. apply pending_call_changes_nothing; [exact Hm | intros _; rewrite Hb; apply call_at_empty | discriminate].
Qed.

Theorem empty_single_definition_never_acts c stage prev index :
  pc_method c <> [] -> pc_singles c = [] ->
  pn_gen_row c stage prev index false true [] =
  do p <- nth_res (pc_method c) (lead_index c index) ;; do r <- permute stage p prev ;; Ok (r, (false, true, [])).
Proof.
  intros Hm Hs. apply pending_call_changes_nothing; [exact Hm | discriminate | intros _; rewrite Hs; apply call_at_empty].
Qed.

(* ... and an explicitly empty definition stays empty through the constructor (it is NOT replaced by the default) *)
Theorem explicit_empty_definition_is_kept stage m s si custom g c :
  mk_pn_gen stage m (Some []) s si custom = Ok g -> g_kind g = GPN c -> pc_bobs c = [].
Proof.
  unfold mk_pn_gen. intros H K.
  apply bind_ok in H. destruct H as [start [_ H]].
  apply bind_ok in H. destruct H as [mpn [_ H]].
  cbn [parse_call_dict bind] in H.
  apply bind_ok in H. destruct H as [singles [_ H]].
  inversion H; subst. cbn in K. inversion K; subst. reflexivity.
Qed.
