(* The normal matrix of the weighted regression is non-singular as soon as two observations with
   positive weight sit on different blows: det = sum over pairs of w_i w_j (x_i - x_j)^2. *)
From Wh Require Import Prelude Permute PN Gens Rhythm RegressP.
From Coq Require Import NArith ZArith QArith Qreduction Qfield Lra Lqa.
Local Open Scope Q_scope.

(* weighted squared distance of the blows of d from x *)
Fixpoint spread (x0 : Q) (d : list datapoint) : Q :=
  match d with [] => 0 | (x, y, w) :: t => spread x0 t + w * ((x - x0) * (x - x0)) end.

Lemma spread_eq x0 d : spread x0 d == Sxx d - 2 * x0 * Sx d + x0 * x0 * Sw d.
Proof.
  induction d as [|[[x y] w] d IH]; cbn [spread Sw Sx Sxx].
  - ring.
  - rewrite IH. ring.
Qed.

Lemma det_cons x y w d : det ((x, y, w) :: d) == det d + w * spread x d.
Proof. unfold det. cbn [Sw Sx Sxx]. rewrite spread_eq. ring. Qed.

Definition wnonneg (p : datapoint) : Prop := let '(x, y, w) := p in 0 <= w.

Lemma sq_nonneg (a : Q) : 0 <= a * a.
Proof. nra. Qed.

Lemma sq_pos (a : Q) : ~ a == 0 -> 0 < a * a.
Proof. intros H. destruct (Qlt_le_dec 0 a); [nra|]. destruct (Qlt_le_dec a 0); [nra|]. exfalso. apply H. lra. Qed.

Lemma spread_nonneg x0 d : Forall wnonneg d -> 0 <= spread x0 d.
Proof.
  induction 1 as [|[[x y] w] d Hp _ IH]; cbn [spread]; [lra|].
  cbn in Hp. pose proof (sq_nonneg (x - x0)). nra.
Qed.

Lemma spread_pos x0 d x y w :
  Forall wnonneg d -> In (x, y, w) d -> 0 < w -> ~ x == x0 -> 0 < spread x0 d.
Proof.
  induction 1 as [|[[x' y'] w'] d Hp Hd IH]; cbn [spread In]; [tauto|].
  intros [E|Hin] Hw Hx.
  - inversion E; subst. pose proof (spread_nonneg x0 d Hd).
    assert (0 < (x - x0) * (x - x0)) by (apply sq_pos; intros Z; apply Hx; lra). nra.
  - specialize (IH Hin Hw Hx). cbn in Hp. pose proof (sq_nonneg (x' - x0)). nra.
Qed.

Lemma det_nonneg d : Forall wnonneg d -> 0 <= det d.
Proof.
  induction 1 as [|[[x y] w] d Hp Hd IH].
  - unfold det; cbn. lra.
  - rewrite det_cons. cbn in Hp. pose proof (spread_nonneg x d Hd). nra.
Qed.

Theorem det_positive d x1 y1 w1 x2 y2 w2 :
  Forall wnonneg d -> In (x1, y1, w1) d -> In (x2, y2, w2) d -> 0 < w1 -> 0 < w2 -> ~ x1 == x2 ->
  0 < det d.
Proof.
  induction 1 as [|[[x y] w] d Hp Hd IH]; cbn [In]; [tauto|].
  intros H1 H2 Hw1 Hw2 Hx. rewrite det_cons. cbn in Hp.
  pose proof (det_nonneg d Hd) as Dn. pose proof (spread_nonneg x d Hd) as Sn.
  destruct H1 as [E1|H1], H2 as [E2|H2].
  - inversion E1; inversion E2; subst. exfalso. apply Hx. reflexivity.
  - inversion E1; subst. assert (0 < spread x1 d) by (eapply spread_pos; eauto; intros Z; apply Hx; lra). nra.
  - inversion E2; subst. assert (0 < spread x2 d) by (eapply spread_pos; eauto). nra.
  - specialize (IH H1 H2 Hw1 Hw2 Hx). nra.
Qed.

(* the regression is defined, and - on collinear data - returns the humans' line, with no side
   condition on the normal matrix *)
Theorem regression_defined_two_blows d x1 y1 w1 x2 y2 w2 :
  Forall wnonneg d -> In (x1, y1, w1) d -> In (x2, y2, w2) d -> 0 < w1 -> 0 < w2 -> ~ x1 == x2 ->
  exists a b, calculate_regression d = Some (a, b).
Proof.
  intros. apply regression_defined. pose proof (det_positive d x1 y1 w1 x2 y2 w2). intros Z.
  assert (0 < det d) by auto. lra.
Qed.

Theorem collinear_recovery_total a b d x1 y1 w1 x2 y2 w2 :
  Forall wnonneg d -> In (x1, y1, w1) d -> In (x2, y2, w2) d -> 0 < w1 -> 0 < w2 -> ~ x1 == x2 ->
  Forall (on_line a b) d ->
  exists a' b', calculate_regression d = Some (a', b') /\ a' == a /\ b' == b.
Proof.
  intros Hn H1 H2 Hw1 Hw2 Hx Hl.
  destruct (regression_defined_two_blows d x1 y1 w1 x2 y2 w2 Hn H1 H2 Hw1 Hw2 Hx) as [a' [b' E]].
  exists a', b'. split; [exact E|]. eapply collinear_recovery; eauto.
Qed.

(* ------------------------------------------------------------------ the data the product regresses on *)
Definition heavy (p : datapoint) : Prop := WEIGHT_REJECTION_THRESHOLD < snd p.

Lemma heavy_filter d : Forall heavy (filter (fun p : datapoint => Qltb WEIGHT_REJECTION_THRESHOLD (snd p)) d).
Proof.
  apply Forall_forall. intros p Hp. apply filter_In in Hp. destruct Hp as [_ Hp].
  unfold heavy, Qltb in *. destruct (Qle_bool (snd p) WEIGHT_REJECTION_THRESHOLD) eqn:E; [discriminate|].
  destruct (Qlt_le_dec WEIGHT_REJECTION_THRESHOLD (snd p)) as [L|L]; [exact L|].
  apply Qle_bool_iff in L. congruence.
Qed.

Lemma heavy_wnonneg d : Forall heavy d -> Forall wnonneg d.
Proof.
  apply Forall_impl. intros [[x y] w]. unfold heavy, wnonneg, WEIGHT_REJECTION_THRESHOLD. cbn [snd]. lra.
Qed.

Lemma note_margin_fold_data (l : list datapoint) r :
  r_data (fold_left (fun r' p => note_margin r' (qsub (snd p) WEIGHT_REJECTION_THRESHOLD)) l r) = r_data r
  /\ r_max (fold_left (fun r' p => note_margin r' (qsub (snd p) WEIGHT_REJECTION_THRESHOLD)) l r) = r_max r.
Proof. revert r. induction l as [|p l IH]; intros r; cbn [fold_left]; [auto|]. destruct (IH (note_margin r (qsub (snd p) WEIGHT_REJECTION_THRESHOLD))) as [A B]. rewrite A, B. split; reflexivity. Qed.

(* every observation kept after _add_data_point carries more than the rejection threshold *)
Theorem add_data_point_keeps_heavy r row place t w r' :
  add_data_point r row place t w = Ok r' -> Forall heavy (r_data r').
Proof.
  unfold add_data_point. cbv zeta.
  set (d1 := r_data r ++ _).
  match goal with |- context [fold_left ?f d1 r] => set (rr := fold_left f d1 r) end.
  match goal with |- context [filter ?f d1] => set (d2 := filter f d1) end.
  assert (H2 : Forall heavy d2) by apply heavy_filter.
  destruct (r_max rr <=? length d2)%nat.
  - destruct d2 as [|p d2']; cbn [bind]; [discriminate|].
    assert (H3 : Forall heavy d2') by (inversion H2; assumption). clearbody rr.
    destruct (Qeqb _ 1); [intros E; inversion E; exact H3|].
    destruct (r_min rr <=? length d2')%nat; [|intros E; inversion E; exact H3].
    destruct (calculate_regression d2') as [[ns ni]|]; [|intros E; inversion E; exact H3].
    destruct (r_start rr); [intros E; inversion E; exact H3|].
    destruct (Qeqb _ 0); intros E; inversion E; exact H3.
  - cbn [bind]. clearbody rr d2.
    destruct (Qeqb _ 1); [intros E; inversion E; exact H2|].
    destruct (r_min rr <=? length d2)%nat; [|intros E; inversion E; exact H2].
    destruct (calculate_regression d2) as [[ns ni]|]; [|intros E; inversion E; exact H2].
    destruct (r_start rr); [intros E; inversion E; exact H2|].
    destruct (Qeqb _ 0); intros E; inversion E; exact H2.
Qed.

(* hence: whenever the kept data span two different blows, the regression the product runs on them is
   defined (the "singular matrix" branch is dead), and on collinear data it IS the humans' line *)
Theorem heavy_regression_defined d x1 y1 w1 x2 y2 w2 :
  Forall heavy d -> In (x1, y1, w1) d -> In (x2, y2, w2) d -> ~ x1 == x2 ->
  exists a b, calculate_regression d = Some (a, b).
Proof.
  intros Hh H1 H2 Hx. pose proof (proj1 (Forall_forall _ _) Hh) as F.
  pose proof (F _ H1) as A. pose proof (F _ H2) as B. unfold heavy, WEIGHT_REJECTION_THRESHOLD in A, B. cbn [snd] in A, B.
  apply (regression_defined_two_blows d x1 y1 w1 x2 y2 w2); [apply heavy_wnonneg; exact Hh|exact H1|exact H2| | |exact Hx].
  - eapply Qlt_trans; [|exact A]. reflexivity.
  - eapply Qlt_trans; [|exact B]. reflexivity.
Qed.

(* ------------------------------------------------------------------ different strikes, different blows *)
Lemma Qnat_le a b : (a <= b)%nat -> Qnat a <= Qnat b.
Proof. intros H. unfold Qnat. rewrite <- Zle_Qle. lia. Qed.
Lemma Qnat_lt a b : (a < b)%nat -> Qnat a < Qnat b.
Proof. intros H. unfold Qnat. rewrite <- Zlt_Qlt. lia. Qed.

(* the blow time is strictly increasing along the ringing order (row, then place within the row) *)
Theorem blow_time_increasing r row1 place1 row2 place2 :
  0 <= r_gap r -> (place1 < r_stage r)%nat ->
  (row1 < row2)%nat \/ (row1 = row2 /\ (place1 < place2)%nat) ->
  index_to_blow_time r row1 place1 < index_to_blow_time r row2 place2.
Proof.
  intros Hg Hp H. unfold index_to_blow_time. rewrite !qadd_eq, !qmul_eq.
  assert (Hn : (row1 * r_stage r + place1 < row2 * r_stage r + place2)%nat) by nia.
  assert (Hh : (row1 / 2 <= row2 / 2)%nat).
  { apply Nat.div_le_mono; [lia|]. destruct H as [H|[H _]]; lia. }
  apply Qnat_lt in Hn. apply Qnat_le in Hh. nra.
Qed.

Corollary blow_time_injective r row1 place1 row2 place2 :
  0 <= r_gap r -> (place1 < r_stage r)%nat -> (place2 < r_stage r)%nat ->
  (row1, place1) <> (row2, place2) ->
  ~ index_to_blow_time r row1 place1 == index_to_blow_time r row2 place2.
Proof.
  intros Hg H1 H2 Hne E.
  destruct (Nat.lt_trichotomy row1 row2) as [L|[L|L]].
  - pose proof (blow_time_increasing r row1 place1 row2 place2 Hg H1 (or_introl L)). lra.
  - subst. destruct (Nat.lt_trichotomy place1 place2) as [P|[P|P]].
    + pose proof (blow_time_increasing r row2 place1 row2 place2 Hg H1 (or_intror (conj eq_refl P))). lra.
    + subst. congruence.
    + pose proof (blow_time_increasing r row2 place2 row2 place1 Hg H2 (or_intror (conj eq_refl P))). lra.
  - pose proof (blow_time_increasing r row2 place2 row1 place1 Hg H2 (or_introl L)). lra.
Qed.

(* ------------------------------------------------------------------ regressing relative to a datapoint *)
(* The product (since the repair of the ill-conditioned regression) subtracts the first datapoint from
   every blow time and real time, regresses, and shifts the intercept back; the model regresses on the
   raw values.  In exact arithmetic the two are the same function, for ANY reference point. *)
Definition centre_point (x0 y0 : Q) (p : datapoint) : datapoint := let '(x, y, w) := p in (x - x0, y - y0, w).

Lemma centre_sums x0 y0 d :
  Sw (map (centre_point x0 y0) d) == Sw d
  /\ Sx (map (centre_point x0 y0) d) == Sx d - x0 * Sw d
  /\ Sy (map (centre_point x0 y0) d) == Sy d - y0 * Sw d
  /\ Sxx (map (centre_point x0 y0) d) == Sxx d - 2 * x0 * Sx d + x0 * x0 * Sw d
  /\ Sxy (map (centre_point x0 y0) d) == Sxy d - x0 * Sy d - y0 * Sx d + x0 * y0 * Sw d.
Proof.
  induction d as [|[[x y] w] d IH]; cbn [map centre_point Sw Sx Sy Sxx Sxy].
  - repeat split; ring.
  - destruct IH as [A [B [C [D E]]]]. rewrite A, B, C, D, E. repeat split; ring.
Qed.

Lemma centre_det x0 y0 d : det (map (centre_point x0 y0) d) == det d.
Proof. destruct (centre_sums x0 y0 d) as [A [B [C [D E]]]]. unfold det. rewrite A, B, D. ring. Qed.

Theorem centred_regression x0 y0 d a' b' :
  calculate_regression (map (centre_point x0 y0) d) = Some (a', b') ->
  exists a b, calculate_regression d = Some (a, b) /\ a == y0 + (a' - b' * x0) /\ b == b'.
Proof.
  intros H'. destruct (regression_closed_form _ _ _ H') as [Hd' [Ha' Hb']].
  assert (Hd : ~ det d == 0) by (rewrite <- (centre_det x0 y0 d); exact Hd').
  destruct (regression_defined d Hd) as [a [b H]]. exists a, b. split; [exact H|].
  destruct (regression_closed_form _ _ _ H) as [_ [Ha Hb]].
  pose proof (centre_det x0 y0 d) as Ed.
  destruct (centre_sums x0 y0 d) as [A [B [C [D E]]]].
  rewrite Ha', Hb', Ha, Hb, Ed, A, B, C, D, E. unfold det in *. split; field; exact Hd.
Qed.

(* ... and conversely the centred regression is defined whenever the raw one is *)
Theorem centred_regression_defined x0 y0 d a b :
  calculate_regression d = Some (a, b) ->
  exists a' b', calculate_regression (map (centre_point x0 y0) d) = Some (a', b').
Proof.
  intros H. destruct (regression_closed_form _ _ _ H) as [Hd _].
  apply regression_defined. rewrite centre_det. exact Hd.
Qed.
