(* Proofs for C02 (rows of a plain method are the iterated changes of its notation, read cyclically
   from the start index) and C04 (what exactly a Bob / Single does and when). *)
From Wh Require Import Prelude Permute PN Gens PermuteP GensP.

(* ------------------------------------------------------------------ C02: kth_row *)
(* the declarative reading: change i of the touch is method[(i + start_index) mod L] *)
Fixpoint spec_rows (c : pn_cfg) (stage : nat) (r : row) (i n : nat) : result (list row) :=
  match n with
  | 0 => Ok []
  | S n' =>
      do pn <- nth_res (pc_method c) (lead_index c i) ;;
      do r' <- permute stage pn r ;;
      do rest <- spec_rows c stage r' (S i) n' ;;
      Ok (r' :: rest)
  end.

Definition plain_state (g : gen) : Prop :=
  g_has_bob g = false /\ g_has_single g = false /\ g_call_pn g = [].

Lemma pn_gen_row_plain c stage prev index :
  pc_method c <> [] ->
  pn_gen_row c stage prev index false false [] =
  do pn <- nth_res (pc_method c) (lead_index c index) ;;
  do r <- permute stage pn prev ;; Ok (r, (false, false, [])).
Proof.
  intros Hm. unfold pn_gen_row. destruct (pc_method c) as [|m ms] eqn:M; [congruence|].
  cbn [length Nat.eqb andb]. reflexivity.
Qed.

Theorem kth_row : forall strokes g c,
  g_kind g = GPN c -> pc_method c <> [] -> plain_state g ->
  match spec_rows c (g_stage g) (g_row g) (g_index g) (length strokes) with
  | Ok rows => gen_run g (map OpNext strokes) = (map (fun r => (r, [])) rows, None)
  | Err e => snd (gen_run g (map OpNext strokes)) = Some e
  end.
Proof.
  induction strokes as [|st strokes IH]; intros g c K Hm [Hb [Hs Hc]]; cbn [length spec_rows map gen_run].
  - reflexivity.
  - unfold gen_next. rewrite K, Hb, Hs, Hc, (pn_gen_row_plain c _ _ _ Hm).
    destruct (nth_res (pc_method c) (lead_index c (g_index g))) as [pn|e]; cbn [bind]; [|reflexivity].
    destruct (permute (g_stage g) pn (g_row g)) as [r|e]; cbn [bind]; [|reflexivity].
    set (g' := set_state g (S (g_index g)) r false false []).
    specialize (IH g' c K Hm (conj eq_refl (conj eq_refl eq_refl))).
    change (g_stage g') with (g_stage g) in IH. change (g_row g') with r in IH.
    change (g_index g') with (S (g_index g)) in IH.
    destruct (spec_rows c (g_stage g) r (S (g_index g)) (length strokes)) as [rows|e]; cbn [bind].
    + rewrite IH. reflexivity.
    + destruct (gen_run g' (map OpNext strokes)) as [rs ex]. cbn in *. exact IH.
Qed.

(* ------------------------------------------------------------------ C04: one step of a PN generator, by cases *)
Definition call_at (d : call_dict) (li : nat) : option (places * list places) :=
  match dict_get Nat.eqb d li with Some (p :: rest) => Some (p, rest) | _ => None end.

Lemma truthy_call_at d li : truthy (dict_get Nat.eqb d li) = match call_at d li with Some _ => true | None => false end.
Proof. unfold truthy, call_at. destruct (dict_get Nat.eqb d li) as [[|p r]|]; reflexivity. Qed.

(* The complete decision rule of PlaceNotationGenerator._gen_row, as four exclusive cases:
   (a) a Bob is pending and defined at this lead index: the call's first change is used, both
       flags are cleared, the rest of the call is remembered;
   (b) likewise for a Single when (a) does not apply (a Bob wins when both are pending);
   (c) otherwise a call in progress supplies its next change; pending flags are left alone;
   (d) otherwise the method's own change is used and nothing else changes - in particular a
       pending call whose position is not defined here alters nothing. *)
Theorem pn_step_spec c stage prev index hb hs cp :
  pc_method c <> [] ->
  let li := lead_index c index in
  pn_gen_row c stage prev index hb hs cp =
  match (if hb then call_at (pc_bobs c) li else None) with
  | Some (p, rest) => do r <- permute stage p prev ;; Ok (r, (false, false, rest))
  | None =>
      match (if hs then call_at (pc_singles c) li else None) with
      | Some (p, rest) => do r <- permute stage p prev ;; Ok (r, (false, false, rest))
      | None =>
          match cp with
          | p :: rest => do r <- permute stage p prev ;; Ok (r, (hb, hs, rest))
          | [] => do p <- nth_res (pc_method c) li ;; do r <- permute stage p prev ;; Ok (r, (hb, hs, []))
          end
      end
  end.
Proof.
  intros Hm li. unfold pn_gen_row. destruct (pc_method c) as [|m ms] eqn:M; [congruence|].
  cbn [length Nat.eqb]. rewrite <- M. fold li. rewrite !truthy_call_at.
  unfold call_at.
  destruct hb; cbn [andb].
  - destruct (dict_get Nat.eqb (pc_bobs c) li) as [[|p rest]|]; cbn [andb]; try reflexivity.
    all: destruct hs; cbn [andb]; try reflexivity.
    all: destruct (dict_get Nat.eqb (pc_singles c) li) as [[|q rest']|]; cbn [andb]; reflexivity.
  - destruct hs; cbn [andb]; try reflexivity.
    destruct (dict_get Nat.eqb (pc_singles c) li) as [[|q rest']|]; cbn [andb]; reflexivity.
Qed.

(* named corollaries of the rule *)
Corollary pending_call_changes_nothing c stage prev index hb hs :
  pc_method c <> [] ->
  (hb = true -> call_at (pc_bobs c) (lead_index c index) = None) ->
  (hs = true -> call_at (pc_singles c) (lead_index c index) = None) ->
  pn_gen_row c stage prev index hb hs [] =
  do p <- nth_res (pc_method c) (lead_index c index) ;; do r <- permute stage p prev ;; Ok (r, (hb, hs, [])).
Proof.
  intros Hm Hb Hs. rewrite (pn_step_spec c stage prev index hb hs [] Hm). cbv zeta.
  destruct hb; [rewrite (Hb eq_refl)|]; (destruct hs; [rewrite (Hs eq_refl)|]); reflexivity.
Qed.

Corollary call_replaces_exactly_its_length c stage prev index p rest :
  pc_method c <> [] ->
  pn_gen_row c stage prev index false false (p :: rest) =
  do r <- permute stage p prev ;; Ok (r, (false, false, rest)).
Proof. intros Hm. rewrite (pn_step_spec c stage prev index false false (p :: rest) Hm). reflexivity. Qed.

Corollary bob_fires_where_defined c stage prev index hs cp p rest :
  pc_method c <> [] -> call_at (pc_bobs c) (lead_index c index) = Some (p, rest) ->
  pn_gen_row c stage prev index true hs cp = do r <- permute stage p prev ;; Ok (r, (false, false, rest)).
Proof. intros Hm H. rewrite (pn_step_spec c stage prev index true hs cp Hm). cbv zeta. now rewrite H. Qed.

(* where a definition given at user position [pos] sits: (pos - 1) mod L, so 0 is the lead end and
   negative positions count back from it *)
Lemma parse_call_dict_single L pos s pn :
  L <> 0 -> convert_pn s = Ok pn ->
  parse_call_dict L [(pos, s)] [] = Ok [(zmod_nat (pos - 1) L, pn)].
Proof.
  intros HL Hc. cbn [parse_call_dict]. rewrite Hc. cbn [bind].
  destruct L; [congruence|]. reflexivity.
Qed.
