(* C07 / C06: what a settings message can NOT do.  Whatever key and value arrive over the socket - also a whole
   list of them - the pending stop calls (Stand next, the That's-all countdown), the pending start (Go countdown),
   the row in progress and the generators are left exactly as they were: a settings message never cancels a call. *)
From Wh Require Import Prelude Permute PN Gens Complib Tower Rhythm PyStr Sys.
From Coq Require Import NArith ZArith QArith.
From RecordUpdate Require Import RecordSet.
Import RecordSetNotations.

Definition same_control (w w' : world) : Prop :=
  b_should_stand (w_bot w') = b_should_stand (w_bot w)
  /\ b_rows_left (w_bot w') = b_rows_left (w_bot w)
  /\ b_rounds_left (w_bot w') = b_rounds_left (w_bot w)
  /\ b_rounds_flag (w_bot w') = b_rounds_flag (w_bot w)
  /\ b_opening_flag (w_bot w') = b_opening_flag (w_bot w)
  /\ b_ringing (w_bot w') = b_ringing (w_bot w)
  /\ b_row_number (w_bot w') = b_row_number (w_bot w)
  /\ b_place (w_bot w') = b_place (w_bot w)
  /\ b_row (w_bot w') = b_row (w_bot w)
  /\ b_gen (w_bot w') = b_gen (w_bot w)
  /\ b_next_gen (w_bot w') = b_next_gen (w_bot w).

Lemma same_control_refl w : same_control w w.
Proof. repeat split. Qed.
Lemma same_control_trans a b c : same_control a b -> same_control b c -> same_control a c.
Proof.
  unfold same_control. intros [A1 [A2 [A3 [A4 [A5 [A6 [A7 [A8 [A9 [A10 A11]]]]]]]]]] [B1 [B2 [B3 [B4 [B5 [B6 [B7 [B8 [B9 [B10 B11]]]]]]]]]].
  repeat split; congruence.
Qed.

Lemma setting_one_keeps_control w k v w' o : on_setting_one w k v = (w', o) -> same_control w w'.
Proof.
  unfold on_setting_one.
  assert (R : forall k', (let w0 := log w (RSetting k' (w_now w)) in
              match rh_change_setting (w_rhythm w0) k' v (w_now w0) with
              | (r, None) => hok (w0 <| w_rhythm := r |>)
              | (r, Some e) => (w0 <| w_rhythm := r |>, Some e)
              end) = (w', o) -> same_control w w').
  { intros k'. cbv zeta. destruct (rh_change_setting _ _ _ _) as [r [e|]]; intros H; inversion H; subst; repeat split. }
  destruct k; try (apply R).
  all: destruct (to_bool v); intros H; inversion H; subst; repeat split.
Qed.

Theorem settings_keep_control kvs : forall w w' o, on_setting w kvs = (w', o) -> same_control w w'.
Proof.
  induction kvs as [|[k v] t IH]; intros w w' o; cbn [on_setting].
  - intros H. inversion H; subst. apply same_control_refl.
  - unfold hthen. destruct (on_setting_one w k v) as [w1 [e|]] eqn:E.
    + intros H. inversion H; subst. eapply setting_one_keeps_control; eauto.
    + intros H. eapply same_control_trans; [eapply setting_one_keeps_control; eauto | eapply IH; eauto].
Qed.

(* ... at the level of the tower's message handler, in console and in server mode *)
Corollary setting_message_keeps_control nested w kvs w' o :
  handle nested w (MSetting kvs) = (w', o) -> same_control w w'.
Proof.
  cbn [handle]. destruct (server_mode w).
  - apply settings_keep_control.
  - intros H. inversion H; subst. apply same_control_refl.
Qed.

(* the same for the messages that only change who holds which bell or who is in the tower: assignments and users
   coming and going touch nothing but the tower's view *)
Theorem people_messages_keep_control nested w m w' o :
  match m with MUserEntered _ _ | MUserList _ | MUserLeft _ | MAssign _ _ => True | _ => False end ->
  handle nested w m = (w', o) -> same_control w w'.
Proof.
  destruct m; try tauto; intros _; cbn [handle].
  1-3: intros H; inversion H; subst; repeat split.
  destruct (tw_assign (w_tower w) bell uid); intros H; inversion H; subst; repeat split.
Qed.
