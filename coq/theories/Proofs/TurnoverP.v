(* C19 (Stop touch) / C07: the control skeleton of a row turnover can only STOP the ringing, never start it: if
   Stop touch (or a stand) has switched ringing off, no turnover - at handstroke or backstroke, whatever is pending -
   switches it on again. *)
From Wh Require Import Prelude Permute PN Gens Complib Tower Rhythm PyStr Sys.
From Coq Require Import NArith ZArith.

Theorem turnover_never_starts_ringing sar hjr nh ok fits k k' act :
  snr_ctl sar hjr nh ok fits k = Ok (k', act) -> k_ringing k = false -> k_ringing k' = false.
Proof.
  unfold snr_ctl. intros H Hr.
  destruct (opt_z_is (k_left k) 0); [destruct ok; cbn [negb bind] in H; [|discriminate]|cbn [bind] in H].
  all: destruct (nh && (if sar && hjr && negb (k_opening k) then true else k_stand k)).
  all: destruct (opt_z_is (k_rows_left k) 0 || (hjr && match k_rows_left k with Some _ => true | None => false end)).
  all: inversion H; subst; cbn [k_ringing]; try reflexivity; exact Hr.
Qed.
