(* C09: in waiting mode Wheatley never gets ahead of a human.  The proof is about the very functions
   of Model/Rhythm.v that mirror WaitForUserRhythm (wait_expect, wait_on_bell_ring, wait_clear),
   driven by an abstract band: a set U of human-held bells, each with a count of how often it has
   struck since Look to (all bells at hand then, every pull toggles the stroke, so a bell's k-th blow
   (k from 0) is at hand iff k is even - which is the stroke Bot._on_bell_ring reports). *)
From Wh Require Import Prelude Permute PN Gens Rhythm GensP.
From Coq Require Import NArith ZArith QArith.
Close Scope Q_scope.

(* ------------------------------------------------------------------ sets as lists *)
Lemma set_add_In x y s : In y (set_add x s) <-> y = x \/ In y s.
Proof.
  unfold set_add. destruct (mem_nat x s) eqn:M.
  - apply mem_nat_In in M. split; [tauto|]. intros [->|H]; auto.
  - rewrite in_app_iff. cbn. split; [intros [H|[H|[]]]; auto | intros [H|H]; auto].
Qed.
Lemma set_remove_In x y s : In y (set_remove x s) <-> y <> x /\ In y s.
Proof.
  unfold set_remove. rewrite filter_In. split.
  - intros [H1 H2]. apply Bool.negb_true_iff, Nat.eqb_neq in H2. split; auto.
  - intros [H1 H2]. split; auto. apply Bool.negb_true_iff, Nat.eqb_neq. auto.
Qed.

(* projections of the setters *)
Lemma ws_exp_set_exp w st s st' : ws_exp (ws_set_exp w st s) st' = if Bool.eqb st st' then s else ws_exp w st'.
Proof. destruct st, st'; reflexivity. Qed.
Lemma ws_early_set_exp w st s st' : ws_early (ws_set_exp w st s) st' = ws_early w st'.
Proof. destruct st, st'; reflexivity. Qed.
Lemma ws_exp_set_early w st s st' : ws_exp (ws_set_early w st s) st' = ws_exp w st'.
Proof. destruct st, st'; reflexivity. Qed.
Lemma ws_early_set_early w st s st' : ws_early (ws_set_early w st s) st' = if Bool.eqb st st' then s else ws_early w st'.
Proof. destruct st, st'; reflexivity. Qed.
Lemma ws_stroke_set_exp w st s : ws_stroke (ws_set_exp w st s) = ws_stroke w.  Proof. destruct st; reflexivity. Qed.
Lemma ws_stroke_set_early w st s : ws_stroke (ws_set_early w st s) = ws_stroke w.  Proof. destruct st; reflexivity. Qed.

(* ------------------------------------------------------------------ the band *)
Definition counts := nat -> nat.
Definition bump (c : counts) (h : nat) : counts := fun x => if Nat.eqb x h then S (c x) else c x.

Record band := { bd_ws : waitst; bd_cnt : counts; bd_row : nat }.

(* a human bell h strikes: its (cnt h)-th blow, at hand iff cnt h is even *)
Definition ring (b : band) (h : nat) : band :=
  {| bd_ws := wait_on_bell_ring (bd_ws b) h (Nat.even (bd_cnt b h));
     bd_cnt := bump (bd_cnt b) h; bd_row := bd_row b |}.

(* the row turnover: the Bot arms every human bell of the new row (expect_bell) *)
Definition arm (ws : waitst) (U : list nat) (st : bool) : waitst :=
  fold_left (fun w h => wait_expect w h st) U ws.
Definition turnover (b : band) (U : list nat) : band :=
  {| bd_ws := arm (bd_ws b) U (Nat.even (S (bd_row b))); bd_cnt := bd_cnt b; bd_row := S (bd_row b) |}.

(* Look to *)
Definition look_to (ws0 : waitst) (U : list nat) : band :=
  {| bd_ws := arm (wait_clear ws0) U true; bd_cnt := fun _ => 0; bd_row := 0 |}.

(* ------------------------------------------------------------------ the invariant *)
Definition Inv (U : list nat) (b : band) : Prop :=
  let s := Nat.even (bd_row b) in
  ws_stroke (bd_ws b) = s
  /\ (forall h, In h U -> bd_row b <= bd_cnt b h)
  /\ (forall h, In h U -> ~ In h (ws_exp (bd_ws b) s) -> S (bd_row b) <= bd_cnt b h)
  /\ (forall h, In h U -> In h (ws_early (bd_ws b) (negb s)) -> S (S (bd_row b)) <= bd_cnt b h).

Lemma even_S' n : Nat.even (S n) = negb (Nat.even n).
Proof. rewrite Nat.even_succ, <- Nat.negb_even. reflexivity. Qed.

Lemma parity_ge a r : r <= a -> Nat.even a = Nat.even r -> a = r \/ S (S r) <= a.
Proof.
  intros H E. destruct (Nat.eq_dec a r) as [->|N]; [auto|]. right.
  destruct (Nat.eq_dec a (S r)) as [->|N2]; [|lia].
  rewrite even_S' in E. destruct (Nat.even r); discriminate.
Qed.
Lemma parity_ge' a r : r <= a -> Nat.even a <> Nat.even r -> S r <= a.
Proof. intros H E. destruct (Nat.eq_dec a r) as [->|N]; [congruence|lia]. Qed.

(* a human strike preserves the invariant, whichever bell, whenever *)
Lemma ring_inv U b h : In h U -> Inv U b -> Inv U (ring b h).
Proof.
  intros HU [I1 [I2 [I3 I4]]]. unfold Inv, ring. cbn [bd_ws bd_cnt bd_row].
  set (s := Nat.even (bd_row b)) in *. set (ws := bd_ws b) in *. set (c := bd_cnt b) in *.
  unfold wait_on_bell_ring. rewrite I1. fold s.
  destruct (Bool.eqb (Nat.even (c h)) s) eqn:E.
  - (* rang the stroke of the row in progress *)
    apply Bool.eqb_prop in E.
    repeat split.
    + now rewrite ws_stroke_set_early, ws_stroke_set_exp.
    + intros x Hx. unfold bump. destruct (Nat.eqb x h); [specialize (I2 x Hx); lia | auto].
    + intros x Hx Hn. rewrite ws_exp_set_early, ws_exp_set_exp, Bool.eqb_reflx in Hn.
      unfold bump. destruct (Nat.eqb_spec x h) as [->|Nx].
      * specialize (I2 h HU). lia.
      * apply I3; auto. intros Hin. apply Hn. apply set_remove_In. auto.
    + intros x Hx Hin. rewrite ws_early_set_early, Bool.eqb_reflx in Hin.
      apply set_remove_In in Hin. destruct Hin as [Nx Hin].
      rewrite ws_early_set_exp in Hin. unfold bump.
      destruct (Nat.eqb_spec x h) as [->|_]; [congruence|]. apply I4; auto.
  - (* rang the next stroke early: it had already rung this row *)
    apply Bool.eqb_false_iff in E.
    assert (Hc : S (bd_row b) <= c h) by (apply parity_ge'; [apply I2; auto | exact E]).
    repeat split.
    + now rewrite ws_stroke_set_early.
    + intros x Hx. unfold bump. destruct (Nat.eqb x h); [specialize (I2 x Hx); lia | auto].
    + intros x Hx Hn. rewrite ws_exp_set_early in Hn. unfold bump.
      destruct (Nat.eqb_spec x h) as [->|Nx]; [lia | apply I3; auto].
    + intros x Hx Hin. rewrite ws_early_set_early, Bool.eqb_reflx in Hin.
      apply set_add_In in Hin. unfold bump.
      destruct (Nat.eqb_spec x h) as [->|Nx]; [lia|].
      destruct Hin as [->|Hin]; [congruence | apply I4; auto].
Qed.

(* arming a list of bells on stroke st *)
Lemma wait_expect_same w h st :
  ws_stroke w = st ->
  ws_stroke (wait_expect w h st) = st
  /\ (forall x, In x (ws_exp (wait_expect w h st) st) <-> In x (ws_exp w st) \/ (x = h /\ ~ In h (ws_early w st)))
  /\ ws_early (wait_expect w h st) st = ws_early w st
  /\ ws_early (wait_expect w h st) (negb st) = ws_early w (negb st).
Proof.
  intros E. unfold wait_expect. rewrite E, Bool.eqb_reflx.
  destruct (mem_nat h (ws_early w st)) eqn:M.
  - apply mem_nat_In in M. split; [auto|]. split; [|auto]. intros x. tauto.
  - assert (Hn : ~ In h (ws_early w st)) by (intros Hin; apply mem_nat_In in Hin; congruence).
    rewrite ws_stroke_set_exp, !ws_early_set_exp, ws_exp_set_exp, Bool.eqb_reflx.
    split; [auto|]. split; [|auto]. intros x. rewrite set_add_In. tauto.
Qed.

Lemma arm_same U : forall w st,
  ws_stroke w = st ->
  ws_stroke (arm w U st) = st
  /\ (forall x, In x (ws_exp (arm w U st) st) <-> In x (ws_exp w st) \/ (In x U /\ ~ In x (ws_early w st)))
  /\ ws_early (arm w U st) st = ws_early w st
  /\ ws_early (arm w U st) (negb st) = ws_early w (negb st).
Proof.
  unfold arm. induction U as [|h U IH]; intros w st E; cbn [fold_left].
  - split; [auto|]. split; [|auto]. intros x. cbn. tauto.
  - destruct (wait_expect_same w h st E) as [A [B [C D]]].
    destruct (IH (wait_expect w h st) st A) as [A' [B' [C' D']]].
    split; [auto|]. split; [|split; congruence].
    intros x. rewrite B', B, C. cbn. intuition (subst; auto).
Qed.

(* the first expect_bell of a new row switches the stroke and clears the two sets *)
Lemma arm_switch U w st :
  U <> [] -> ws_stroke w = negb st ->
  ws_stroke (arm w U st) = st
  /\ (forall x, In x (ws_exp (arm w U st) st) <-> In x U /\ ~ In x (ws_early w st))
  /\ ws_early (arm w U st) (negb st) = [].
Proof.
  intros HU E. destruct U as [|h U]; [congruence|]. unfold arm. cbn [fold_left]. fold (arm (wait_expect w h st) U st).
  set (w1 := ws_set_early (ws_set_exp (ws_set_stroke w st) st []) (negb st) []).
  assert (S1 : ws_stroke w1 = st) by (unfold w1; now rewrite ws_stroke_set_early, ws_stroke_set_exp).
  assert (X1 : ws_exp w1 st = []).
  { unfold w1. rewrite ws_exp_set_early, ws_exp_set_exp, Bool.eqb_reflx. reflexivity. }
  assert (Y1 : ws_early w1 st = ws_early w st).
  { unfold w1. rewrite ws_early_set_early, Bool.eqb_negb1. now rewrite ws_early_set_exp. }
  assert (Z1 : ws_early w1 (negb st) = []).
  { unfold w1. rewrite ws_early_set_early, Bool.eqb_reflx. reflexivity. }
  assert (W : wait_expect w h st = wait_expect w1 h st).
  { unfold wait_expect. rewrite E, S1, Bool.eqb_reflx.
    rewrite Bool.eqb_negb2. reflexivity. }
  rewrite W. destruct (wait_expect_same w1 h st S1) as [A [B [C D]]].
  destruct (arm_same U (wait_expect w1 h st) st A) as [A' [B' [C' D']]].
  split; [auto|]. split.
  - intros x. rewrite B', B, X1, C, Y1. cbn. intuition (try subst x; auto).
  - rewrite D', D. exact Z1.
Qed.

(* the row turnover preserves the invariant, PROVIDED every human bell's wait of the finished row
   had been satisfied - which is what Wheatley's ticks for those bells wait for *)
Lemma turnover_inv U b :
  U <> [] -> Inv U b ->
  (forall h, In h U -> ~ In h (ws_exp (bd_ws b) (Nat.even (bd_row b)))) ->
  Inv U (turnover b U).
Proof.
  intros HU [I1 [I2 [I3 I4]]] Hdone. unfold Inv, turnover. cbn [bd_ws bd_cnt bd_row].
  set (s := Nat.even (bd_row b)) in *. rewrite even_S'. fold s.
  assert (E : ws_stroke (bd_ws b) = negb (negb s)) by (rewrite Bool.negb_involutive; exact I1).
  destruct (arm_switch U (bd_ws b) (negb s) HU E) as [A [B C]].
  split; [exact A|]. split; [|split].
  - intros h Hh. apply I3; auto.
  - intros h Hh Hn. rewrite B in Hn.
    assert (Hin : In h (ws_early (bd_ws b) (negb s))).
    { destruct (in_dec Nat.eq_dec h (ws_early (bd_ws b) (negb s))); auto. exfalso. apply Hn. auto. }
    apply I4; auto.
  - intros h Hh Hin. rewrite C in Hin. inversion Hin.
Qed.

Lemma look_to_inv ws0 U : Inv U (look_to ws0 U).
Proof.
  unfold Inv, look_to. cbn [bd_ws bd_cnt bd_row Nat.even].
  assert (E : ws_stroke (wait_clear ws0) = true) by reflexivity.
  destruct (arm_same U (wait_clear ws0) true E) as [A [B [C D]]].
  split; [exact A|]. split; [|split].
  - intros; lia.
  - intros h Hh Hn. exfalso. apply Hn. apply B. right. split; auto.
  - intros h Hh Hin. cbn [negb] in D. change (negb true) with false in Hin. rewrite D in Hin. inversion Hin.
Qed.

(* ------------------------------------------------------------------ all histories *)
Inductive ev := ERing (h : nat) | ETurnover.

(* [ok U b e]: a turnover is only taken when the waits of the finished row are all satisfied; human
   strikes are unconstrained (any bell of U, any time, any number of times) *)
Definition ok (U : list nat) (b : band) (e : ev) : Prop :=
  match e with
  | ERing h => In h U
  | ETurnover => forall h, In h U -> ~ In h (ws_exp (bd_ws b) (Nat.even (bd_row b)))
  end.
Definition step (U : list nat) (b : band) (e : ev) : band :=
  match e with ERing h => ring b h | ETurnover => turnover b U end.

Fixpoint all_ok (U : list nat) (b : band) (es : list ev) : Prop :=
  match es with [] => True | e :: t => ok U b e /\ all_ok U (step U b e) t end.

Theorem inv_all_histories U : U <> [] -> forall es b,
  Inv U b -> all_ok U b es -> Inv U (fold_left (step U) es b).
Proof.
  intros HU. induction es as [|e es IH]; intros b HI Hok; cbn [fold_left]; [exact HI|].
  destruct Hok as [H1 H2]. apply IH; [|exact H2].
  destruct e as [h|]; cbn [step ok] in *; [apply ring_inv | apply turnover_inv]; auto.
Qed.

(* NEVER AHEAD.  In every state reachable from Look to: every human bell has struck in all previous
   rows, and a human bell that is no longer awaited in the row in progress has struck in it. *)
Theorem never_ahead U ws0 es :
  U <> [] -> all_ok U (look_to ws0 U) es ->
  let b := fold_left (step U) es (look_to ws0 U) in
  (forall h, In h U -> bd_row b <= bd_cnt b h)
  /\ (forall h, In h U -> ~ In h (ws_exp (bd_ws b) (Nat.even (bd_row b))) -> S (bd_row b) <= bd_cnt b h).
Proof.
  intros HU Hok. cbv zeta.
  destruct (inv_all_histories U HU es (look_to ws0 U) (look_to_inv ws0 U) Hok) as [_ [I2 [I3 _]]].
  split; assumption.
Qed.
