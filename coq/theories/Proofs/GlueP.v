(* What main.py's option handling (Model/Glue.v) guarantees about the configuration the Bot runs under. *)
From Wh Require Import Prelude PN PyStr Parse Glue.
From Coq Require Import NArith ZArith QArith.
Close Scope Q_scope.

Lemma console_cfg_fields c cfg : console_cfg c = Ok cfg ->
  bc_udi cfg = (cl_udi c || cl_handbell c) /\ bc_sar cfg = (cl_sar c || cl_handbell c)
  /\ bc_calls cfg = negb (cl_no_calls c) /\ bc_wait cfg = negb (cl_keep_going c)
  /\ bc_name cfg = cl_name c /\ bc_instance cfg = None
  /\ parse_peal_speed (cl_peal c) = Ok (bc_peal cfg)
  /\ bc_inertia cfg = cl_inertia c /\ bc_gap cfg = cl_gap c /\ bc_max cfg = cl_max c.
Proof.
  unfold console_cfg. destruct (parse_peal_speed (cl_peal c)) as [p|e]; cbn [bind]; [|discriminate].
  intros H. inversion H; subst; cbn. repeat split; reflexivity.
Qed.

(* the console runs exactly when the peal speed parses; otherwise the option's own error ends it *)
Lemma console_cfg_defined c : (exists cfg, console_cfg c = Ok cfg) <-> (exists p, parse_peal_speed (cl_peal c) = Ok p).
Proof.
  unfold console_cfg. destruct (parse_peal_speed (cl_peal c)) as [p|e]; cbn [bind]; split; intros [x H]; eauto; discriminate.
Qed.

Lemma waiting_unless_keep_going c cfg : console_cfg c = Ok cfg -> bc_wait cfg = negb (cl_keep_going c).
Proof. intros H. apply console_cfg_fields in H. tauto. Qed.
Lemma default_console_waits : exists cfg, console_cfg default_cli = Ok cfg /\ bc_wait cfg = true /\ bc_calls cfg = true
  /\ bc_udi cfg = false /\ bc_sar cfg = false /\ bc_peal cfg = 178%Z.
Proof. vm_compute. eexists. repeat split. Qed.
Lemma server_waits id : bc_wait (server_cfg id) = true.  Proof. reflexivity. Qed.
Lemma calls_off_flag c cfg : console_cfg c = Ok cfg -> bc_calls cfg = negb (cl_no_calls c).
Proof. intros H. apply console_cfg_fields in H. tauto. Qed.
Lemma up_down_in_flag c cfg : console_cfg c = Ok cfg -> bc_udi cfg = (cl_udi c || cl_handbell c).
Proof. intros H. apply console_cfg_fields in H. tauto. Qed.
Lemma stop_at_rounds_flag c cfg : console_cfg c = Ok cfg -> bc_sar cfg = (cl_sar c || cl_handbell c).
Proof. intros H. apply console_cfg_fields in H. tauto. Qed.
Lemma name_passed_on c cfg : console_cfg c = Ok cfg -> bc_name cfg = cl_name c /\ bc_instance cfg = None.
Proof. intros H. apply console_cfg_fields in H. tauto. Qed.
Lemma speed_and_gap_passed_on c cfg : console_cfg c = Ok cfg ->
  parse_peal_speed (cl_peal c) = Ok (bc_peal cfg) /\ bc_gap cfg = cl_gap c /\ bc_inertia cfg = cl_inertia c
  /\ bc_max cfg = cl_max c /\ bc_min cfg = Nat.min 4 (cl_max c).
Proof.
  intros H. pose proof (console_cfg_fields c cfg H) as F. unfold console_cfg in H.
  destruct (parse_peal_speed (cl_peal c)); cbn [bind] in H; [|discriminate]. inversion H; subst; cbn in *. tauto.
Qed.
Lemma server_configuration id :
  server_cfg id = {| bc_udi := true; bc_sar := true; bc_calls := true; bc_wait := true;
                     bc_name := Some uWheatley; bc_instance := id; bc_peal := 180%Z; bc_inertia := 1%Q;
                     bc_initial_inertia := 0%Q; bc_gap := 1%Q; bc_max := 15; bc_min := 4 |}.
Proof. reflexivity. Qed.
