(* Proofs about Model/Gens.v: every row a generator returns is a permutation of its start row and
   a legal change of the previous row, for every history of operations. *)
From Wh Require Import Prelude Permute PN Gens Complib PermuteP.
From Coq Require Import Permutation.

(* ------------------------------------------------------------------ helper facts *)
Lemma bind_ok {A B} (r : result A) (f : A -> result B) b :
  bind r f = Ok b -> exists a, r = Ok a /\ f a = Ok b.
Proof. destruct r as [a|e]; cbn; [eauto | discriminate]. Qed.

(* the row returned by one step of a permuting generator comes from [permute] on the current row *)
Definition permuting (g : gen) : Prop :=
  match g_kind g with GPN _ | GPlainHunt | GDixon _ _ _ => True | _ => False end.

Lemma pn_gen_row_permute c stage prev index hb hs cp r x :
  pn_gen_row c stage prev index hb hs cp = Ok (r, x) -> exists pn, permute stage pn prev = Ok r.
Proof.
  unfold pn_gen_row. destruct (length (pc_method c) =? 0); [discriminate|].
  destruct (hb && truthy _); [|destruct (hs && truthy _)].
  all: match goal with |- context [match ?l with [] => _ | _ => _ end] => destruct l as [|pn rest] end.
  all: intros H;
    repeat match goal with
           | H : bind _ _ = Ok _ |- _ => apply bind_ok in H; destruct H as [? [? H]]
           end;
    inversion H; subst; eauto.
Qed.

Lemma dixon_gen_row_permute plain bob single stage prev st hb hs r x :
  dixon_gen_row plain bob single stage prev st hb hs = Ok (r, x) -> exists pn, permute stage pn prev = Ok r.
Proof.
  unfold dixon_gen_row. intros H. apply bind_ok in H. destruct H as [leading [_ H]].
  repeat match type of H with
         | match ?o with Some _ => _ | None => _ end = _ => destruct o
         end;
    try discriminate;
    apply bind_ok in H; destruct H as [r0 [Hp H]]; inversion H; subst; eauto.
Qed.

Lemma gen_next_permute g st g' r cs :
  permuting g -> gen_next g st = Ok (g', (r, cs)) ->
  (exists pn, permute (g_stage g) pn (g_row g) = Ok r)
  /\ g_row g' = r /\ g_start_row g' = g_start_row g /\ g_stage g' = g_stage g /\ g_kind g' = g_kind g.
Proof.
  unfold permuting, gen_next. destruct (g_kind g) as [c| |p b s|l e ss|] eqn:K; try tauto; intros _ H.
  - apply bind_ok in H. destruct H as [[r0 [[hb hs] cp]] [Hg H]]. inversion H; subst. cbn.
    rewrite K. split; [eapply pn_gen_row_permute; eauto | auto].
  - apply bind_ok in H. destruct H as [r0 [Hp H]]. inversion H; subst. cbn. rewrite K. split; eauto.
  - apply bind_ok in H. destruct H as [[r0 [hb hs]] [Hg H]]. inversion H; subst. cbn. rewrite K.
    split; [eapply dixon_gen_row_permute; eauto | auto].
Qed.

(* ------------------------------------------------------------------ the invariant *)
Definition gen_inv (g : gen) : Prop :=
  Permutation (g_row g) (g_start_row g) /\ g_stage g <= length (g_start_row g).

Lemma gen_inv_len g : gen_inv g -> g_stage g <= length (g_row g).
Proof. intros [P L]. rewrite (Permutation_length P). exact L. Qed.

Lemma gen_next_inv g st g' r cs :
  permuting g -> gen_inv g -> gen_next g st = Ok (g', (r, cs)) ->
  gen_inv g' /\ permuting g' /\ Permutation r (g_start_row g) /\ legal (g_stage g) (g_row g) r.
Proof.
  intros Pg I H. destruct (gen_next_permute g st g' r cs Pg H) as [[pn Hp] [Hr [Hs [Hst Hk]]]].
  destruct (permute_legal (g_stage g) pn (g_row g) (gen_inv_len g I)) as [r' [E L]].
  rewrite Hp in E. inversion E; subst r'. destruct I as [P Ln].
  assert (PR : Permutation r (g_start_row g)).
  { eapply perm_trans; [apply Permutation_sym; eapply legal_perm; eauto | exact P]. }
  repeat split; auto.
  - unfold gen_inv. rewrite Hr, Hs. exact PR.
  - rewrite Hs, Hst. exact Ln.
  - unfold permuting. rewrite Hk. exact Pg.
Qed.

(* a permuting generator whose invariant holds never fails for lack of row length; PN generators
   with a non-empty method and plain hunt never fail at all *)
Lemma pn_gen_row_total c stage prev index hb hs cp :
  pc_method c <> [] -> stage <= length prev -> exists y, pn_gen_row c stage prev index hb hs cp = Ok y.
Proof.
  intros Hm Hl. unfold pn_gen_row.
  destruct (pc_method c) as [|m0 ms] eqn:M; [congruence|]. cbn [length Nat.eqb].
  assert (Hli : lead_index c index < length (pc_method c)).
  { unfold lead_index, zmod_nat. rewrite M. cbn [length].
    pose proof (Z.mod_pos_bound (Z.of_nat index + pc_start_index c) (Z.of_nat (S (length ms)))) as B.
    lia. }
  set (li := lead_index c index) in *.
  assert (Hn : exists pn, nth_res (pc_method c) li = Ok pn).
  { unfold nth_res. destruct (nth_error (pc_method c) li) eqn:E; eauto.
    apply nth_error_None in E. lia. }
  rewrite <- M.
  destruct (hb && truthy _); [|destruct (hs && truthy _)].
  all: match goal with |- context [match ?l with [] => _ | _ => _ end] => destruct l as [|pn rest] end.
  all: try (destruct (permute_legal stage pn prev Hl) as [r [E _]]; rewrite E; cbn; eauto).
  all: destruct Hn as [pn' Hn]; rewrite Hn; cbn;
       destruct (permute_legal stage pn' prev Hl) as [r [E _]]; rewrite E; cbn; eauto.
Qed.

Definition total_kind (g : gen) : Prop :=
  match g_kind g with GPN c => pc_method c <> [] | GPlainHunt => True | _ => False end.

Lemma gen_next_total g st :
  total_kind g -> gen_inv g -> exists y, gen_next g st = Ok y.
Proof.
  unfold total_kind, gen_next. intros T I. pose proof (gen_inv_len g I) as L.
  destruct (g_kind g) as [c| | | |]; try tauto.
  - destruct (pn_gen_row_total c (g_stage g) (g_row g) (g_index g) (g_has_bob g) (g_has_single g)
                (g_call_pn g) T L) as [[r [[hb hs] cp]] E].
    rewrite E. cbn. eauto.
  - destruct (permute_legal (g_stage g) (if st then [] else [1; g_stage g]) (g_row g) L) as [r [E _]].
    rewrite E. cbn. eauto.
Qed.

(* operations other than Next keep everything relevant *)
Lemma gen_inv_set_bob g : gen_inv g -> gen_inv (gen_set_bob g).  Proof. auto. Qed.
Lemma gen_inv_set_single g : gen_inv g -> gen_inv (gen_set_single g).  Proof. auto. Qed.
Lemma gen_inv_reset g : g_stage g <= length (g_start_row g) -> gen_inv (gen_reset g).
Proof. intros L. split; [apply Permutation_refl | exact L]. Qed.

(* ------------------------------------------------------------------ all histories *)
Theorem gen_run_rows_perm : forall ops g,
  permuting g -> gen_inv g ->
  Forall (fun rc => Permutation (fst rc) (g_start_row g)) (fst (gen_run g ops)).
Proof.
  induction ops as [|op ops IH]; intros g Pg I; cbn [gen_run]; [constructor|].
  destruct op as [| | |st].
  - apply (IH (gen_set_bob g)); auto.
  - apply (IH (gen_set_single g)); auto.
  - apply (IH (gen_reset g)); [exact Pg | apply gen_inv_reset; apply I].
  - destruct (gen_next g st) as [[g' [r cs]]|e] eqn:E; [|constructor].
    destruct (gen_next_inv g st g' r cs Pg I E) as [I' [Pg' [PR _]]].
    destruct (gen_next_permute g st g' r cs Pg E) as [_ [_ [Hs _]]].
    specialize (IH g' Pg' I'). destruct (gen_run g' ops) as [rs ex]. cbn [fst] in *.
    constructor; [exact PR|]. rewrite Hs in IH. exact IH.
Qed.

(* consecutive rows of one touch are legal changes of one another (C03), for every history.
   [gen_run_pairs] lists (row before, row after) for every Next of the history. *)
Fixpoint gen_run_pairs (g : gen) (ops : list gen_op) : list (row * row) :=
  match ops with
  | [] => []
  | OpBob :: t => gen_run_pairs (gen_set_bob g) t
  | OpSingle :: t => gen_run_pairs (gen_set_single g) t
  | OpReset :: t => gen_run_pairs (gen_reset g) t
  | OpNext st :: t =>
      match gen_next g st with
      | Ok (g', (r, _)) => (g_row g, r) :: gen_run_pairs g' t
      | Err _ => []
      end
  end.

Theorem gen_changes_legal : forall ops g,
  permuting g -> gen_inv g ->
  Forall (fun p => legal (g_stage g) (fst p) (snd p)) (gen_run_pairs g ops).
Proof.
  induction ops as [|op ops IH]; intros g Pg I; cbn [gen_run_pairs]; [constructor|].
  destruct op as [| | |st].
  - apply (IH (gen_set_bob g)); auto.
  - apply (IH (gen_set_single g)); auto.
  - apply (IH (gen_reset g)); [exact Pg | apply gen_inv_reset; apply I].
  - destruct (gen_next g st) as [[g' [r cs]]|e] eqn:E; [|constructor].
    destruct (gen_next_inv g st g' r cs Pg I E) as [I' [Pg' [_ L]]].
    destruct (gen_next_permute g st g' r cs Pg E) as [_ [_ [_ [Hst _]]]].
    constructor; [exact L|]. rewrite <- Hst. apply IH; auto.
Qed.

(* ------------------------------------------------------------------ constructors establish the invariant *)
Lemma mem_nat_In x l : mem_nat x l = true <-> In x l.
Proof.
  unfold mem_nat. rewrite existsb_exists. split.
  - intros [y [Hy E]]. apply Nat.eqb_eq in E. now subst.
  - intros H. exists x. split; [exact H | apply Nat.eqb_refl].
Qed.

Lemma has_dup_false_NoDup l : has_dup l = false -> NoDup l.
Proof.
  induction l as [|x l IH]; cbn; intros H; [constructor|].
  apply Bool.orb_false_iff in H. destruct H as [H1 H2]. constructor; [|auto].
  intros Hin. apply mem_nat_In in Hin. congruence.
Qed.

Lemma NoDup_snoc (l : list nat) c : NoDup l -> ~ In c l -> NoDup (l ++ [c]).
Proof.
  induction l as [|x l IH]; cbn; intros ND Hn.
  - constructor; [intros []|constructor].
  - inversion ND; subst. constructor.
    + rewrite in_app_iff. intros [H|[H|[]]]; [contradiction | subst; apply Hn; now left].
    + apply IH; auto.
Qed.

Lemma add_missing_spec cands : forall r,
  NoDup r -> NoDup (add_missing cands r) /\ incl r (add_missing cands r)
             /\ incl cands (add_missing cands r)
             /\ (forall x, In x (add_missing cands r) -> In x r \/ In x cands).
Proof.
  induction cands as [|c cands IH]; intros r ND; cbn [add_missing].
  - repeat split; auto using incl_refl. intros x Hx; inversion Hx.
  - destruct (mem_nat c r) eqn:M.
    + destruct (IH r ND) as [A [B [C D]]]. repeat split; auto.
      * intros x [->|Hx]; [apply B; now apply mem_nat_In | now apply C].
      * intros x Hx. destruct (D x Hx); auto. right; now right.
    + assert (ND' : NoDup (r ++ [c])).
      { apply NoDup_snoc; auto. intros Hx. apply mem_nat_In in Hx. congruence. }
      destruct (IH (r ++ [c]) ND') as [A [B [C D]]]. repeat split; auto.
      * intros x Hx. apply B. apply in_or_app. now left.
      * intros x [->|Hx]; [apply B; apply in_or_app; right; now left | now apply C].
      * intros x Hx. destruct (D x Hx) as [H|H]; [|right; now right].
        apply in_app_or in H. destruct H as [H|[->|[]]]; [now left | right; now left].
Qed.

Lemma seq1_In n x : In x (seq1 n) <-> 1 <= x <= n.
Proof.
  induction n as [|n IH]; cbn; [lia|]. rewrite in_app_iff, IH. cbn. lia.
Qed.
Lemma seq1_length n : length (seq1 n) = n.
Proof. induction n as [|n IH]; cbn; [reflexivity|]. rewrite app_length, IH. cbn. lia. Qed.
Lemma seq1_NoDup n : NoDup (seq1 n).
Proof.
  induction n as [|n IH]; cbn; [constructor|].
  apply NoDup_snoc; auto. intros Hx. apply seq1_In in Hx. lia.
Qed.

(* generate_starting_row: no bell twice, every tower bell present, at least n long (C01) *)
Lemma starting_row_ok n custom r :
  generate_starting_row n custom = Ok r ->
  NoDup r /\ (forall b, 1 <= b <= n -> In b r) /\ n <= length r.
Proof.
  unfold generate_starting_row, rounds. destruct custom as [[c|]|].
  - destruct (has_dup c) eqn:D; [discriminate|]. destruct (n <=? MAX_BELL); [|discriminate].
    intros H. inversion H; subst. clear H.
    destruct (add_missing_spec (seq1 n) c (has_dup_false_NoDup c D)) as [A [B [C _]]].
    repeat split; auto.
    + intros b Hb. apply C. now apply seq1_In.
    + rewrite <- (seq1_length n) at 1. apply NoDup_incl_length; [apply seq1_NoDup | exact C].
  - discriminate.
  - destruct (n <=? MAX_BELL); [|discriminate]. intros H. inversion H; subst.
    repeat split; [apply seq1_NoDup | intros b Hb; now apply seq1_In | rewrite seq1_length; lia].
Qed.

Lemma mk_pn_gen_inv stage m b s si custom g :
  mk_pn_gen stage m b s si custom = Ok g -> gen_inv g /\ permuting g.
Proof.
  unfold mk_pn_gen. intros H.
  repeat (apply bind_ok in H; destruct H as [? [? H]]).
  inversion H; subst. unfold gen_inv, permuting. cbn. repeat split; auto.
  match goal with E : generate_starting_row _ _ = Ok _ |- _ => apply starting_row_ok in E; apply E end.
Qed.

Lemma mk_plain_hunt_inv stage custom g :
  mk_plain_hunt stage custom = Ok g -> gen_inv g /\ permuting g /\ total_kind g.
Proof.
  unfold mk_plain_hunt, base_init. intros H. apply bind_ok in H. destruct H as [st [E H]].
  inversion H; subst. unfold gen_inv, permuting, total_kind. cbn. repeat split; auto.
  apply starting_row_ok in E. apply E.
Qed.

Lemma mk_dixon_inv stage p b s custom g :
  mk_dixon stage p b s custom = Ok g -> gen_inv g /\ permuting g.
Proof.
  unfold mk_dixon. intros H. repeat (apply bind_ok in H; destruct H as [? [? H]]).
  inversion H; subst. unfold gen_inv, permuting. cbn. repeat split; auto.
  match goal with E : generate_starting_row _ _ = Ok _ |- _ => apply starting_row_ok in E; apply E end.
Qed.

(* ------------------------------------------------------------------ C05: a reset generator is a fresh one *)
Theorem reset_is_fresh g :
  gen_reset g = mk_gen (g_kind g) (g_stage g) (g_custom g) (g_start_row g).
Proof. reflexivity. Qed.

(* every constructor returns [mk_gen ...]: so after ANY history, reset gives back exactly the
   generator the constructor returned *)
Lemma set_state_static g i r hb hs cp :
  g_kind (set_state g i r hb hs cp) = g_kind g /\ g_stage (set_state g i r hb hs cp) = g_stage g
  /\ g_custom (set_state g i r hb hs cp) = g_custom g
  /\ g_start_row (set_state g i r hb hs cp) = g_start_row g.
Proof. cbn. auto. Qed.

Definition static_eq (a b : gen) : Prop :=
  g_kind a = g_kind b /\ g_stage a = g_stage b /\ g_custom a = g_custom b /\ g_start_row a = g_start_row b.

Lemma gen_next_static g st g' rc : gen_next g st = Ok (g', rc) -> static_eq g' g.
Proof.
  unfold gen_next, static_eq. destruct (g_kind g) as [c| |p b s|l e ss|] eqn:K; intros H.
  - apply bind_ok in H. destruct H as [[r [[hb hs] cp]] [_ H]]. inversion H; subst. cbn. auto.
  - apply bind_ok in H. destruct H as [r [_ H]]. inversion H; subst. cbn. auto.
  - apply bind_ok in H. destruct H as [[r [hb hs]] [_ H]]. inversion H; subst. cbn. auto.
  - destruct (nth_error l (g_index g)) as [[r cs]|].
    + inversion H; subst. cbn. auto.
    + apply bind_ok in H. destruct H as [r [_ H]]. inversion H; subst. cbn. auto.
  - discriminate.
Qed.

(* the generator state after a history *)
Fixpoint gen_after (g : gen) (ops : list gen_op) : gen :=
  match ops with
  | [] => g
  | OpBob :: t => gen_after (gen_set_bob g) t
  | OpSingle :: t => gen_after (gen_set_single g) t
  | OpReset :: t => gen_after (gen_reset g) t
  | OpNext st :: t => match gen_next g st with Ok (g', _) => gen_after g' t | Err _ => g end
  end.

Lemma gen_after_static : forall ops g, static_eq (gen_after g ops) g.
Proof.
  induction ops as [|op ops IH]; intros g; cbn [gen_after]; [unfold static_eq; auto|].
  destruct op as [| | |st].
  - destruct (IH (gen_set_bob g)) as [A [B [C D]]]. unfold static_eq. cbn in *. auto.
  - destruct (IH (gen_set_single g)) as [A [B [C D]]]. unfold static_eq. cbn in *. auto.
  - destruct (IH (gen_reset g)) as [A [B [C D]]]. unfold static_eq. cbn in *. auto.
  - destruct (gen_next g st) as [[g' rc]|e] eqn:E; [|unfold static_eq; auto].
    destruct (IH g') as [A [B [C D]]]. destruct (gen_next_static g st g' rc E) as [A' [B' [C' D']]].
    unfold static_eq. repeat split; congruence.
Qed.

Definition fresh (g : gen) : Prop := g = mk_gen (g_kind g) (g_stage g) (g_custom g) (g_start_row g).

(* Whatever happened before - calls pending, a multi-change call half rung, any position in the
   course - a reset generator is the freshly constructed one, hence rings what it would ring. *)
Theorem reset_after_any_history_is_fresh : forall g0 ops,
  fresh g0 -> gen_reset (gen_after g0 ops) = g0.
Proof.
  intros g0 ops F. rewrite reset_is_fresh.
  destruct (gen_after_static ops g0) as [A [B [C D]]]. rewrite A, B, C, D. symmetry. exact F.
Qed.

Corollary second_touch_rows_equal : forall g0 ops1 ops2,
  fresh g0 -> gen_run (gen_reset (gen_after g0 ops1)) ops2 = gen_run g0 ops2.
Proof. intros. now rewrite reset_after_any_history_is_fresh. Qed.
