(* C12, first clause, on the model's own _add_data_point: with inertia 0 the line Wheatley rings to
   after a regression IS the humans' line (exact instance, r_round = false). *)
From Wh Require Import Prelude Permute PN Gens Rhythm RegressP DetP.
From Coq Require Import NArith ZArith QArith Qreduction Qfield Lra Lqa.
From RecordUpdate Require Import RecordSet.
Import RecordSetNotations.
Local Open Scope Q_scope.

Definition same_cfg (r r' : regr) : Prop :=
  r_pref_inertia r' = r_pref_inertia r /\ r_init_inertia r' = r_init_inertia r /\ r_min r' = r_min r
  /\ r_max r' = r_max r /\ r_round r' = r_round r /\ r_start r' = r_start r /\ r_interval r' = r_interval r.

Lemma note_margin_fold_cfg (l : list datapoint) r :
  same_cfg r (fold_left (fun r' p => note_margin r' (qsub (snd p) WEIGHT_REJECTION_THRESHOLD)) l r).
Proof.
  revert r. induction l as [|p l IH]; intros r; cbn [fold_left]; [repeat split|].
  destruct (IH (note_margin r (qsub (snd p) WEIGHT_REJECTION_THRESHOLD))) as [A [B [C [D [E [F G]]]]]].
  unfold same_cfg. rewrite A, B, C, D, E, F, G. repeat split.
Qed.

Lemma Qeqb_zero_not_one q : q == 0 -> Qeqb q 1 = false.
Proof.
  intros H. unfold Qeqb. destruct (Qeq_bool q 1) eqn:E; [|reflexivity].
  apply Qeq_bool_iff in E. rewrite H in E. discriminate.
Qed.

Local Opaque lerp.

(* what _add_data_point leaves in start/interval when the regression runs with inertia 0 *)
Theorem one_regression_contracts r row place t w r' a b x1 y1 w1 x2 y2 w2 s :
  r_round r = false ->
  Qeqb (if (0 <? row)%nat then r_pref_inertia r else r_init_inertia r) 1 = false ->
  r_start r = Some s ->
  add_data_point r row place t w = Ok r' ->
  (r_min r <= length (r_data r'))%nat ->
  Forall (on_line a b) (r_data r') ->
  In (x1, y1, w1) (r_data r') -> In (x2, y2, w2) (r_data r') -> ~ x1 == x2 ->
  let i := if (0 <? row)%nat then r_pref_inertia r else r_init_inertia r in
  exists s', r_start r' = Some s' /\ s' - a == i * (s - a) /\ r_interval r' - b == i * (r_interval r - b).
Proof.
  intros Hround Hin Hst Hadd.
  pose proof (add_data_point_keeps_heavy _ _ _ _ _ _ Hadd) as Hheavy.
  revert Hadd. unfold add_data_point. cbv zeta.
  set (d1 := r_data r ++ _).
  match goal with |- context [fold_left ?f d1 r] => set (rr := fold_left f d1 r) end.
  match goal with |- context [filter ?f d1] => set (d2 := filter f d1) end.
  destruct (note_margin_fold_cfg d1 r) as [Ep [Ei [Emin [Emax [Ernd [Est Eiv]]]]]]. fold rr in Ep, Ei, Emin, Emax, Ernd, Est, Eiv.
  rewrite Ep, Ei, Emin, Ernd, Est, Eiv. rewrite Hround, Hst. clearbody rr. clear Ep Ei Emin Emax Ernd Est Eiv.
  set (inertia := if (0 <? row)%nat then r_pref_inertia r else r_init_inertia r) in *.
  rewrite Hin.
  assert (Main : forall d3,
    (if (r_min r <=? length d3)%nat
     then match calculate_regression d3 with
          | Some (ns0, ni0) =>
              Ok (upd rr (Some (qround false (lerp (qround false ns0) s inertia)))
                     (qround false (lerp (qround false ni0) (r_interval r) inertia)) d3)
          | None => Ok (note_unsupported (upd rr (Some s) (r_interval r) d3))
          end
     else Ok (upd rr (Some s) (r_interval r) d3)) = Ok r' ->
    (r_min r <= length (r_data r'))%nat -> Forall (on_line a b) (r_data r') -> Forall heavy (r_data r') ->
    In (x1, y1, w1) (r_data r') -> In (x2, y2, w2) (r_data r') -> ~ x1 == x2 ->
    exists s', r_start r' = Some s' /\ s' - a == inertia * (s - a) /\ r_interval r' - b == inertia * (r_interval r - b)).
  { intros d3 H Hlen Hl Hh H1 H2 Hx.
    assert (Ed : r_data r' = d3).
    { destruct (r_min r <=? length d3)%nat; [destruct (calculate_regression d3) as [[? ?]|]|]; inversion H; reflexivity. }
    rewrite Ed in *.
    destruct (Nat.leb_spec (r_min r) (length d3)) as [_|Hlt]; [|lia].
    destruct (heavy_regression_defined d3 x1 y1 w1 x2 y2 w2 Hh H1 H2 Hx) as [ns0 [ni0 ER]].
    rewrite ER in H. destruct (collinear_recovery a b d3 ns0 ni0 Hl ER) as [Ea Eb].
    inversion H; subst r'. unfold upd. cbn. eexists. split; [reflexivity|].
    split.
    - rewrite lerp_eq, Ea. ring.
    - rewrite lerp_eq, Eb. ring. }
  destruct (r_max rr <=? length d2)%nat.
  - destruct d2 as [|p d2']; cbn [bind]; [discriminate|]. intros H Hlen Hl H1 H2 Hx. eapply Main; eauto.
  - cbn [bind]. intros H Hlen Hl H1 H2 Hx. eapply Main; eauto.
Qed.

(* inertia 0: after that regression Wheatley's line IS the humans' line *)
Corollary inertia_zero_lands_on_the_line r row place t w r' a b x1 y1 w1 x2 y2 w2 s :
  r_round r = false ->
  (if (0 <? row)%nat then r_pref_inertia r else r_init_inertia r) == 0 ->
  r_start r = Some s ->
  add_data_point r row place t w = Ok r' ->
  (r_min r <= length (r_data r'))%nat ->
  Forall (on_line a b) (r_data r') ->
  In (x1, y1, w1) (r_data r') -> In (x2, y2, w2) (r_data r') -> ~ x1 == x2 ->
  exists s', r_start r' = Some s' /\ s' == a /\ r_interval r' == b.
Proof.
  intros Hround Hin Hst Hadd Hlen Hl H1 H2 Hx.
  destruct (one_regression_contracts r row place t w r' a b x1 y1 w1 x2 y2 w2 s Hround (Qeqb_zero_not_one _ Hin) Hst Hadd Hlen Hl H1 H2 Hx)
    as [s' [E [A B]]].
  exists s'. split; [exact E|]. cbv zeta in A, B. rewrite Hin in A, B. split; lra.
Qed.

(* non-vacuity: a rhythm whose line is (0, 1/3), three human strikes on the line (10, 3/10) in the data,
   the fourth arrives in row 1; inertia 0: the new line is (10, 3/10) *)
Definition demo_regr : regr :=
  (regr_init 0 0 180 1 4 15) <| r_round := false |> <| r_stage := 6%nat |> <| r_interval := 1 # 3 |>
    <| r_data := [(1, 103 # 10, 1); (3, 109 # 10, 1); (5, 115 # 10, 1)] |>.
Example one_regression_nonvacuous :
  match add_data_point demo_regr 1 1 (121 # 10) 1 with
  | Ok r' => (r_min demo_regr <= length (r_data r'))%nat /\ Forall (on_line 10 (3 # 10)) (r_data r')
             /\ r_start r' = Some 10 /\ r_interval r' = 3 # 10
  | Err _ => False
  end.
Proof.
  vm_compute. split; [repeat constructor|]. split; [|split; reflexivity].
  repeat (constructor; [reflexivity|]). constructor.
Qed.
