(* C16: compositions are rung row for row and called call for call. *)
From Wh Require Import Prelude Permute PN Gens Complib Tower Rhythm PyStr Sys GensP BotP.
From Coq Require Import NArith ZArith QArith Sorting.Sorted Permutation.
Close Scope Q_scope.

Definition is_complib (g : gen) loaded early ss : Prop := g_kind g = GComplib loaded early ss.

(* the i-th row asked of a composition generator is the i-th loaded row with its calls; rounds
   (without calls) once the composition is exhausted *)
Lemma complib_next g loaded early ss st :
  is_complib g loaded early ss ->
  gen_next g st =
  match nth_error loaded (g_index g) with
  | Some (r, cs) => Ok (set_state g (S (g_index g)) r (g_has_bob g) (g_has_single g) (g_call_pn g), (r, cs))
  | None => do r <- rounds (g_stage g) ;;
            Ok (set_state g (S (g_index g)) r (g_has_bob g) (g_has_single g) (g_call_pn g), (r, []))
  end.
Proof. intros K. unfold gen_next. rewrite K. destruct (nth_error loaded (g_index g)) as [[r cs]|]; reflexivity. Qed.

Theorem comp_rows_in_order : forall strokes g loaded early ss rd,
  is_complib g loaded early ss -> rounds (g_stage g) = Ok rd ->
  fst (gen_run g (map OpNext strokes)) =
  map (fun i => nth i loaded (rd, [])) (seq (g_index g) (length strokes)).
Proof.
  induction strokes as [|st strokes IH]; intros g loaded early ss rd K R; cbn [map gen_run length seq]; [reflexivity|].
  rewrite (complib_next g loaded early ss st K), R. cbn [bind].
  destruct (nth_error loaded (g_index g)) as [[r cs]|] eqn:E.
  - set (g' := set_state g _ r _ _ _).
    specialize (IH g' loaded early ss rd K R).
    destruct (gen_run g' (map OpNext strokes)) as [rs ex]. cbn [fst] in *. rewrite IH.
    f_equal. symmetry. apply nth_error_nth with (d := (rd, [])) in E. exact E.
  - set (g' := set_state g _ rd _ _ _).
    specialize (IH g' loaded early ss rd K R).
    destruct (gen_run g' (map OpNext strokes)) as [rs ex]. cbn [fst] in *. rewrite IH.
    f_equal. apply nth_error_None in E. symmetry. now apply nth_overflow.
Qed.

(* 'Stand' never survives the constructor *)
Theorem never_stand_from_comp s c : In c (calls_of s) -> ustr_eqb c uStand = false.
Proof.
  unfold calls_of. destruct s as [|x s]; [intros []|].
  unfold process_call_string. intros H. apply filter_In in H. destruct H as [_ H].
  now apply Bool.negb_true_iff in H.
Qed.

(* the calls of the i-th opening row (0-based) are filed under "n - i rows before the start" *)
Lemma early_calls_of_spec n : forall rows i k cs,
  dict_get Z.eqb (early_calls_of n i rows) k = Some cs ->
  exists j r, nth_error rows j = Some (r, cs) /\ cs <> [] /\ k = Z.of_nat (n - (i + j)).
Proof.
  induction rows as [|[r0 c0] rows IH]; intros i k cs; cbn [early_calls_of dict_get]; [discriminate|].
  destruct c0 as [|c c0].
  - intros H. destruct (IH (S i) k cs H) as [j [r [A [B C]]]]. exists (S j), r. cbn. repeat split; auto. lia.
  - cbn [dict_get]. destruct (Z.eqb_spec (Z.of_nat (n - i)) k) as [<-|Hn].
    + intros H. inversion H; subst. exists 0, r0. cbn. repeat split; [discriminate | f_equal; lia].
    + intros H. destruct (IH (S i) k cs H) as [j [r [A [B C]]]]. exists (S j), r. cbn. repeat split; auto. lia.
Qed.

(* with calls switched off nothing is ever called *)
Theorem calls_off_silent w cs : b_call_comps (w_bot w) = false -> make_calls w cs = w.
Proof.
  intros H. unfold make_calls. induction cs as [|c cs IH]; cbn [fold_left]; [reflexivity|].
  unfold make_call at 2. rewrite H. exact IH.
Qed.

(* a late Go flushes the missed early calls in decreasing "rows before the start", i.e. in the order
   they should have been called *)
Lemma insert_desc_sorted x l :
  StronglySorted (fun a b => (fst b <= fst a)%Z) l -> StronglySorted (fun a b => (fst b <= fst a)%Z) (insert_desc x l).
Proof.
  induction l as [|y l IH]; cbn; intros S.
  - constructor; constructor.
  - inversion S as [|? ? S' F]; subst. destruct (Z.ltb_spec (fst y) (fst x)).
    + constructor; [exact S|]. constructor; [lia|]. eapply Forall_impl; [|exact F]. cbn. intros a Ha; lia.
    + constructor; [auto|].
      assert (G : forall l', Forall (fun b => (fst b <= fst y)%Z) l' ->
                  Forall (fun b => (fst b <= fst y)%Z) (insert_desc x l')).
      { induction l' as [|z l' IH']; cbn; intros Fz.
        - constructor; [lia|constructor].
        - inversion Fz; subst. destruct (Z.ltb_spec (fst z) (fst x)); repeat constructor; auto; try lia. }
      now apply G.
Qed.

Theorem sort_desc_sorted l : StronglySorted (fun a b => (fst b <= fst a)%Z) (sort_desc l).
Proof.
  unfold sort_desc.
  assert (G : forall l acc, StronglySorted (fun a b => (fst b <= fst a)%Z) acc ->
              StronglySorted (fun a b => (fst b <= fst a)%Z) (fold_left (fun acc x => insert_desc x acc) l acc)).
  { induction l0 as [|x l0 IH]; intros acc S; cbn [fold_left]; [exact S|]. apply IH. now apply insert_desc_sorted. }
  apply G. constructor.
Qed.

Lemma insert_desc_perm x l : Permutation (x :: l) (insert_desc x l).
Proof.
  induction l as [|y l IH]; cbn; [apply Permutation_refl|].
  destruct (fst y <? fst x)%Z; [apply Permutation_refl|].
  eapply perm_trans; [apply perm_swap|]. now apply perm_skip.
Qed.
Theorem sort_desc_perm l : Permutation l (sort_desc l).
Proof.
  unfold sort_desc.
  assert (G : forall l acc, Permutation (l ++ acc) (fold_left (fun acc x => insert_desc x acc) l acc)).
  { induction l0 as [|x l0 IH]; intros acc; cbn [fold_left app]; [apply Permutation_refl|].
    eapply perm_trans; [|apply IH]. eapply perm_trans; [apply Permutation_middle|].
    apply Permutation_app_head. apply insert_desc_perm. }
  specialize (G l []). now rewrite app_nil_r in G.
Qed.
