(* C11 / C15: the line that maps blow indices to real time, and what Wheatley does with it. *)
From Wh Require Import Prelude Permute PN Gens Rhythm RegressP.
From Coq Require Import NArith ZArith QArith Qreduction Qfield Lra Lqa.
From RecordUpdate Require Import RecordSet.
Local Open Scope Q_scope.

(* ------------------------------------------------------------------ formulas *)
Lemma blow_interval_formula m n :
  peal_speed_to_blow_interval m n == m * 60 / (2520 * (2 * Qnat n + 1)).
Proof.
  unfold peal_speed_to_blow_interval. rewrite !qdiv_eq, qmul_eq.
  unfold Qnat. rewrite Nat2Z.inj_add, Nat2Z.inj_mul. rewrite inject_Z_plus, inject_Z_mult.
  change (inject_Z (Z.of_nat 2)) with 2. change (inject_Z (Z.of_nat 1)) with 1.
  assert (H : ~ inject_Z (Z.of_nat n) * 2 + 1 == 0).
  { assert (0 <= inject_Z (Z.of_nat n)) by (rewrite <- (Zle_Qle 0); lia). lra. }
  field. repeat split; try exact H; try lra.
Qed.

Lemma index_to_blow_time_formula r row place :
  index_to_blow_time r row place ==
  Qnat row * Qnat (r_stage r) + Qnat place + Qnat (row / 2) * r_gap r.
Proof.
  unfold index_to_blow_time. rewrite qadd_eq, qmul_eq. unfold Qnat.
  rewrite Nat2Z.inj_add, Nat2Z.inj_mul, inject_Z_plus, inject_Z_mult. reflexivity.
Qed.

(* a peal of 5040 rows at gap 1 takes exactly the requested time *)
Theorem peal_takes_requested_time m n :
  let I := peal_speed_to_blow_interval m n in
  I * (5040 * Qnat n + 2520 * 1) == m * 60.
Proof.
  cbv zeta. rewrite blow_interval_formula.
  assert (0 <= Qnat n) by (unfold Qnat; rewrite <- (Zle_Qle 0); lia).
  field. lra.
Qed.

(* consecutive blows are one interval apart, except that a handstroke lead is opened by the gap *)
Lemma blow_step_in_row r row place :
  index_to_blow_time r row (S place) - index_to_blow_time r row place == 1.
Proof.
  rewrite !index_to_blow_time_formula. unfold Qnat. rewrite Nat2Z.inj_succ, <- Z.add_1_r, inject_Z_plus.
  change (inject_Z 1) with 1. ring.
Qed.
Lemma blow_step_turnover r row :
  index_to_blow_time r (S row) 0 - index_to_blow_time r row (r_stage r)
  == (if Nat.even (S row) then r_gap r else 0).
Proof.
  rewrite !index_to_blow_time_formula. unfold Qnat.
  rewrite (Nat2Z.inj_succ row), <- Z.add_1_r, inject_Z_plus. change (inject_Z 1) with 1.
  destruct (Nat.even (S row)) eqn:E.
  - apply Nat.even_spec in E. destruct E as [k Hk].
    assert (H1 : (S row / 2 = k)%nat) by (rewrite Hk, Nat.mul_comm; apply Nat.div_mul; lia).
    assert (H2 : (row / 2 = k - 1)%nat).
    { assert (row = 1 + (k - 1) * 2)%nat by lia. rewrite H. rewrite Nat.div_add by lia. reflexivity. }
    rewrite H1, H2. assert (1 <= k)%nat by lia.
    rewrite (Nat2Z.inj_sub k 1) by lia. rewrite <- Z.add_opp_r, inject_Z_plus.
    change (inject_Z (- Z.of_nat 1)) with (-1). change (inject_Z (Z.of_nat 0)) with 0. ring.
  - assert (Hodd : Nat.odd (S row) = true) by (rewrite <- Nat.negb_even, E; reflexivity).
    apply Nat.odd_spec in Hodd. destruct Hodd as [k Hk].
    assert (H1 : (S row / 2 = k)%nat).
    { rewrite Hk. replace (2 * k + 1)%nat with (1 + k * 2)%nat by lia. rewrite Nat.div_add by lia. reflexivity. }
    assert (H2 : (row / 2 = k)%nat).
    { assert (row = k * 2)%nat by lia. rewrite H. apply Nat.div_mul. lia. }
    rewrite H1, H2. change (inject_Z (Z.of_nat 0)) with 0. ring.
Qed.

(* ------------------------------------------------------------------ C11: no accumulation *)
(* Wheatley alone.  bt k is the scheduled instant of the k-th blow (any increasing schedule whose
   steps exceed the 10 ms pause), b0 the instant the first tick begins.  Each tick sleeps until its
   scheduled instant if that is still ahead, else 10 ms; the next tick begins 10 ms after the
   strike.  Then EVERY strike is at exactly its scheduled instant: timing error never accumulates. *)
Section Alone.
  Variable bt : nat -> Q.
  Variable pause : Q.
  Hypothesis pause_pos : 0 < pause.
  Hypothesis steps : forall k, pause < bt (S k) - bt k.

  Fixpoint begin_ (b0 : Q) (k : nat) : Q :=
    match k with
    | O => b0
    | S k' => (if Qlt_le_dec (begin_ b0 k') (bt k') then bt k' else begin_ b0 k' + pause) + pause
    end.
  Definition strike (b0 : Q) (k : nat) : Q :=
    if Qlt_le_dec (begin_ b0 k) (bt k) then bt k else begin_ b0 k + pause.

  Theorem no_accumulation b0 : b0 < bt 0%nat -> forall k, strike b0 k == bt k /\ begin_ b0 k < bt k.
  Proof.
    intros H0. induction k as [|k [IH1 IH2]].
    - unfold strike. cbn. destruct (Qlt_le_dec b0 (bt 0%nat)); [split; [reflexivity|assumption] | lra].
    - assert (B : begin_ b0 (S k) < bt (S k)).
      { cbn [begin_]. destruct (Qlt_le_dec (begin_ b0 k) (bt k)); [|lra]. specialize (steps k). lra. }
      split; [|exact B]. unfold strike. destruct (Qlt_le_dec (begin_ b0 (S k)) (bt (S k))); [reflexivity|lra].
  Qed.
End Alone.

(* what RegressionRhythm.wait_for_bell_time decides when the line is set and the blow is ahead *)
Theorem wait_plan_on_time r ct row place uc s :
  r_start r = Some s -> Qeqb s 0 = false ->
  Qltb ct (qadd s (qmul (r_interval r) (index_to_blow_time r row place))) = true ->
  exists m, regr_wait_plan r ct row place uc =
            WSleep (qsub (qadd s (qmul (r_interval r) (index_to_blow_time r row place))) ct) m.
Proof.
  intros Hs Hz Hlt. unfold regr_wait_plan. rewrite Hs, Hz, Hlt. eauto.
Qed.
(* ... so that the strike is emitted at s + I * blow exactly *)
Lemma sleep_lands_on_time ct bt : ct <= bt -> qadd ct (qmax (qsub bt ct) 0) == bt.
Proof.
  intros H. rewrite qadd_eq. unfold qmax. destruct (Qle_bool (qsub bt ct) 0) eqn:E.
  - apply Qle_bool_iff in E. rewrite qsub_eq in E. lra.
  - rewrite qsub_eq. ring.
Qed.

(* ------------------------------------------------------------------ C15: the pull-off *)
Lemma add_first_point r t d3 :
  (1 < r_min r)%nat -> (1 < r_max r)%nat -> r_data r = [] ->
  add_data_point r 0 0 t 1 = Ok d3 ->
  r_start d3 = r_start r /\ r_interval d3 = r_interval r.
Proof.
  intros Hmin Hmax Hd. unfold add_data_point. rewrite Hd. cbn [app fold_left filter snd].
  set (r1 := note_margin r _).
  change (Qltb WEIGHT_REJECTION_THRESHOLD 1) with true. cbn [length].
  assert (M : (r_max r1 <=? 1)%nat = false) by (apply Nat.leb_gt; exact Hmax).
  rewrite M. cbn [bind Nat.ltb Nat.leb length].
  destruct (Qeqb (r_init_inertia r1) 1); [intros H; inversion H; subst; cbn; auto|].
  assert (N : (r_min r1 <=? 1)%nat = false) by (apply Nat.leb_gt; exact Hmin).
  rewrite N. intros H; inversion H; subst; cbn; auto.
Qed.

(* Wheatley rings the first bell of the opening row: the line is anchored at Look to + 3 s
   (start_time is call_time + 3) with the configured interval *)
Theorem bot_leads_line r stage t r' :
  (1 < r_min r)%nat -> (1 < r_max r)%nat ->
  regr_initialise_line r stage false t = Ok r' ->
  r_start r' = Some t /\ r_interval r' = peal_speed_to_blow_interval (r_peal_speed r) stage.
Proof.
  intros Hmin Hmax. unfold regr_initialise_line. cbn [negb].
  set (r1 := upd _ _ _ []).
  destruct (add_data_point r1 0 0 t 1) as [r2|e] eqn:E; cbn [bind]; [|discriminate].
  intros H. inversion H; subst. cbn. split; [reflexivity|].
  destruct (add_first_point r1 t r2 Hmin Hmax eq_refl E) as [_ B]. rewrite B. reflexivity.
Qed.

(* a human rings it: the line is at infinity ... *)
Theorem human_leads_line r stage t r' :
  regr_initialise_line r stage true t = Ok r' ->
  r_start r' = None /\ r_interval r' = peal_speed_to_blow_interval (r_peal_speed r) stage.
Proof. unfold regr_initialise_line. intros H. inversion H; subst. cbn. auto. Qed.

(* ... a tick for a human bell then polls for the pull-off instead of sleeping towards a time ... *)
Theorem human_leads_polls r ct row place :
  r_start r = None -> regr_wait_plan r ct row place true = WPollPullOff.
Proof. intros H. unfold regr_wait_plan. now rewrite H. Qed.

Lemma fold_margin_start (l : list datapoint) : forall r0 : regr,
  r_start (fold_left (fun r' p => note_margin r' (qsub (snd p) WEIGHT_REJECTION_THRESHOLD)) l r0) = r_start r0.
Proof. induction l as [|p l IH]; intros r0; cbn [fold_left]; [reflexivity|]. now rewrite IH. Qed.

(* adding a data point never moves the line to or from infinity *)
Lemma add_data_point_finiteness r row place t w r' :
  add_data_point r row place t w = Ok r' ->
  (r_start r = None -> r_start r' = None) /\ (r_start r <> None -> r_start r' <> None).
Proof.
  unfold add_data_point. set (rr := fold_left _ _ r).
  assert (Hrr : r_start rr = r_start r) by (unfold rr; apply fold_margin_start).
  destruct (if (r_max rr <=? _)%nat then _ else _) as [d3|e]; cbn [bind]; [|discriminate].
  destruct (Qeqb _ 1).
  { intros H; inversion H; subst; cbn. rewrite Hrr. auto. }
  destruct (r_min rr <=? length d3)%nat.
  2:{ intros H; inversion H; subst; cbn. rewrite Hrr. auto. }
  destruct (calculate_regression d3) as [[ns ni]|].
  2:{ intros H; inversion H; subst; cbn. rewrite Hrr. auto. }
  destruct (r_start rr) as [s|] eqn:Es.
  - intros H; inversion H; subst; cbn. rewrite <- Hrr. split; [discriminate | intros _; discriminate].
  - destruct (Qeqb _ 0); intros H; inversion H; subst; cbn; rewrite <- Hrr; split; auto.
Qed.

(* ... and ONLY the strike of the bell expected at blow time 0 (row 0, place 0) brings the line back
   from infinity, anchoring it at that strike's actual time. *)
Theorem start_stays_infinite_until_leader r bell st t r' :
  r_start r = None -> regr_on_bell_ring r bell st t = Ok r' ->
  match dict_get key_eqb (r_expected r) (bell, st) with
  | None => r_start r' = None
  | Some (row, place) =>
      if Qeqb (index_to_blow_time r row place) 0 then r_start r' <> None else r_start r' = None
  end.
Proof.
  intros Hs. unfold regr_on_bell_ring.
  destruct (dict_get key_eqb (r_expected r) (bell, st)) as [[row place]|]; [|intros H; inversion H; subst; auto].
  destruct (Qeqb (r_interval r) 0); [discriminate|].
  rewrite Hs.
  destruct (Qeqb (index_to_blow_time r row place) 0) eqn:Z.
  - set (r1 := upd r (Some t) _ _).
    destruct (add_data_point r1 row place t _) as [r2|e] eqn:A; cbn [bind]; [|discriminate].
    intros H. inversion H; subst. cbn.
    destruct (add_data_point_finiteness _ _ _ _ _ _ A) as [_ B]. apply B. cbn. discriminate.
  - destruct (add_data_point r row place t _) as [r2|e] eqn:A; cbn [bind]; [|discriminate].
    intros H. inversion H; subst. cbn.
    destruct (add_data_point_finiteness _ _ _ _ _ _ A) as [B _]. apply B. exact Hs.
Qed.
