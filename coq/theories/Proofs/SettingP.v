(* C15 / C19: a peal-speed setting that arrives while everybody is still waiting for a human leader to pull off.
   The line has no start yet (`_start_time == inf`): the new speed is adopted, the line stays at infinity, and a
   human bell's tick goes on polling for the pull-off - nothing can be struck before the leader. *)
From Wh Require Import Prelude Permute PN Gens Rhythm RegressP.
From Coq Require Import NArith ZArith QArith Lia.
Local Open Scope Q_scope.

Theorem speed_change_before_pull_off r p t r' :
  r_start r = None -> ~ r_interval r == 0 -> (0 < p)%Z ->
  regr_change_setting r KPealSpeed (VInt p) t = Ok r' ->
  r_start r' = None
  /\ r_interval r' = peal_speed_to_blow_interval (inject_Z p) (r_stage r)
  /\ r_peal_speed r' = inject_Z p
  /\ r_data r' = r_data r
  /\ (forall now row place, regr_wait_plan r' now row place true = WPollPullOff).
Proof.
  intros Hs Hi Hp. unfold regr_change_setting. cbn [to_int bind].
  destruct (Z.leb_spec p 0) as [|_]; [lia|].
  Opaque peal_speed_to_blow_interval qsub qmul qdiv qadd qround Qeqb.
  cbn.
  destruct (Qeqb (r_interval r) 0) eqn:Z.
  { Transparent Qeqb. unfold Qeqb in Z. apply Qeq_bool_iff in Z. contradiction. }
  rewrite Hs. intros H. inversion H; subst. clear H. cbn.
  repeat split. 
  Transparent peal_speed_to_blow_interval qsub qmul qdiv qadd qround.
Qed.
