(* C01 across a size change DURING a touch: whatever the Bot rings next after `_on_size_change` -
   opening row, closing rounds or a method row with its covers - is a complete row of the NEW tower,
   provided the method still fits (stage <= new size). *)
From Wh Require Import Prelude Permute PN Gens Complib Tower Rhythm PyStr Sys PermuteP GensP BotP.
From Coq Require Import Permutation Lia.
From RecordUpdate Require Import RecordSet.
Import RecordSetNotations.

Definition wrap_custom (c : option row) : option (option row) :=
  match c with Some r => Some (Some r) | None => None end.

(* the generator's start row is the one RowGenerator.__init__ computed from its stage and custom row *)
Definition started (g : gen) : Prop :=
  generate_starting_row (g_stage g) (wrap_custom (g_custom g)) = Ok (g_start_row g).

Lemma started_of_custom stage (custom : option (option row)) start k :
  generate_starting_row stage custom = Ok start ->
  started (mk_gen k stage (match custom with Some (Some r) => Some r | _ => None end) start).
Proof.
  unfold started. cbn [mk_gen g_stage g_custom g_start_row].
  destruct custom as [[r|]|]; cbn [wrap_custom]; intros H; try exact H. cbn in H. discriminate.
Qed.

Lemma mk_pn_gen_started stage m b s si custom g : mk_pn_gen stage m b s si custom = Ok g -> started g.
Proof.
  unfold mk_pn_gen. intros H.
  apply bind_ok in H. destruct H as [start [Hs H]].
  apply bind_ok in H. destruct H as [mpn [_ H]].
  apply bind_ok in H. destruct H as [bobs [_ H]].
  apply bind_ok in H. destruct H as [singles [_ H]].
  inversion H; subst. apply started_of_custom. exact Hs.
Qed.
Lemma mk_plain_hunt_started stage custom g : mk_plain_hunt stage custom = Ok g -> started g.
Proof.
  unfold mk_plain_hunt, base_init. intros H. apply bind_ok in H. destruct H as [start [Hs H]].
  inversion H; subst. apply started_of_custom. exact Hs.
Qed.
Lemma mk_dixon_started stage p b s custom g : mk_dixon stage p b s custom = Ok g -> started g.
Proof.
  unfold mk_dixon. intros H.
  apply bind_ok in H. destruct H as [start [Hs H]].
  apply bind_ok in H. destruct H as [pp [_ H]].
  apply bind_ok in H. destruct H as [bb [_ H]].
  apply bind_ok in H. destruct H as [ss [_ H]].
  inversion H; subst. apply started_of_custom. exact Hs.
Qed.

(* a complete row of a tower of n bells: no bell twice, every tower bell present *)
Definition complete_row (n : nat) (r : row) : Prop :=
  NoDup r /\ (forall b, 1 <= b <= n -> In b r) /\ n <= length r.

Lemma complete_row_perm n r r' : Permutation r' r -> complete_row n r -> complete_row n r'.
Proof.
  intros P [ND [A L]]. split; [|split].
  - eapply Permutation_NoDup; [apply Permutation_sym; exact P | exact ND].
  - intros b Hb. eapply Permutation_in; [apply Permutation_sym; exact P | auto].
  - rewrite (Permutation_length P). exact L.
Qed.

Lemma opening_row_of_generate w r :
  b_opening_flag (w_bot w) = true -> forall w', generate_next_row w = (w', None) ->
  r = b_opening_row (w_bot w) -> b_row (w_bot w') = r.
Proof. intros A w'. unfold generate_next_row. rewrite A. intros H E. inversion H; subst. reflexivity. Qed.

Lemma rounds_row_of_generate w r :
  b_opening_flag (w_bot w) = false -> b_rounds_flag (w_bot w) = true -> forall w', generate_next_row w = (w', None) ->
  r = b_rounds (w_bot w) -> b_row (w_bot w') = r.
Proof. intros A B w'. unfold generate_next_row. rewrite A, B. intros H E. inversion H; subst. reflexivity. Qed.

Theorem rows_complete_after_size_change w w1 w2 :
  started (b_gen (w_bot w)) -> permuting (b_gen (w_bot w)) -> gen_inv (b_gen (w_bot w)) ->
  g_stage (b_gen (w_bot w)) <= N_of w ->
  bot_on_size_change w = (w1, None) ->
  generate_next_row w1 = (w2, None) ->
  complete_row (N_of w) (b_row (w_bot w2)).
Proof.
  intros St Pg Inv Hle Hs Hg.
  destruct (size_change_recomputes w w1 Hs) as [Eo [Er [Eg _]]].
  fold (wrap_custom (g_custom (b_gen (w_bot w)))) in Eo.
  assert (Co : complete_row (N_of w) (b_opening_row (w_bot w1))) by (exact (starting_row_ok _ _ _ Eo)).
  assert (Cr : complete_row (N_of w) (b_rounds (w_bot w1))).
  { apply (starting_row_ok (N_of w) None). exact Er. }
  destruct (b_opening_flag (w_bot w1)) eqn:A.
  - rewrite (opening_row_of_generate w1 _ A w2 Hg eq_refl). exact Co.
  - destruct (b_rounds_flag (w_bot w1)) eqn:B.
    + rewrite (rounds_row_of_generate w1 _ A B w2 Hg eq_refl). exact Cr.
    + destruct (gen_next (b_gen (w_bot w1)) (stroke_of_row (b_row_number (w_bot w1)))) as [[g' [r cs]]|e] eqn:E.
      * rewrite (covers_in_order w1 w2 g' r cs A B E Hg).
        rewrite Eg in E. destruct (gen_next_inv _ _ _ _ _ Pg Inv E) as [_ [_ [Pr _]]].
        eapply complete_row_perm; [|exact Co].
        eapply cover_padding_is_complete_row; [exact Hle | exact St | exact Eo | exact Pr].
      * exfalso. unfold generate_next_row in Hg. rewrite A, B, E in Hg. inversion Hg.
Qed.

(* the hypotheses about the generator are those every constructor establishes *)
Example resize_hypotheses_nonvacuous :
  exists g, mk_plain_hunt 6 None = Ok g /\ started g /\ permuting g /\ gen_inv g /\ g_stage g <= 8.
Proof.
  destruct (mk_plain_hunt 6 None) as [g|e] eqn:E; [|vm_compute in E; discriminate].
  exists g. split; [reflexivity|]. split; [exact (mk_plain_hunt_started _ _ _ E)|].
  destruct (mk_plain_hunt_inv _ _ _ E) as [I [P _]].
  split; [exact P|]. split; [exact I|].
  unfold mk_plain_hunt, base_init in E. cbn in E. inversion E; subst. cbn. lia.
Qed.
