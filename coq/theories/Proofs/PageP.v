From Wh Require Import Prelude PN PageParser.
From Coq Require Import NArith.

Lemma take_until_app u c post : ~ In c u -> take_until c (u ++ c :: post) = Some u.
Proof.
  induction u as [|x u IH]; cbn; intros H.
  - now rewrite N.eqb_refl.
  - destruct (N.eqb_spec x c) as [->|Hn]; [exfalso; apply H; now left|].
    rewrite IH; auto.
Qed.

Lemma skipn_app_len {A} (a b : list A) : skipn (length a) (a ++ b) = b.
Proof. induction a; cbn; auto. Qed.

(* the page contains  server_ip: "<u>"  with no earlier occurrence of server_ip and no quote in u *)
Theorem load_balancing_url_spec pre sep u post :
  find_sub uSERVER_IP (pre ++ uSERVER_IP ++ sep ++ u ++ cQUOTE :: post) = Some (length pre) ->
  length sep = 3 -> ~ In cQUOTE u ->
  load_balancing_url (pre ++ uSERVER_IP ++ sep ++ u ++ cQUOTE :: post) = Ok u.
Proof.
  intros Hf Hs Hq. unfold load_balancing_url. rewrite Hf.
  replace (pre ++ uSERVER_IP ++ sep ++ u ++ cQUOTE :: post)
    with ((pre ++ uSERVER_IP ++ sep) ++ u ++ cQUOTE :: post) by (now rewrite <- !app_assoc).
  replace (length pre + 12) with (length (pre ++ uSERVER_IP ++ sep)).
  - rewrite skipn_app_len, take_until_app; auto.
  - rewrite !app_length, Hs. reflexivity.
Qed.

Theorem no_server_ip_is_tower_not_found html :
  find_sub uSERVER_IP html = None -> load_balancing_url html = Err EOwn.
Proof. intros H. unfold load_balancing_url. now rewrite H. Qed.
