(* C11: making the calls of a row takes no time and touches neither the rhythm nor the Bot - however many calls
   the row carries, the blow that follows is waited for from the same instant, with the same line. *)
From Wh Require Import Prelude Permute PN Gens Complib Tower Rhythm PyStr Sys.
From Coq Require Import NArith ZArith QArith.
From RecordUpdate Require Import RecordSet.
Import RecordSetNotations.

Lemma make_call_keeps w c :
  w_now (make_call w c) = w_now w /\ w_rhythm (make_call w c) = w_rhythm w /\ w_bot (make_call w c) = w_bot w
  /\ w_tower (make_call w c) = w_tower w.
Proof. unfold make_call. destruct (b_call_comps (w_bot w)); repeat split. Qed.

Theorem make_calls_take_no_time cs : forall w,
  w_now (make_calls w cs) = w_now w /\ w_rhythm (make_calls w cs) = w_rhythm w /\ w_bot (make_calls w cs) = w_bot w
  /\ w_tower (make_calls w cs) = w_tower w.
Proof.
  unfold make_calls. induction cs as [|c cs IH]; intros w; cbn [fold_left]; [repeat split|].
  destruct (IH (make_call w c)) as [A [B [C D]]]. destruct (make_call_keeps w c) as [A' [B' [C' D']]].
  rewrite A, B, C, D. auto.
Qed.
