(* C04 for rule-driven (Dixonoid) generators: the decision rule of one step. *)
From Wh Require Import Prelude Permute PN Gens PermuteP GensP CallsP.
From Coq Require Import NArith.

(* ---------- rule-driven (Dixonoid) generators: the decision rule of one step ---------- *)
Section Dixon.
  Variables (plain bob single : dixon_rules) (stage : nat) (prev : row) (st : stroke) (leading : nat).
  Hypothesis Hlead : nth_res prev 0 = Ok leading.

  (* a pending Bob acts at a lead of a bell it is defined for: its notation for THIS stroke replaces the plain
     rule; the call stays pending over the handstroke change and is used up by the backstroke change *)
  Lemma dixon_bob_fires rule :
    dict_get Nat.eqb bob leading = Some rule ->
    forall hs : bool, dixon_gen_row plain bob single stage prev st true hs
    = do r <- permute stage (pick st rule) prev ;; Ok (r, if st then (true, hs) else (false, false)).
  Proof. intros E hs. unfold dixon_gen_row. rewrite Hlead. cbn [bind]. rewrite E. reflexivity. Qed.

  Lemma dixon_single_fires rule :
    dict_get Nat.eqb single leading = Some rule ->
    forall hb : bool, (if hb then dict_get Nat.eqb bob leading else None) = None ->
    dixon_gen_row plain bob single stage prev st hb true
    = do r <- permute stage (pick st rule) prev ;; Ok (r, if st then (hb, true) else (false, false)).
  Proof. intros E hb Hb. unfold dixon_gen_row. rewrite Hlead. cbn [bind]. rewrite Hb, E. reflexivity. Qed.

  (* a pending call alters nothing where it is not defined (and stays pending); no call pending: the plain rule *)
  Lemma dixon_call_waits (hb hs : bool) :
    (if hb then dict_get Nat.eqb bob leading else None) = None ->
    (if hs then dict_get Nat.eqb single leading else None) = None ->
    dixon_gen_row plain bob single stage prev st hb hs
    = match dict_get Nat.eqb plain leading with
      | Some rule => do r <- permute stage (pick st rule) prev ;; Ok (r, (hb, hs))
      | None => match dict_get Nat.eqb plain 0 with
                | Some rule => do r <- permute stage (pick st rule) prev ;; Ok (r, (hb, hs))
                | None => Err EKey
                end
      end.
  Proof. intros Hb Hs. unfold dixon_gen_row. rewrite Hlead. cbn [bind]. rewrite Hb, Hs. reflexivity. Qed.
End Dixon.
