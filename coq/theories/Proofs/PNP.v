(* C02: convert_pn on every string of the place-notation grammar gives the declarative expansion.
   Grammar (one block): a non-empty sequence of tokens; a cross is rendered as 'x' or '-' with any
   number of dots on either side; a place token as its bell symbols (ascending or not: the code does
   not care); two adjacent place tokens are separated by exactly one dot. *)
From Wh Require Import Prelude Permute PN.
From Coq Require Import NArith.

Inductive rtok :=
| RCross (dash : bool) (before after : nat)
| RPlaces (l : list nat).          (* bell numbers, each in 1..16, non-empty *)

Definition bell_char (b : nat) : N := nth (b - 1) BELL_NAMES 0%N.
Definition chars (l : list nat) : ustring := map bell_char l.
Definition cross_char (dash : bool) : N := if dash then cDASH else cX.

Fixpoint render (prev_place : bool) (ts : list rtok) : ustring :=
  match ts with
  | [] => []
  | RCross d b a :: rest => repeat cDOT b ++ cross_char d :: repeat cDOT a ++ render false rest
  | RPlaces l :: rest => (if prev_place then [cDOT] else []) ++ chars l ++ render true rest
  end.

Definition wf_tok (t : rtok) : Prop :=
  match t with
  | RCross _ _ _ => True
  | RPlaces l => l <> [] /\ Forall (fun b => 1 <= b <= 16) l
  end.

Definition piece (t : rtok) : ustring := match t with RCross _ _ _ => [cDASH] | RPlaces l => chars l end.
Definition places_of (t : rtok) : places := match t with RCross _ _ _ => [] | RPlaces l => l end.

Definition res_eq_nat (r : result nat) (b : nat) : bool := match r with Ok x => Nat.eqb x b | Err _ => false end.

(* ---------- facts about the sixteen bell symbols (finite: by computation) ---------- *)
Definition plain_char (c : N) : bool :=
  negb (N.eqb c cDOT) && negb (is_cross_char c) && negb (in_strip_set c) && negb (N.eqb c cCOMMA).

Lemma bell_chars_plain : forallb plain_char BELL_NAMES = true.
Proof. vm_compute. reflexivity. Qed.

Lemma bell_char_plain b : 1 <= b <= 16 -> plain_char (bell_char b) = true.
Proof.
  intros H. unfold bell_char. pose proof bell_chars_plain as F. rewrite forallb_forall in F.
  apply F. apply nth_In. change (length BELL_NAMES) with 16. lia.
Qed.

Lemma bell_char_convert b : 1 <= b <= 16 -> convert_bell_string (bell_char b) = Ok b.
Proof.
  intros H. assert (E : forallb (fun b => res_eq_nat (convert_bell_string (bell_char b)) b) (seq 1 16) = true)
    by (vm_compute; reflexivity).
  rewrite forallb_forall in E. specialize (E b). rewrite in_seq in E. specialize (E ltac:(lia)).
  unfold res_eq_nat in E. destruct (convert_bell_string (bell_char b)) as [x|]; [|discriminate].
  apply Nat.eqb_eq in E. now subst.
Qed.

(* ---------- stage 1: the regular-expression substitution ---------- *)
Fixpoint sub (prev_place : bool) (ts : list rtok) : ustring :=
  match ts with
  | [] => []
  | RCross _ _ _ :: rest => [cDOT; cDASH; cDOT] ++ sub false rest
  | RPlaces l :: rest => (if prev_place then [cDOT] else []) ++ chars l ++ sub true rest
  end.

(* the rendering with the dots in front of a leading cross removed *)
Definition render0 (ts : list rtok) : ustring :=
  match ts with
  | RCross d _ a :: rest => cross_char d :: repeat cDOT a ++ render false rest
  | _ => render false ts
  end.
Definition lead_dots (ts : list rtok) : nat := match ts with RCross _ b _ :: _ => b | _ => 0 end.

Lemma plain_not_dot c : plain_char c = true -> N.eqb c cDOT = false.
Proof. unfold plain_char. destruct (N.eqb c cDOT); cbn; [discriminate|reflexivity]. Qed.
Lemma plain_not_cross c : plain_char c = true -> is_cross_char c = false.
Proof. unfold plain_char. destruct (N.eqb c cDOT), (is_cross_char c); cbn; try discriminate; reflexivity. Qed.
Lemma cross_not_dot d : N.eqb (cross_char d) cDOT = false.  Proof. destruct d; reflexivity. Qed.
Lemma cross_is_cross d : is_cross_char (cross_char d) = true.  Proof. destruct d; reflexivity. Qed.

Lemma span_dots_repeat n c t : N.eqb c cDOT = false -> span_dots (repeat cDOT n ++ c :: t) = (n, c :: t).
Proof.
  intros H. induction n as [|n IH]; cbn [repeat app span_dots].
  - now rewrite H.
  - change (N.eqb cDOT cDOT) with true. cbn. now rewrite IH.
Qed.
Lemma span_dots_repeat_nil n : span_dots (repeat cDOT n) = (n, []).
Proof. induction n as [|n IH]; cbn [repeat span_dots]; [reflexivity|]. change (N.eqb cDOT cDOT) with true. cbn. now rewrite IH. Qed.

Lemma chars_head l : l <> [] -> Forall (fun b => 1 <= b <= 16) l ->
  exists c t, chars l = c :: t /\ plain_char c = true.
Proof.
  intros Hn F. destruct l as [|b l]; [congruence|]. inversion F; subst.
  exists (bell_char b), (chars l). split; [reflexivity | now apply bell_char_plain].
Qed.

Lemma render0_no_leading_dot ts : Forall wf_tok ts ->
  match render0 ts with c :: _ => N.eqb c cDOT = false | [] => True end.
Proof.
  intros F. destruct ts as [|[d b a|l] rest]; cbn [render0 render]; [exact I | apply cross_not_dot |].
  inversion F as [|? ? Hw F']; subst. destruct Hw as [Hn Hf]. destruct (chars_head l Hn Hf) as [c [t [E P]]].
  cbn [app]. rewrite E. cbn [app]. now apply plain_not_dot.
Qed.

Lemma render_split ts : render false ts = repeat cDOT (lead_dots ts) ++ render0 ts.
Proof. destruct ts as [|[d b a|l] rest]; reflexivity. Qed.

Lemma span_dots_after n ts : Forall wf_tok ts ->
  snd (span_dots (repeat cDOT n ++ render false ts)) = render0 ts.
Proof.
  intros F. rewrite render_split, app_assoc, <- repeat_app.
  pose proof (render0_no_leading_dot ts F) as H. destruct (render0 ts) as [|c t].
  - rewrite app_nil_r, span_dots_repeat_nil. reflexivity.
  - now rewrite span_dots_repeat.
Qed.

Lemma resub_plain f c t : plain_char c = true -> resub (S f) (c :: t) = c :: resub f t.
Proof.
  intros P. cbn [resub span_dots]. rewrite (plain_not_dot c P), (plain_not_cross c P). reflexivity.
Qed.
Lemma resub_dot_plain f c t : plain_char c = true -> resub (S f) (cDOT :: c :: t) = cDOT :: c :: resub f t.
Proof.
  intros P. cbn [resub span_dots]. change (N.eqb cDOT cDOT) with true. cbn [span_dots].
  rewrite (plain_not_dot c P). cbn. rewrite (plain_not_cross c P). reflexivity.
Qed.
Lemma resub_cross f b d t :
  resub (S f) (repeat cDOT b ++ cross_char d :: t) = [cDOT; cDASH; cDOT] ++ resub f (snd (span_dots t)).
Proof.
  cbn [resub]. rewrite (span_dots_repeat b (cross_char d) t (cross_not_dot d)), cross_is_cross.
  destruct (repeat cDOT b ++ cross_char d :: t) eqn:E.
  - destruct b; discriminate.
  - destruct (span_dots t). reflexivity.
Qed.

Lemma resub_chars : forall l f t,
  Forall (fun b => 1 <= b <= 16) l -> length l <= f ->
  resub f (chars l ++ t) = chars l ++ resub (f - length l) t.
Proof.
  induction l as [|b l IH]; intros f t F Hf; cbn [chars map app length].
  - now rewrite Nat.sub_0_r.
  - inversion F; subst. destruct f as [|f]; [cbn in Hf; lia|].
    rewrite resub_plain by now apply bell_char_plain. f_equal.
    fold (chars l). rewrite IH; auto; cbn in Hf; try lia.
Qed.

Lemma resub_fuel_irrelevant : forall s f g, length s < f -> length s < g -> resub f s = resub g s.
Proof.
  intros s. remember (length s) as n eqn:E. revert s E.
  induction n as [n IH] using lt_wf_ind. intros s E f g Hf Hg.
  destruct f as [|f]; [lia|]. destruct g as [|g]; [lia|].
  destruct s as [|c0 s0]; [reflexivity|].
  cbn [resub]. destruct (span_dots (c0 :: s0)) as [k r] eqn:S.
  assert (Lr : length r <= length (c0 :: s0)).
  { clear - S. revert k r S. generalize (c0 :: s0). induction l as [|x l IHl]; cbn; intros k r S.
    - inversion S; subst. cbn. lia.
    - destruct (N.eqb x cDOT); [destruct (span_dots l) as [k' r'] eqn:S'; inversion S; subst; specialize (IHl _ _ eq_refl); lia
                                | inversion S; subst; cbn; lia]. }
  destruct r as [|c t]; [reflexivity|].
  destruct (is_cross_char c).
  - destruct (span_dots t) as [k2 r2] eqn:S2. f_equal.
    assert (L2 : length r2 <= length t).
    { clear - S2. revert k2 r2 S2. induction t as [|x l IHl]; cbn; intros k r S.
      - inversion S; subst. cbn. lia.
      - destruct (N.eqb x cDOT); [destruct (span_dots l) as [k' r'] eqn:S'; inversion S; subst; specialize (IHl _ _ eq_refl); lia
                                  | inversion S; subst; cbn; lia]. }
    cbn [length] in *. apply (IH (length r2)); lia.
  - f_equal. f_equal. cbn [length] in *. apply (IH (length t)); lia.
Qed.

Lemma chars_length l : length (chars l) = length l.
Proof. apply map_length. Qed.

Lemma render0_length ts : length (render0 ts) <= length (render false ts).
Proof. rewrite render_split, app_length. lia. Qed.

Lemma resub_both : forall ts, Forall wf_tok ts ->
  (forall f, length (render0 ts) < f -> resub f (render0 ts) = sub false ts) /\
  (forall prev f, length (render prev ts) < f -> resub f (render prev ts) = sub prev ts).
Proof.
  induction ts as [|t ts IH]; intros F.
  - split; intros; cbn [render render0 sub]; destruct f; reflexivity.
  - inversion F as [|? ? Ht F']; subst. destruct (IH F') as [IHA IHB]. clear IH.
    assert (Cross : forall d b a f, length (repeat cDOT b ++ cross_char d :: repeat cDOT a ++ render false ts) < f ->
              resub f (repeat cDOT b ++ cross_char d :: repeat cDOT a ++ render false ts)
              = [cDOT; cDASH; cDOT] ++ sub false ts).
    { intros d b a f Hf. destruct f as [|f]; [lia|]. rewrite resub_cross. f_equal.
      rewrite (span_dots_after a ts F'). apply IHA.
      pose proof (render0_length ts). rewrite !app_length in Hf. cbn [length] in Hf. rewrite !app_length in Hf. lia. }
    destruct t as [d b a|l].
    + split.
      * intros f Hf. cbn [render0 sub]. apply (Cross d 0 a f). exact Hf.
      * intros prev f Hf. cbn [render sub]. apply (Cross d b a f). exact Hf.
    + destruct Ht as [Hn Hl].
      assert (Plain : forall f, length (chars l ++ render true ts) < f ->
                resub f (chars l ++ render true ts) = chars l ++ sub true ts).
      { intros f Hf. rewrite app_length, chars_length in Hf.
        rewrite resub_chars; auto; [|lia]. f_equal. apply IHB. lia. }
      split.
      * intros f Hf. cbn [render0 render sub app]. apply Plain. exact Hf.
      * intros prev f Hf. cbn [render sub] in *. destruct prev; cbn [app] in *.
        -- destruct (chars_head l Hn Hl) as [c [tl [Ec Pc]]].
           destruct f as [|f]; [lia|]. rewrite Ec. cbn [app]. rewrite resub_dot_plain by exact Pc.
           f_equal. rewrite Ec in Plain. cbn [app] in Plain.
           destruct f as [|f]; [rewrite Ec in Hf; cbn in Hf; lia|].
           specialize (Plain (S (S f))). rewrite resub_plain in Plain by exact Pc.
           assert (H : c :: resub (S f) (tl ++ render true ts) = c :: tl ++ sub true ts).
           { apply Plain. rewrite Ec in Hf. cbn [app length] in *. lia. }
           apply (f_equal (@List.tl N)) in H. cbn [List.tl] in H. rewrite <- H. reflexivity.
        -- apply Plain. exact Hf.
Qed.

Theorem resub_render ts prev f :
  Forall wf_tok ts -> length (render prev ts) < f -> resub f (render prev ts) = sub prev ts.
Proof. intros F. apply (proj2 (resub_both ts F)). Qed.

(* ---------- stage 2-4: strip, '..' -> '.', split on '.' ---------- *)
Definition is_cross_tok (t : rtok) : bool := match t with RCross _ _ _ => true | _ => false end.
Definition starts_cross (ts : list rtok) : bool := match ts with t :: _ => is_cross_tok t | [] => false end.
Definition ends_cross (ts : list rtok) : bool := starts_cross (rev ts).

(* what is left once the outer dots are stripped *)
Fixpoint core (ts : list rtok) : ustring :=
  match ts with
  | [] => []
  | [t] => piece t
  | RCross _ _ _ :: rest => cDASH :: cDOT :: (if starts_cross rest then [cDOT] else []) ++ core rest
  | RPlaces l :: rest => chars l ++ cDOT :: core rest
  end.

(* the pieces joined by single dots *)
Fixpoint joined (ts : list rtok) : ustring :=
  match ts with
  | [] => []
  | [t] => piece t
  | t :: rest => piece t ++ cDOT :: joined rest
  end.

Lemma core_single t : core [t] = piece t.
Proof. destruct t; reflexivity. Qed.

Definition dots_if (b : bool) : ustring := if b then [cDOT] else [].

Lemma ends_cross_cons t ts : ts <> [] -> ends_cross (t :: ts) = ends_cross ts.
Proof.
  intros H. unfold ends_cross. cbn [rev]. destruct (rev ts) eqn:E.
  - apply (f_equal (@rev _)) in E. rewrite rev_involutive in E. cbn in E. congruence.
  - reflexivity.
Qed.

Lemma sub_core : forall ts prev, ts <> [] ->
  sub prev ts = dots_if (starts_cross ts || prev) ++ core ts ++ dots_if (ends_cross ts).
Proof.
  induction ts as [|t ts IH]; intros prev Hn; [congruence|].
  destruct ts as [|t' ts'].
  - destruct t as [d b a|l]; cbn; [reflexivity|]. destruct prev; cbn; now rewrite app_nil_r.
  - assert (Hn' : t' :: ts' <> []) by congruence.
    rewrite (ends_cross_cons t (t' :: ts') Hn').
    destruct t as [d b a|l].
    + change (sub prev (RCross d b a :: t' :: ts')) with ([cDOT; cDASH; cDOT] ++ sub false (t' :: ts')).
      rewrite (IH false Hn'). rewrite orb_false_r.
      change (core (RCross d b a :: t' :: ts')) with
        (cDASH :: cDOT :: (if starts_cross (t' :: ts') then [cDOT] else []) ++ core (t' :: ts')).
      cbn [starts_cross is_cross_tok orb dots_if app]. unfold dots_if at 1.
      destruct (starts_cross (t' :: ts')); cbn [app]; rewrite <- ?app_assoc; reflexivity.
    + change (sub prev (RPlaces l :: t' :: ts')) with ((if prev then [cDOT] else []) ++ chars l ++ sub true (t' :: ts')).
      rewrite (IH true Hn'). rewrite orb_true_r.
      change (core (RPlaces l :: t' :: ts')) with (chars l ++ cDOT :: core (t' :: ts')).
      cbn [starts_cross is_cross_tok orb]. cbn [dots_if]. rewrite <- !app_assoc. reflexivity.
Qed.

Definition keep_char (c : N) : bool := negb (in_strip_set c).

Lemma plain_keep c : plain_char c = true -> in_strip_set c = false.
Proof.
  unfold plain_char. destruct (in_strip_set c); [|reflexivity].
  rewrite !andb_false_r, ?andb_false_l. cbn. intros H; discriminate || (rewrite andb_false_r in H; discriminate).
Qed.

Lemma core_first : forall ts, Forall wf_tok ts -> ts <> [] ->
  exists c t, core ts = c :: t /\ in_strip_set c = false /\ N.eqb c cDOT = false.
Proof.
  intros ts F Hn. destruct ts as [|t ts]; [congruence|]. inversion F as [|? ? Ht F']; subst.
  destruct t as [d b a|l].
  - destruct ts; cbn [core piece]; eexists _, _; (split; [reflexivity|split; reflexivity]).
  - destruct Ht as [Hl Hf]. destruct (chars_head l Hl Hf) as [c [tl0 [E P]]].
    destruct ts; cbn [core piece]; rewrite E; cbn [app]; eexists _, _;
      (split; [reflexivity|split; [now apply plain_keep | now apply plain_not_dot]]).
Qed.

Lemma chars_last l : l <> [] -> Forall (fun b => 1 <= b <= 16) l ->
  exists m c, chars l = m ++ [c] /\ plain_char c = true.
Proof.
  intros Hn F. destruct (exists_last Hn) as [m [b E]]. subst l.
  exists (chars m), (bell_char b). unfold chars. rewrite map_app. split; [reflexivity|].
  apply bell_char_plain. rewrite Forall_app in F. destruct F as [_ F]. now inversion F.
Qed.

Lemma core_last : forall ts, Forall wf_tok ts -> ts <> [] ->
  exists m c, core ts = m ++ [c] /\ in_strip_set c = false.
Proof.
  induction ts as [|t ts IH]; intros F Hn; [congruence|]. inversion F as [|? ? Ht F']; subst.
  destruct ts as [|t' ts'].
  - destruct t as [d b a|l]; cbn [core piece].
    + exists [], cDASH. split; reflexivity.
    + destruct Ht as [Hl Hf]. destruct (chars_last l Hl Hf) as [m [c [E P]]].
      exists m, c. split; [exact E | now apply plain_keep].
  - destruct (IH F' ltac:(congruence)) as [m [c [E K]]].
    destruct t as [d b a|l].
    + change (core (RCross d b a :: t' :: ts')) with
        (cDASH :: cDOT :: (if starts_cross (t' :: ts') then [cDOT] else []) ++ core (t' :: ts')).
      rewrite E. exists (cDASH :: cDOT :: (if starts_cross (t' :: ts') then [cDOT] else []) ++ m), c.
      split; [|exact K]. cbn [app]. now rewrite app_assoc.
    + change (core (RPlaces l :: t' :: ts')) with (chars l ++ cDOT :: core (t' :: ts')).
      rewrite E. exists (chars l ++ cDOT :: m), c. split; [|exact K].
      rewrite <- app_assoc. reflexivity.
Qed.

Lemma lstrip_dots b s : lstrip in_strip_set (dots_if b ++ s) = lstrip in_strip_set s.
Proof. destruct b; reflexivity. Qed.

Lemma strip_core ts a b : Forall wf_tok ts -> ts <> [] ->
  strip in_strip_set (dots_if a ++ core ts ++ dots_if b) = core ts.
Proof.
  intros F Hn. unfold strip. rewrite lstrip_dots.
  destruct (core_first ts F Hn) as [c [t [E [K _]]]].
  destruct (core_last ts F Hn) as [m [y [E2 K2]]].
  rewrite E. cbn [app lstrip]. rewrite K. rewrite <- E.
  change (c :: t ++ dots_if b) with ((c :: t) ++ dots_if b). rewrite <- E.
  rewrite rev_app_distr.
  assert (R : rev (dots_if b) = dots_if b) by (destruct b; reflexivity). rewrite R, lstrip_dots.
  rewrite E2, rev_app_distr. cbn [rev app lstrip]. rewrite K2.
  change (y :: rev m) with (rev [y] ++ rev m). rewrite <- rev_app_distr, rev_involutive. reflexivity.
Qed.

Lemma replace_dd_nondot c t : N.eqb c cDOT = false -> replace_dd (c :: t) = c :: replace_dd t.
Proof. intros H. destruct t as [|b t]; cbn [replace_dd]; [reflexivity|]. now rewrite H. Qed.
Lemma replace_dd_dotdot t : replace_dd (cDOT :: cDOT :: t) = cDOT :: replace_dd t.
Proof. reflexivity. Qed.
Lemma replace_dd_dot_nondot c t : N.eqb c cDOT = false ->
  replace_dd (cDOT :: c :: t) = cDOT :: replace_dd (c :: t).
Proof. intros H. cbn [replace_dd]. rewrite H. reflexivity. Qed.

Lemma replace_dd_chars l t : Forall (fun b => 1 <= b <= 16) l ->
  replace_dd (chars l ++ t) = chars l ++ replace_dd t.
Proof.
  induction l as [|b l IH]; intros F; [reflexivity|]. inversion F; subst.
  cbn [chars map app]. fold (chars l). rewrite replace_dd_nondot by (apply plain_not_dot; now apply bell_char_plain).
  now rewrite IH.
Qed.

Lemma replace_dd_piece t : wf_tok t -> replace_dd (piece t) = piece t.
Proof.
  destruct t as [d b a|l]; [reflexivity|]. intros [_ F]. cbn [piece].
  rewrite <- (app_nil_r (chars l)) at 1. rewrite replace_dd_chars by exact F. now rewrite app_nil_r.
Qed.

Lemma replace_dd_core : forall ts, Forall wf_tok ts -> replace_dd (core ts) = joined ts.
Proof.
  induction ts as [|t ts IH]; intros F; [reflexivity|]. inversion F as [|? ? Ht F']; subst.
  destruct ts as [|t' ts'].
  - rewrite core_single. cbn [joined]. now apply replace_dd_piece.
  - assert (Hn' : t' :: ts' <> []) by congruence.
    destruct (core_first (t' :: ts') F' Hn') as [c [tl0 [E [_ D]]]].
    specialize (IH F').
    destruct t as [d b a|l].
    + change (core (RCross d b a :: t' :: ts')) with
        (cDASH :: cDOT :: (if starts_cross (t' :: ts') then [cDOT] else []) ++ core (t' :: ts')).
      change (joined (RCross d b a :: t' :: ts')) with (cDASH :: cDOT :: joined (t' :: ts')).
      rewrite replace_dd_nondot by reflexivity. f_equal.
      destruct (starts_cross (t' :: ts')); cbn [app].
      * rewrite replace_dd_dotdot. now rewrite IH.
      * rewrite E, replace_dd_dot_nondot by exact D. rewrite <- E. now rewrite IH.
    + change (core (RPlaces l :: t' :: ts')) with (chars l ++ cDOT :: core (t' :: ts')).
      change (joined (RPlaces l :: t' :: ts')) with (piece (RPlaces l) ++ cDOT :: joined (t' :: ts')).
      destruct Ht as [_ Hf]. rewrite replace_dd_chars by exact Hf. cbn [piece]. f_equal.
      rewrite E, replace_dd_dot_nondot by exact D. rewrite <- E. now rewrite IH.
Qed.

Lemma split_on_free sep p : forallb (fun c => negb (N.eqb c sep)) p = true -> split_on sep p = [p].
Proof.
  induction p as [|c p IH]; intros H; [reflexivity|]. cbn [forallb] in H. apply andb_true_iff in H. destruct H as [H1 H2].
  cbn [split_on]. rewrite (IH H2). apply negb_true_iff in H1. now rewrite H1.
Qed.
Lemma split_on_app sep p rest : forallb (fun c => negb (N.eqb c sep)) p = true ->
  split_on sep (p ++ sep :: rest) = p :: split_on sep rest.
Proof.
  induction p as [|c p IH]; intros H.
  - cbn [app split_on]. now rewrite N.eqb_refl.
  - cbn [forallb] in H. apply andb_true_iff in H. destruct H as [H1 H2].
    cbn [app split_on]. rewrite (IH H2). apply negb_true_iff in H1. now rewrite H1.
Qed.

Lemma piece_dotfree t : wf_tok t -> forallb (fun c => negb (N.eqb c cDOT)) (piece t) = true.
Proof.
  destruct t as [d b a|l]; [reflexivity|]. intros [_ F]. cbn [piece]. apply forallb_forall.
  intros c Hc. unfold chars in Hc. apply in_map_iff in Hc. destruct Hc as [x [E Hx]]. subst c.
  rewrite Forall_forall in F. rewrite (plain_not_dot _ (bell_char_plain x (F x Hx))). reflexivity.
Qed.

Lemma split_joined : forall ts, Forall wf_tok ts -> ts <> [] -> split_on cDOT (joined ts) = map piece ts.
Proof.
  induction ts as [|t ts IH]; intros F Hn; [congruence|]. inversion F as [|? ? Ht F']; subst.
  destruct ts as [|t' ts'].
  - cbn [joined map]. apply split_on_free. now apply piece_dotfree.
  - change (joined (t :: t' :: ts')) with (piece t ++ cDOT :: joined (t' :: ts')).
    rewrite split_on_app by now apply piece_dotfree. cbn [map]. f_equal. apply IH; [exact F'|congruence].
Qed.

Theorem pn_pieces_render ts : Forall wf_tok ts -> ts <> [] ->
  pn_pieces (render false ts) = map piece ts.
Proof.
  intros F Hn. unfold pn_pieces.
  rewrite (resub_render ts false _ F (Nat.lt_succ_diag_r _)).
  rewrite (sub_core ts false Hn), (strip_core ts _ _ F Hn), (replace_dd_core ts F).
  now apply split_joined.
Qed.

(* ---------- conversion of the pieces ---------- *)
Lemma mapM_convert_chars l : Forall (fun b => 1 <= b <= 16) l -> mapM convert_bell_string (chars l) = Ok l.
Proof.
  induction l as [|b l IH]; intros F; [reflexivity|]. inversion F; subst.
  cbn [chars map mapM]. fold (chars l). rewrite bell_char_convert by assumption. cbn. now rewrite IH.
Qed.

Lemma convert_piece_tok t : wf_tok t -> convert_piece (piece t) = Ok (places_of t).
Proof.
  destruct t as [d b a|l]; [reflexivity|]. intros [Hn F]. cbn [piece places_of]. unfold convert_piece.
  destruct (chars_head l Hn F) as [c [tl0 [E P]]].
  assert (X : ustr_eqb (chars l) [cDASH] = false).
  { rewrite E. unfold ustr_eqb. cbn [list_eqb]. 
    assert (N.eqb c cDASH = false).
    { pose proof (plain_not_cross c P) as Hc. unfold is_cross_char in Hc.
      destruct (N.eqb c cDASH); [|reflexivity]. rewrite ?orb_true_r, ?orb_true_l in Hc. discriminate. }
    now rewrite H. }
  rewrite X. now apply mapM_convert_chars.
Qed.

Lemma mapM_pieces ts : Forall wf_tok ts -> mapM convert_piece (map piece ts) = Ok (map places_of ts).
Proof.
  induction ts as [|t ts IH]; intros F; [reflexivity|]. inversion F; subst.
  cbn [map mapM]. rewrite convert_piece_tok by assumption. cbn. now rewrite IH.
Qed.

(* one unsymmetric block: a token sequence as written means exactly its sequence of changes *)
Theorem convert_block_render ts : Forall wf_tok ts -> ts <> [] ->
  convert_block false (render false ts) = Ok (map places_of ts).
Proof.
  intros F Hn. unfold convert_block. rewrite (pn_pieces_render ts F Hn), (mapM_pieces ts F).
  assert (S : starts_with cAMP (render false ts) = false).
  { destruct ts as [|[d b a|l] rest]; [congruence| |].
    - cbn [render]. destruct b; [destruct d; reflexivity | reflexivity].
    - inversion F as [|? ? Hw F']; subst. destruct Hw as [Hl Hf]. destruct (chars_head l Hl Hf) as [c [tl0 [E P]]].
      cbn [render app]. rewrite E. cbn [app starts_with].
      pose proof (plain_keep c P) as K. unfold in_strip_set in K.
      destruct (N.eqb c cAMP); [|reflexivity]. rewrite ?orb_true_r, ?orb_true_l in K. discriminate. }
  rewrite S. reflexivity.
Qed.

(* ---------- blocks with a symmetry marker, and the comma form ---------- *)
Inductive marker := MNone | MAmp | MPlus.
Definition marker_chars (m : marker) : ustring :=
  match m with MNone => [] | MAmp => [cAMP] | MPlus => [cPLUS] end.
Definition render_block (b : marker * list rtok) : ustring := marker_chars (fst b) ++ render false (snd b).

Definition palindrome (c : list places) : list places := c ++ rev (removelast c).
Definition block_changes (expect_symmetric : bool) (b : marker * list rtok) : list places :=
  let c := map places_of (snd b) in
  let symmetric := match fst b with
                   | MNone => expect_symmetric | MAmp => true | MPlus => false end in
  if symmetric then palindrome c else c.
Definition wf_block (b : marker * list rtok) : Prop := Forall wf_tok (snd b) /\ snd b <> [].

Lemma resub_other f c t : N.eqb c cDOT = false -> is_cross_char c = false ->
  resub (S f) (c :: t) = c :: resub f t.
Proof. intros D X. cbn [resub span_dots]. rewrite D, X. reflexivity. Qed.

Lemma resub_marker m s f : length (marker_chars m ++ s) < f ->
  resub f (marker_chars m ++ s) = marker_chars m ++ resub (f - length (marker_chars m)) s.
Proof.
  intros H. destruct m; cbn [marker_chars app length] in *.
  - now rewrite Nat.sub_0_r.
  - destruct f as [|f]; [lia|]. rewrite resub_other by reflexivity. cbn [Nat.sub]. now rewrite Nat.sub_0_r.
  - destruct f as [|f]; [lia|]. rewrite resub_other by reflexivity. cbn [Nat.sub]. now rewrite Nat.sub_0_r.
Qed.

Lemma lstrip_marker m s : lstrip in_strip_set (marker_chars m ++ s) = lstrip in_strip_set s.
Proof. destruct m; reflexivity. Qed.

Lemma strip_marker_core m ts a b : Forall wf_tok ts -> ts <> [] ->
  strip in_strip_set (marker_chars m ++ dots_if a ++ core ts ++ dots_if b) = core ts.
Proof.
  intros F Hn. unfold strip. rewrite lstrip_marker.
  exact (strip_core ts a b F Hn).
Qed.

Theorem pn_pieces_block b : wf_block b -> pn_pieces (render_block b) = map piece (snd b).
Proof.
  destruct b as [m ts]. intros [F Hn]. cbn [fst snd] in *. unfold pn_pieces, render_block. cbn [fst snd].
  rewrite resub_marker by lia.
  rewrite (resub_render ts false _ F) by (rewrite app_length; lia).
  rewrite (sub_core ts false Hn), (strip_marker_core m ts _ _ F Hn), (replace_dd_core ts F).
  now apply split_joined.
Qed.

Lemma render_first_plainish ts : Forall wf_tok ts ->
  starts_with cAMP (render false ts) = false /\ starts_with cPLUS (render false ts) = false.
Proof.
  intros F. destruct ts as [|[d b a|l] rest]; [split; reflexivity| |].
  - cbn [render]. destruct b; [destruct d; split; reflexivity | split; reflexivity].
  - inversion F as [|? ? Hw F']; subst. destruct Hw as [Hl Hf]. destruct (chars_head l Hl Hf) as [c [tl0 [E P]]].
    cbn [render app]. rewrite E. cbn [app starts_with].
    pose proof (plain_keep c P) as K. unfold in_strip_set in K.
    destruct (N.eqb c cAMP), (N.eqb c cPLUS); try (split; reflexivity);
      rewrite ?orb_true_r, ?orb_true_l in K; discriminate.
Qed.

Theorem convert_block_blk e b : wf_block b -> convert_block e (render_block b) = Ok (block_changes e b).
Proof.
  intros W. unfold convert_block. rewrite (pn_pieces_block b W).
  destruct b as [m ts]. destruct W as [F Hn]. cbn [fst snd] in *.
  rewrite (mapM_pieces ts F). unfold block_changes, render_block, palindrome. cbn [fst snd].
  destruct (render_first_plainish ts F) as [A P].
  destruct m; cbn [marker_chars app]; [rewrite A, P | |]; destruct e; reflexivity.
Qed.

Definition nocomma (s : ustring) : Prop := forallb (fun c => negb (N.eqb c cCOMMA)) s = true.

Lemma nocomma_app a b : nocomma a -> nocomma b -> nocomma (a ++ b).
Proof. unfold nocomma. intros. rewrite forallb_app. now rewrite H, H0. Qed.
Lemma nocomma_repeat n : nocomma (repeat cDOT n).
Proof. induction n; [reflexivity|]. unfold nocomma in *. cbn [repeat forallb]. now rewrite IHn. Qed.
Lemma nocomma_chars l : Forall (fun b => 1 <= b <= 16) l -> nocomma (chars l).
Proof.
  intros F. apply forallb_forall. intros c Hc. unfold chars in Hc. apply in_map_iff in Hc.
  destruct Hc as [x [E Hx]]. subst c. rewrite Forall_forall in F.
  pose proof (bell_char_plain x (F x Hx)) as P. unfold plain_char in P.
  apply andb_true_iff in P. exact (proj2 P).
Qed.

Lemma nocomma_render : forall ts prev, Forall wf_tok ts -> nocomma (render prev ts).
Proof.
  induction ts as [|t ts IH]; intros prev F; [reflexivity|]. inversion F as [|? ? Ht F']; subst.
  destruct t as [d b a|l]; cbn [render].
  - apply nocomma_app; [apply nocomma_repeat|].
    change (cross_char d :: repeat cDOT a ++ render false ts) with ([cross_char d] ++ repeat cDOT a ++ render false ts).
    apply nocomma_app; [destruct d; reflexivity|]. apply nocomma_app; [apply nocomma_repeat | now apply IH].
  - destruct Ht as [_ Hf]. apply nocomma_app; [destruct prev; reflexivity|].
    apply nocomma_app; [now apply nocomma_chars | now apply IH].
Qed.

Lemma nocomma_block b : wf_block b -> nocomma (render_block b).
Proof.
  destruct b as [m ts]. intros [F _]. unfold render_block. cbn [fst snd] in *.
  apply nocomma_app; [destruct m; reflexivity | now apply nocomma_render].
Qed.

Lemma has_comma_nocomma s : nocomma s -> has_comma s = false.
Proof.
  unfold nocomma, has_comma. induction s as [|c s IH]; [reflexivity|]. cbn [forallb existsb].
  intros H. apply andb_true_iff in H. destruct H as [H1 H2]. rewrite (IH H2).
  apply negb_true_iff in H1. rewrite N.eqb_sym. now rewrite H1.
Qed.

(* C02, one block, no comma: the string means exactly its changes (palindromic if marked '&') *)
Theorem convert_pn_single b : wf_block b -> convert_pn (render_block b) = Ok (block_changes false b).
Proof.
  intros W. unfold convert_pn. rewrite (has_comma_nocomma _ (nocomma_block b W)).
  now apply convert_block_blk.
Qed.

(* the comma form: blocks joined by ',' *)
Fixpoint join_commas (l : list ustring) : ustring :=
  match l with
  | [] => []
  | [s] => s
  | s :: rest => s ++ cCOMMA :: join_commas rest
  end.

Lemma has_comma_join a b rest : has_comma (join_commas (a :: b :: rest)) = true.
Proof.
  change (join_commas (a :: b :: rest)) with (a ++ cCOMMA :: join_commas (b :: rest)).
  unfold has_comma. rewrite existsb_app. cbn [existsb]. rewrite N.eqb_refl. now rewrite orb_true_r.
Qed.

Lemma split_join_commas : forall l, l <> [] -> Forall nocomma l -> split_on cCOMMA (join_commas l) = l.
Proof.
  induction l as [|s l IH]; intros Hn F; [congruence|]. inversion F; subst.
  destruct l as [|s' l'].
  - cbn [join_commas]. now apply split_on_free.
  - change (join_commas (s :: s' :: l')) with (s ++ cCOMMA :: join_commas (s' :: l')).
    rewrite split_on_app by assumption. f_equal. apply IH; [congruence|assumption].
Qed.

Lemma mapM_blocks bs : Forall wf_block bs ->
  mapM (convert_block true) (map render_block bs) = Ok (map (block_changes true) bs).
Proof.
  induction bs as [|b bs IH]; intros F; [reflexivity|]. inversion F; subst.
  cbn [map mapM]. rewrite convert_block_blk by assumption. cbn. now rewrite IH.
Qed.

(* C02, the comma form: every block is palindromic unless marked '+', and the blocks are concatenated *)
Theorem convert_pn_commas b1 b2 bs : Forall wf_block (b1 :: b2 :: bs) ->
  convert_pn (join_commas (map render_block (b1 :: b2 :: bs)))
  = Ok (concat (map (block_changes true) (b1 :: b2 :: bs))).
Proof.
  intros F. unfold convert_pn. cbn [map]. rewrite has_comma_join.
  change (render_block b1 :: render_block b2 :: map render_block bs) with (map render_block (b1 :: b2 :: bs)).
  rewrite split_join_commas.
  - rewrite (mapM_blocks _ F). reflexivity.
  - discriminate.
  - apply Forall_map. revert F. apply Forall_impl. intros b W. now apply nocomma_block.
Qed.

(* non-vacuity / reading check: Plain Bob Minor as 'x16x16x16,12' and Grandsire-like '+3.1' *)
From Coq Require Import String.
Definition pb_minor_text : ustring := s2u "x16x16x16,12".   (* the characters x 1 6 x 1 6 x 1 6 , 1 2 *)
Example pb_minor_grammar :
  let x := RCross false 0 0 in let p := RPlaces in
  join_commas (map render_block [(MNone, [x; p [1;6]; x; p [1;6]; x; p [1;6]]); (MNone, [p [1;2]])])
  = pb_minor_text
  /\ convert_pn pb_minor_text
     = Ok [[]; [1;6]; []; [1;6]; []; [1;6]; []; [1;6]; []; [1;6]; []; [1;2]].
Proof. split; vm_compute; reflexivity. Qed.
