(* Model of page_parser.get_load_balancing_url's string processing (page_parser.py:56-67) and of
   _fix_url.  requests.get / urljoin are library code outside the model.  No proofs here. *)
From Wh Require Export Prelude PN.
From Coq Require Import NArith.

Fixpoint is_prefix (p s : ustring) : bool :=
  match p, s with
  | [], _ => true
  | a :: p', b :: s' => N.eqb a b && is_prefix p' s'
  | _ :: _, [] => false
  end.

(* str.index(pat): position of the first occurrence *)
Fixpoint find_sub (pat s : ustring) : option nat :=
  if is_prefix pat s then Some 0
  else match s with
       | [] => None
       | _ :: t => match find_sub pat t with Some i => Some (S i) | None => None end
       end.

Fixpoint take_until (c : N) (s : ustring) : option ustring :=
  match s with
  | [] => None
  | x :: t => if N.eqb x c then Some [] else
              match take_until c t with Some r => Some (x :: r) | None => None end
  end.

Definition uSERVER_IP : ustring := [115;101;114;118;101;114;95;105;112]%N.   (* "server_ip" *)
Definition cQUOTE : N := 34.

(* Err EOwn = TowerNotFoundError *)
Definition load_balancing_url (html : ustring) : result ustring :=
  match find_sub uSERVER_IP html with
  | None => Err EOwn
  | Some i => match take_until cQUOTE (skipn (i + 12) html) with
              | Some u => Ok u
              | None => Err EOwn
              end
  end.

Definition uHTTP : ustring := [104;116;116;112]%N.
Definition uHTTPS_ : ustring := [104;116;116;112;115;58;47;47]%N.
Definition fix_url (u : ustring) : ustring := if is_prefix uHTTP u then u else uHTTPS_ ++ u.
