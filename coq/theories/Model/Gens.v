(* Model of the row generators: row_generator.py (base class state and operations),
   place_notation_generator.py, plain_hunt_generator.py, dixonoids_generator.py,
   place_holder_generator.py and the row-serving part of complib_composition_generator.py.
   No proofs here. *)
From Wh Require Export Prelude Permute PN.
From Coq Require Import NArith.

(* Python dict as an association list, insertion ordered, unique keys *)
Section Dict.
  Context {K V : Type} (keq : K -> K -> bool).
  Fixpoint dict_get (d : list (K * V)) (k : K) : option V :=
    match d with
    | [] => None
    | (k', v) :: t => if keq k' k then Some v else dict_get t k
    end.
  Fixpoint dict_set (d : list (K * V)) (k : K) (v : V) : list (K * V) :=
    match d with
    | [] => [(k, v)]
    | (k', v') :: t => if keq k' k then (k', v) :: t else (k', v') :: dict_set t k v
    end.
  Fixpoint dict_del (d : list (K * V)) (k : K) : list (K * V) :=
    match d with
    | [] => []
    | (k', v') :: t => if keq k' k then t else (k', v') :: dict_del t k
    end.
End Dict.

Definition call := ustring.            (* the text of a call *)
Definition stroke := bool.             (* true = handstroke *)
Definition stroke_of_index (i : Z) : stroke := Z.eqb (Z.modulo i 2) 0.   (* Stroke.from_index *)

Definition call_dict := list (nat * list places).     (* lead index -> the call's changes *)

Record pn_cfg := {
  pc_method : list places;      (* method_pn *)
  pc_bobs : call_dict;          (* bobs_pn *)
  pc_singles : call_dict;       (* singles_pn *)
  pc_start_index : Z;           (* start_index *)
}.

Definition dixon_rules := list (nat * (places * places)).  (* leading bell -> (hand pn, back pn) *)

Inductive gen_kind :=
| GPN (c : pn_cfg)
| GPlainHunt
| GDixon (plain bob single : dixon_rules)
| GComplib (loaded : list (row * list call)) (early : list (Z * list call)) (start_stroke : stroke)
| GPlaceHolder.

Record gen := {
  g_kind : gen_kind;
  g_stage : nat;                      (* self.stage *)
  g_custom : option row;              (* self.custom_start_row, as the bells its characters denote *)
  g_start_row : row;                  (* self.start_row *)
  (* per-touch state *)
  g_index : nat;                      (* _index *)
  g_row : row;                        (* _row *)
  g_has_bob : bool;
  g_has_single : bool;
  g_call_pn : list places;            (* PlaceNotationGenerator._generating_call_pn *)
}.

Definition set_state (g : gen) (idx : nat) (r : row) (hb hs : bool) (cp : list places) : gen :=
  {| g_kind := g_kind g; g_stage := g_stage g; g_custom := g_custom g; g_start_row := g_start_row g;
     g_index := idx; g_row := r; g_has_bob := hb; g_has_single := hs; g_call_pn := cp |}.

(* RowGenerator.reset() together with the PlaceNotationGenerator override that also forgets a call
   that was in progress (see known_findings.json: "fixed: property=C05") *)
Definition gen_reset (g : gen) : gen := set_state g 0 (g_start_row g) false false [].
(* the reset of the tree as it was before the fix: _generating_call_pn survives.  Kept only to
   state C05_refuted_pre_fix. *)
Definition gen_reset_old (g : gen) : gen := set_state g 0 (g_start_row g) false false (g_call_pn g).

Definition gen_set_bob (g : gen) : gen :=
  set_state g (g_index g) (g_row g) true (g_has_single g) (g_call_pn g).
Definition gen_set_single (g : gen) : gen :=
  set_state g (g_index g) (g_row g) (g_has_bob g) true (g_call_pn g).

Definition truthy {A} (o : option (list A)) : bool :=
  match o with Some (_ :: _) => true | _ => false end.

Definition lead_index (c : pn_cfg) (index : nat) : nat :=
  zmod_nat (Z.of_nat index + pc_start_index c) (length (pc_method c)).

(* PlaceNotationGenerator._gen_row: returns the new row and the new (has_bob, has_single, call_pn) *)
Definition pn_gen_row (c : pn_cfg) (stage : nat) (prev : row) (index : nat)
           (hb hs : bool) (cp : list places) : result (row * (bool * bool * list places)) :=
  if length (pc_method c) =? 0 then Err EAssert else
  let li := lead_index c index in
  let '(hb1, hs1, cp1) :=
    if hb && truthy (dict_get Nat.eqb (pc_bobs c) li) then
      (false, false, match dict_get Nat.eqb (pc_bobs c) li with Some l => l | None => [] end)
    else if hs && truthy (dict_get Nat.eqb (pc_singles c) li) then
      (false, false, match dict_get Nat.eqb (pc_singles c) li with Some l => l | None => [] end)
    else (hb, hs, cp) in
  match cp1 with
  | pn :: rest => do r <- permute stage pn prev ;; Ok (r, (hb1, hs1, rest))
  | [] => do pn <- nth_res (pc_method c) li ;; do r <- permute stage pn prev ;; Ok (r, (hb1, hs1, []))
  end.

Definition nonempty_rule (o : option (places * places)) : bool :=
  match o with Some _ => true | None => false end.

Definition pick (st : stroke) (p : places * places) : places := if st then fst p else snd p.

(* DixonoidsGenerator._gen_row *)
Definition dixon_gen_row (plain bob single : dixon_rules) (stage : nat) (prev : row) (st : stroke)
           (hb hs : bool) : result (row * (bool * bool)) :=
  do leading <- nth_res prev 0 ;;
  match (if hb then dict_get Nat.eqb bob leading else None) with
  | Some rule =>
      do r <- permute stage (pick st rule) prev ;;
      Ok (r, if st then (hb, hs) else (false, false))
  | None =>
      match (if hs then dict_get Nat.eqb single leading else None) with
      | Some rule =>
          do r <- permute stage (pick st rule) prev ;;
          Ok (r, if st then (hb, hs) else (false, false))
      | None =>
          match dict_get Nat.eqb plain leading with
          | Some rule => do r <- permute stage (pick st rule) prev ;; Ok (r, (hb, hs))
          | None =>
              match dict_get Nat.eqb plain 0 with
              | Some rule => do r <- permute stage (pick st rule) prev ;; Ok (r, (hb, hs))
              | None => Err EKey
              end
          end
      end
  end.

(* RowGenerator.next_row_and_calls(stroke) *)
Definition gen_next (g : gen) (st : stroke) : result (gen * (row * list call)) :=
  match g_kind g with
  | GPN c =>
      do '(r, (hb, hs, cp)) <- pn_gen_row c (g_stage g) (g_row g) (g_index g)
                                 (g_has_bob g) (g_has_single g) (g_call_pn g) ;;
      Ok (set_state g (S (g_index g)) r hb hs cp, (r, []))
  | GPlainHunt =>
      do r <- permute (g_stage g) (if st then [] else [1; g_stage g]) (g_row g) ;;
      Ok (set_state g (S (g_index g)) r (g_has_bob g) (g_has_single g) (g_call_pn g), (r, []))
  | GDixon plain bob single =>
      do '(r, (hb, hs)) <- dixon_gen_row plain bob single (g_stage g) (g_row g) st
                             (g_has_bob g) (g_has_single g) ;;
      Ok (set_state g (S (g_index g)) r hb hs (g_call_pn g), (r, []))
  | GComplib loaded _ _ =>
      match nth_error loaded (g_index g) with
      | Some (r, cs) =>
          Ok (set_state g (S (g_index g)) r (g_has_bob g) (g_has_single g) (g_call_pn g), (r, cs))
      | None =>
          do r <- rounds (g_stage g) ;;
          Ok (set_state g (S (g_index g)) r (g_has_bob g) (g_has_single g) (g_call_pn g), (r, []))
      end
  | GPlaceHolder => Err ENullRowGen
  end.

Definition gen_start_stroke (g : gen) : stroke :=
  match g_kind g with
  | GPN c => stroke_of_index (pc_start_index c)
  | GComplib _ _ ss => ss
  | _ => true
  end.

Definition gen_early_calls (g : gen) : list (Z * list call) :=
  match g_kind g with GComplib _ early _ => early | _ => [] end.

(* ---------- constructors ---------- *)

Definition mk_gen (k : gen_kind) (stage : nat) (custom : option row) (start : row) : gen :=
  {| g_kind := k; g_stage := stage; g_custom := custom; g_start_row := start;
     g_index := 0; g_row := start; g_has_bob := false; g_has_single := false; g_call_pn := [] |}.

(* RowGenerator.__init__: generate_starting_row(stage, start_row) *)
Definition base_init (k : gen_kind) (stage : nat) (custom : option (option row)) : result gen :=
  do start <- generate_starting_row stage custom ;;
  Ok (mk_gen k stage (match custom with Some (Some r) => Some r | _ => None end) start).

(* parse_call_dict: {(i - 1) % lead_len: convert_pn(s)} in insertion order *)
Fixpoint parse_call_dict (lead_len : nat) (defs : list (Z * ustring)) (acc : call_dict)
  : result call_dict :=
  match defs with
  | [] => Ok acc
  | (i, s) :: t =>
      do pn <- convert_pn s ;;
      if lead_len =? 0 then Err EZeroDiv else
      parse_call_dict lead_len t (dict_set Nat.eqb acc (zmod_nat (i - 1) lead_len) pn)
  end.

Definition DEFAULT_BOB : list (Z * ustring) := [(0%Z, [49; 52]%N)].          (* {0: "14"} *)
Definition DEFAULT_SINGLE : list (Z * ustring) := [(0%Z, [49; 50; 51; 52]%N)]. (* {0: "1234"} *)

(* PlaceNotationGenerator.__init__ *)
Definition mk_pn_gen (stage : nat) (method : ustring) (bob single : option (list (Z * ustring)))
           (start_index : Z) (custom : option (option row)) : result gen :=
  do start <- generate_starting_row stage custom ;;
  do mpn <- convert_pn method ;;
  do bobs <- parse_call_dict (length mpn) (match bob with Some b => b | None => DEFAULT_BOB end) [] ;;
  do singles <- parse_call_dict (length mpn)
                  (match single with Some b => b | None => DEFAULT_SINGLE end) [] ;;
  Ok (mk_gen (GPN {| pc_method := mpn; pc_bobs := bobs; pc_singles := singles;
                     pc_start_index := start_index |})
             stage (match custom with Some (Some r) => Some r | _ => None end) start).

Definition mk_plain_hunt (stage : nat) (custom : option (option row)) : result gen :=
  base_init GPlainHunt stage custom.

(* DixonoidsGenerator._convert_pn_dict: convert_pn(pn)[0] for the two strings of each rule *)
Definition first_change (s : ustring) : result places :=
  do l <- convert_pn s ;; nth_res l 0.
Fixpoint convert_rules (rules : list (nat * (ustring * ustring))) : result dixon_rules :=
  match rules with
  | [] => Ok []
  | (k, (h, b)) :: t =>
      do hp <- first_change h ;; do bp <- first_change b ;; do rest <- convert_rules t ;;
      Ok ((k, (hp, bp)) :: rest)
  end.

Definition uX : ustring := [120%N].
Definition DixonsRules : list (nat * (ustring * ustring)) :=
  [(0, (uX, [49%N])); (1, (uX, [50%N])); (2, (uX, [52%N])); (4, (uX, [52%N]))].
Definition DixonDefaultBob : list (nat * (ustring * ustring)) := [(1, (uX, [52%N]))].
Definition DixonDefaultSingle : list (nat * (ustring * ustring)) := [(1, (uX, [49;50;51;52]%N))].

Definition mk_dixon (stage : nat) (plain bob single : option (list (nat * (ustring * ustring))))
           (custom : option (option row)) : result gen :=
  do start <- generate_starting_row stage custom ;;
  do p <- convert_rules (match plain with Some x => x | None => DixonsRules end) ;;
  do b <- convert_rules (match bob with Some x => x | None => DixonDefaultBob end) ;;
  do s <- convert_rules (match single with Some x => x | None => DixonDefaultSingle end) ;;
  Ok (mk_gen (GDixon p b s) stage (match custom with Some (Some r) => Some r | _ => None end) start).

Definition mk_place_holder : gen := mk_gen GPlaceHolder 0 None [].

(* ---------- the built-in methods: PlaceNotationGenerator.grandsire / stedman ---------- *)

Fixpoint join_dots (l : list ustring) : ustring :=
  match l with
  | [] => []
  | [a] => a
  | a :: t => a ++ cDOT :: join_dots t
  end.

Definition grandsire_notation (stage : nat) : result ustring :=
  do sb <- convert_to_bell_string stage ;;
  let cross : ustring := if Nat.odd stage then [sb] else [cDASH] in
  let body := map (fun i => if Nat.odd i then [49%N] else cross) (seq 0 (2 * stage)) in
  Ok (join_dots (match body with _ :: t => [51%N] :: t | [] => [] end)).

Definition mk_grandsire (stage : nat) (custom : option (option row)) : result gen :=
  do notation <- grandsire_notation stage ;;
  (* main_body[0] = "3" raises IndexError on an empty list (stage 0); unreachable via special titles *)
  if stage =? 0 then Err EIndex else
  mk_pn_gen stage notation (Some [((-1)%Z, [51%N])]) (Some [((-1)%Z, [51; 46; 49; 50; 51]%N)]) 0 custom.

Definition stedman_notation (sb : N) : ustring :=
  (* f"3.1.{sb}.3.1.3.1.3.{sb}.1.3.1" *)
  [51;46;49;46]%N ++ [sb] ++ [46;51;46;49;46;51;46;49;46;51;46]%N ++ [sb] ++ [46;49;46;51;46;49]%N.

Definition mk_stedman (stage : nat) (custom : option (option row)) : result gen :=
  if Nat.even stage then Err EAssert else
  if stage =? 5 then
    mk_pn_gen 5 (stedman_notation 53%N) (Some [])
              (Some [(6%Z, [51;52;53]%N); (12%Z, [49;52;53]%N)]) 0 custom
  else
    do sb <- convert_to_bell_string stage ;;
    do sb1 <- convert_to_bell_string (stage - 1) ;;
    do sb2 <- convert_to_bell_string (stage - 2) ;;
    mk_pn_gen stage (stedman_notation sb)
              (Some [(3%Z, [sb2]); (9%Z, [sb2])])
              (Some [(3%Z, [sb2; sb1; sb]); (9%Z, [sb2; sb1; sb])]) 0 custom.

(* ---------- histories of generator operations ---------- *)

Inductive gen_op := OpBob | OpSingle | OpReset | OpNext (st : stroke).

(* run a history; the output lists the row (and calls) returned by each OpNext, in order;
   an exception stops the run and is reported after the rows produced so far *)
Fixpoint gen_run (g : gen) (ops : list gen_op) : list (row * list call) * option exn :=
  match ops with
  | [] => ([], None)
  | OpBob :: t => gen_run (gen_set_bob g) t
  | OpSingle :: t => gen_run (gen_set_single g) t
  | OpReset :: t => gen_run (gen_reset g) t
  | OpNext st :: t =>
      match gen_next g st with
      | Ok (g', rc) => let '(rs, e) := gen_run g' t in (rc :: rs, e)
      | Err e => ([], Some e)
      end
  end.
