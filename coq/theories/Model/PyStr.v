(* Python string primitives used by the parsers: str.strip(), str.isnumeric(), int(str).
   Character classes come from the generated UnicodeTables.v.  No proofs here. *)
From Wh Require Export Prelude PN UnicodeTables.
From Coq Require Import NArith ZArith.

Definition in_ranges (rs : list (N * N)) (c : N) : bool :=
  existsb (fun r => (fst r <=? c)%N && (c <=? snd r)%N) rs.

Definition py_isspace (c : N) : bool := in_ranges SPACE_RANGES c.
Definition py_isnumeric_char (c : N) : bool := in_ranges NUMERIC_RANGES c.
Definition dec_value (c : N) : option Z :=
  match find (fun r => (fst r <=? c)%N && (c <=? snd r)%N) DECIMAL_RANGES with
  | Some (a, _) => Some (Z.of_N ((c - a) mod 10))
  | None => None
  end.

Definition py_strip (s : ustring) : ustring := strip py_isspace s.

(* str.isnumeric(): non-empty and every character numeric *)
Definition py_isnumeric (s : ustring) : bool :=
  match s with [] => false | _ => forallb py_isnumeric_char s end.
(* str.isdigit() is only used on ASCII-lowered titles; not modelled *)

Definition cUNDER : N := 95.
Definition cMINUS : N := 45.

(* digits with single underscores between digits; returns value and number of digits *)
Fixpoint int_digits (s : ustring) (prev_digit : bool) (acc : Z) (n : N) : option (Z * N) :=
  match s with
  | [] => if prev_digit then Some (acc, n) else None
  | c :: t =>
      if N.eqb c cUNDER then
        if prev_digit then match t with [] => None | _ => int_digits t false acc n end else None
      else match dec_value c with
           | Some d => int_digits t true (acc * 10 + d)%Z (n + 1)%N
           | None => None
           end
  end.

(* int(s) for a str: None = ValueError.  Whitespace (str.isspace) is stripped, one optional sign,
   any Unicode decimal digits, PEP 515 underscores, at most 4300 digits. *)
Definition py_int (s : ustring) : option Z :=
  let s1 := py_strip s in
  let '(neg, body) := match s1 with
                      | c :: t => if N.eqb c cMINUS then (true, t)
                                  else if N.eqb c cPLUS then (false, t) else (false, s1)
                      | [] => (false, [])
                      end in
  match int_digits body false 0%Z 0%N with
  | Some (v, n) => if (n <=? 4300)%N then Some (if neg then (- v)%Z else v) else None
  | None => None
  end.

Definition ends_with (c : N) (s : ustring) : bool :=
  match rev s with x :: _ => N.eqb x c | [] => false end.
