(* Model of wheatley/rhythm/regression.py and wheatley/rhythm/wait_for_user.py over exact rationals.
   IEEE-754 doubles and numpy are MODELLED by Q (see DESIGN.md 2.5): the harness compares times
   within a tolerance and discards knife-edge cases using the margins recorded here.
   float("inf") is [None] in [r_start].  No proofs here. *)
From Wh Require Export Prelude Permute PN Gens.
From Coq Require Import NArith ZArith QArith Qreduction.
From RecordUpdate Require Import RecordSet.
Import RecordSetNotations.
Local Open Scope Q_scope.

Definition Qr := Qred.
Definition qadd a b := Qred (a + b).
Definition qsub a b := Qred (a - b).
Definition qmul a b := Qred (a * b).
Definition qdiv a b := Qred (a / b).
Definition Qltb (a b : Q) : bool := negb (Qle_bool b a).
Definition Qeqb (a b : Q) : bool := Qeq_bool a b.
Definition qabs (a : Q) : Q := if Qle_bool 0 a then a else Qred (- a).
Definition qmin (a b : Q) : Q := if Qle_bool a b then a else b.
Definition qmax (a b : Q) : Q := if Qle_bool a b then b else a.
Definition Qnat (n : nat) : Q := inject_Z (Z.of_nat n).

(* Rounding to a 2^-100 grid.  Exact rational regression makes numerators grow geometrically from
   one regression to the next, which no evaluator survives; the EXECUTABLE instance of the model
   (r_round = true, used by the correspondence check) therefore rounds the results of the regression,
   of lerp and of the peal-speed change - thirty orders of magnitude finer than the doubles it
   stands for.  The theorems are about the exact instance (r_round = false). *)
Definition qround (b : bool) (q : Q) : Q :=
  if b then Qred ((Qnum q * 2 ^ 100 / Zpos (Qden q))%Z # Pos.pow 2 100) else q.

(* ---------- exp(-y) for y >= 0: fixed point, 2^-80, Taylor after halving 8 times ---------- *)
Definition FP : Z := (2 ^ 80)%Z.
Definition fp_mul (a b : Z) : Z := (a * b / FP)%Z.
Fixpoint taylor_neg (r : Z) (k : nat) (i : Z) (term acc : Z) : Z :=
  match k with
  | O => acc
  | S k' => let term' := (- fp_mul term r / i)%Z in taylor_neg r k' (i + 1)%Z term' (acc + term')%Z
  end.
Fixpoint sq_n (n : nat) (x : Z) : Z := match n with O => x | S k => sq_n k (fp_mul x x) end.
(* exp(-y), y : Q, y >= 0; 0 beyond 60 (the true value is < 1e-26 there) *)
Definition exp_neg (y : Q) : Q :=
  if Qle_bool 60 y then 0
  else
    let yz := (Qnum y * FP / Zpos (Qden y))%Z in     (* y in fixed point *)
    let r := (yz / 256)%Z in
    let e := taylor_neg r 24 1%Z FP FP in
    Qred (sq_n 8 e # Pos.pow 2 80).

Definition WEIGHT_REJECTION_THRESHOLD : Q := 1 # 1000.

(* ---------- regression ---------- *)
Definition datapoint := (Q * Q * Q)%type.    (* blow_time, real_time, weight *)

Fixpoint sums (d : list datapoint) : Q * Q * Q * Q * Q :=   (* Sw, Sx, Sy, Sxx, Sxy *)
  match d with
  | [] => (0, 0, 0, 0, 0)
  | (x, y, w) :: t =>
      let '(sw, sx, sy, sxx, sxy) := sums t in
      (qadd sw w, qadd sx (qmul w x), qadd sy (qmul w y), qadd sxx (qmul w (qmul x x)),
       qadd sxy (qmul w (qmul x y)))
  end.

(* calculate_regression: (X'WX)^-1 X'Wy in closed form; None when the normal matrix is singular *)
Definition calculate_regression (d : list datapoint) : option (Q * Q) :=
  let '(sw, sx, sy, sxx, sxy) := sums d in
  let det := qsub (qmul sw sxx) (qmul sx sx) in
  if Qeqb det 0 then None
  else Some (qdiv (qsub (qmul sxx sy) (qmul sx sxy)) det, qdiv (qsub (qmul sw sxy) (qmul sx sy)) det).

Definition peal_speed_to_blow_interval (peal_minutes : Q) (num_bells : nat) : Q :=
  qdiv (qdiv (qmul peal_minutes 60) 2520) (Qnat (num_bells * 2 + 1)%nat).

Definition lerp (a b t : Q) : Q := qadd (qmul (qsub 1 t) a) (qmul t b).

Record regr := mkRegr {
  r_pref_inertia : Q;
  r_init_inertia : Q;
  r_peal_speed : Q;
  r_gap : Q;
  r_min : nat;
  r_max : nat;
  r_stage : nat;
  r_start : option Q;                                  (* _start_time; None = +infinity *)
  r_interval : Q;                                      (* _blow_interval *)
  r_expected : list ((nat * bool) * (nat * nat));      (* (bell, stroke) -> (row, place) *)
  r_data : list datapoint;
  r_return : bool;                                     (* _should_return_to_mainloop *)
  r_round : bool;                                      (* see qround *)
  (* bookkeeping of the MODEL, not of the code: smallest distance of any float comparison from its
     knife edge, and whether an IEEE special value (nan) or a singular matrix was met *)
  r_margin : Q;
  r_unsupported : bool;
}.

Definition BIG : Q := 1000000.

Definition regr_init (inertia init_inertia peal_speed gap : Q) (mn mx : nat) : regr :=
  {| r_pref_inertia := inertia; r_init_inertia := init_inertia; r_peal_speed := peal_speed;
     r_gap := gap; r_min := mn; r_max := mx; r_stage := 0%nat; r_start := Some 0; r_interval := 0;
     r_expected := []; r_data := []; r_return := false; r_round := true; r_margin := BIG;
     r_unsupported := false |}.

#[export] Instance eta_regr : Settable _ :=
  settable! mkRegr <r_pref_inertia; r_init_inertia; r_peal_speed; r_gap; r_min; r_max; r_stage; r_start;
                    r_interval; r_expected; r_data; r_return; r_round; r_margin; r_unsupported>.

Definition upd (r : regr) (start : option Q) (interval : Q) (data : list datapoint) : regr :=
  r <| r_start := start |> <| r_interval := interval |> <| r_data := data |>.
Definition upd_expected (r : regr) (e : list ((nat * bool) * (nat * nat))) : regr :=
  r <| r_expected := e |>.
Definition upd_cfg (r : regr) (inertia peal : Q) (stage : nat) : regr :=
  r <| r_pref_inertia := inertia |> <| r_peal_speed := peal |> <| r_stage := stage |>.
Definition upd_return (r : regr) (b : bool) : regr := r <| r_return := b |>.
Definition note_margin (r : regr) (m : Q) : regr := r <| r_margin := qmin (r_margin r) (qabs m) |>.
Definition note_unsupported (r : regr) : regr := r <| r_unsupported := true |>.

(* index_to_blow_time: row*stage + place + (row // 2) * gap *)
Definition index_to_blow_time (r : regr) (row place : nat) : Q :=
  qadd (Qnat (row * r_stage r + place)%nat) (qmul (Qnat (row / 2)%nat) (r_gap r)).

(* index_to_real_time; None = inf *)
Definition index_to_real_time (r : regr) (row place : nat) : option Q :=
  match r_start r with
  | None => None
  | Some s => Some (qadd s (qmul (r_interval r) (index_to_blow_time r row place)))
  end.

(* _add_data_point *)
Definition add_data_point (r : regr) (row place : nat) (real_time weight : Q) : result regr :=
  let bt := index_to_blow_time r row place in
  let d1 := r_data r ++ [(bt, real_time, weight)] in
  let r := fold_left (fun r' p => note_margin r' (qsub (snd p) WEIGHT_REJECTION_THRESHOLD)) d1 r in
  let d2 := filter (fun p => Qltb WEIGHT_REJECTION_THRESHOLD (snd p)) d1 in
  do d3 <- (if (r_max r <=? length d2)%nat then match d2 with _ :: t => Ok t | [] => Err EIndex end
            else Ok d2) ;;
  let inertia := if (0 <? row)%nat then r_pref_inertia r else r_init_inertia r in
  if Qeqb inertia 1 then Ok (upd r (r_start r) (r_interval r) d3)
  else if (r_min r <=? length d3)%nat then
    match calculate_regression d3 with
    | None => Ok (note_unsupported (upd r (r_start r) (r_interval r) d3))
    | Some (ns0, ni0) =>
        let ns := qround (r_round r) ns0 in
        let ni := qround (r_round r) ni0 in
        let lerp := fun a b t => qround (r_round r) (lerp a b t) in
        match r_start r with
        | Some s => Ok (upd r (Some (lerp ns s inertia)) (lerp ni (r_interval r) inertia) d3)
        | None =>
            (* lerp(new, inf, t): inf for t > 0, nan for t = 0 *)
            if Qeqb inertia 0 then Ok (note_unsupported (upd r None (lerp ni (r_interval r) inertia) d3))
            else Ok (upd r None (lerp ni (r_interval r) inertia) d3)
        end
    end
  else Ok (upd r (r_start r) (r_interval r) d3).

(* expect_bell *)
Definition key_eqb (a b : nat * bool) : bool := Nat.eqb (fst a) (fst b) && Bool.eqb (snd a) (snd b).
Definition regr_expect (r : regr) (bell row place : nat) (st : bool) : regr :=
  upd_expected r (dict_set key_eqb (r_expected r) (bell, st) (row, place)).

(* on_bell_ring *)
Definition regr_on_bell_ring (r : regr) (bell : nat) (st : bool) (real_time : Q) : result regr :=
  match dict_get key_eqb (r_expected r) (bell, st) with
  | None => Ok r
  | Some (row, place) =>
      let ebt := index_to_blow_time r row place in
      if Qeqb (r_interval r) 0 then Err EZeroDiv else
      (* diff; None = -inf *)
      let diff := match r_start r with
                  | Some s => Some (qsub (qdiv (qsub real_time s) (r_interval r)) ebt)
                  | None => None
                  end in
      let r1 := if Qeqb ebt 0 then upd r (Some real_time) (r_interval r) (r_data r) else r in
      let w := if (length (r_data r1) <=? 1)%nat then 1
               else match diff with Some d => exp_neg (qmul d d) | None => 0 end in
      do r2 <- add_data_point r1 row place real_time w ;;
      Ok (upd_expected r2 (dict_del key_eqb (r_expected r2) (bell, st)))
  end.

(* initialise_line *)
Definition regr_initialise_line (r : regr) (stage : nat) (user_controls_treble : bool)
           (start_time : Q) : result regr :=
  let r := upd_cfg r (r_pref_inertia r) (r_peal_speed r) stage in
  let r := upd r (r_start r) (peal_speed_to_blow_interval (r_peal_speed r) stage) [] in
  if user_controls_treble then Ok (upd r None (r_interval r) (r_data r))
  else
    do r1 <- add_data_point r 0%nat 0%nat start_time 1 ;;
    Ok (upd r1 (Some start_time) (r_interval r1) (r_data r1)).

(* values of s_wheatley_setting entries *)
Inductive sval := VBool (b : bool) | VInt (i : Z) | VNum (q : Q) | VStr (s : ustring) | VNull.

Definition is_digit (c : N) : bool := ((48 <=? c) && (c <=? 57))%N.
Fixpoint digits_val (s : ustring) (acc : Z) : Z :=
  match s with [] => acc | c :: t => digits_val t (acc * 10 + Z.of_N (c - 48)%N)%Z end.
Definition all_digits (s : ustring) : bool :=
  match s with [] => false | _ => forallb is_digit s end.

(* float(value): Ok q | Err EValue (caught by the code) | Err EType (not caught).  Strings are
   restricted by the generators to plain digit strings or strings float() rejects. *)
Definition to_float (v : sval) : result Q :=
  match v with
  | VBool b => Ok (if b then 1 else 0)
  | VInt i => Ok (inject_Z i)
  | VNum q => Ok q
  | VStr s => if all_digits s then Ok (inject_Z (digits_val s 0%Z)) else Err EValue
  | VNull => Err EType
  end.
(* int(value): truncation towards zero for floats *)
Definition to_int (v : sval) : result Z :=
  match v with
  | VBool b => Ok (if b then 1 else 0)%Z
  | VInt i => Ok i
  | VNum q => Ok (Z.quot (Qnum q) (Zpos (Qden q)))
  | VStr s => if all_digits s then Ok (digits_val s 0%Z) else Err EValue
  | VNull => Err EType
  end.

Inductive skey := KUpDownIn | KStopAtRounds | KCallComp | KSensitivity | KInertia | KPealSpeed | KOther.

(* RegressionRhythm.change_setting; an Err is an exception escaping the handler *)
Definition regr_change_setting (r : regr) (k : skey) (v : sval) (real_time : Q) : result regr :=
  match k with
  | KInertia =>
      match to_float v with
      | Ok f => if Qltb 1 f || Qltb f 0 then Ok r
                else Ok (upd_cfg r f (r_peal_speed r) (r_stage r))
      | Err EValue => Ok r
      | Err e => Err e
      end
  | KPealSpeed =>
      do p <- to_int v ;;
      if (p <=? 0)%Z then Ok r
      else
        let r := upd_cfg r (r_pref_inertia r) (inject_Z p) (r_stage r) in
        if Qeqb (r_interval r) 0 then Ok r
        else
          let ni := peal_speed_to_blow_interval (inject_Z p) (r_stage r) in
          match r_start r with
          | None => Ok (upd r None ni (r_data r))
          | Some s =>
              let cbt := qdiv (qsub real_time s) (r_interval r) in
              Ok (upd r (Some (qround (r_round r) (qsub real_time (qmul cbt ni)))) ni (r_data r))
          end
  | _ => Ok r
  end.

(* what RegressionRhythm.wait_for_bell_time does next *)
Inductive wait_plan :=
| WPollPullOff                  (* `while self._start_time == inf: sleep(0.01)`, then plain return *)
| WSleep (d : Q) (margin : Q).  (* one sleep, then `_should_return_to_mainloop = False` *)

Definition SLEEP_001 : Q := 5764607523034235 # 576460752303423488.   (* the double 0.01 *)
Definition SLEEP_02 : Q := 3602879701896397 # 18014398509481984.     (* the double 0.2 *)

Definition regr_wait_plan (r : regr) (current_time : Q) (row place : nat) (uc : bool) : wait_plan :=
  match r_start r with
  | None => if uc then WPollPullOff
            else WSleep (if Qeqb (r_interval r) 0 then SLEEP_02 else r_interval r) BIG
  | Some s =>
      if Qeqb s 0 then WSleep (if Qeqb (r_interval r) 0 then SLEEP_02 else r_interval r) BIG
      else
        let bt := qadd s (qmul (r_interval r) (index_to_blow_time r row place)) in
        if Qltb current_time bt then WSleep (qsub bt current_time) (qsub bt current_time)
        else WSleep SLEEP_001 (qsub bt current_time)
  end.

(* ---------- WaitForUserRhythm ---------- *)
Record waitst := {
  ws_stroke : bool;               (* _current_stroke *)
  ws_exp_h : list nat;            (* _expected_bells[HANDSTROKE] (a set) *)
  ws_exp_b : list nat;
  ws_early_h : list nat;          (* _early_bells[HANDSTROKE] *)
  ws_early_b : list nat;
  ws_delay : Q;
  ws_return : bool;
}.
Definition wait_init : waitst :=
  {| ws_stroke := true; ws_exp_h := []; ws_exp_b := []; ws_early_h := []; ws_early_b := [];
     ws_delay := 0; ws_return := false |}.

Definition set_add (x : nat) (s : list nat) : list nat := if mem_nat x s then s else s ++ [x].
Definition set_remove (x : nat) (s : list nat) : list nat := filter (fun y => negb (Nat.eqb x y)) s.

Definition ws_exp (w : waitst) (st : bool) := if st then ws_exp_h w else ws_exp_b w.
Definition ws_early (w : waitst) (st : bool) := if st then ws_early_h w else ws_early_b w.
Definition ws_with (w : waitst) (stroke : bool) (eh eb yh yb : list nat) (delay : Q) (ret : bool) :=
  {| ws_stroke := stroke; ws_exp_h := eh; ws_exp_b := eb; ws_early_h := yh; ws_early_b := yb;
     ws_delay := delay; ws_return := ret |}.
Definition ws_set_exp (w : waitst) (st : bool) (s : list nat) : waitst :=
  if st then ws_with w (ws_stroke w) s (ws_exp_b w) (ws_early_h w) (ws_early_b w) (ws_delay w) (ws_return w)
  else ws_with w (ws_stroke w) (ws_exp_h w) s (ws_early_h w) (ws_early_b w) (ws_delay w) (ws_return w).
Definition ws_set_early (w : waitst) (st : bool) (s : list nat) : waitst :=
  if st then ws_with w (ws_stroke w) (ws_exp_h w) (ws_exp_b w) s (ws_early_b w) (ws_delay w) (ws_return w)
  else ws_with w (ws_stroke w) (ws_exp_h w) (ws_exp_b w) (ws_early_h w) s (ws_delay w) (ws_return w).
Definition ws_set_stroke (w : waitst) (st : bool) : waitst :=
  ws_with w st (ws_exp_h w) (ws_exp_b w) (ws_early_h w) (ws_early_b w) (ws_delay w) (ws_return w).
Definition ws_set_delay (w : waitst) (d : Q) : waitst :=
  ws_with w (ws_stroke w) (ws_exp_h w) (ws_exp_b w) (ws_early_h w) (ws_early_b w) d (ws_return w).
Definition ws_set_return (w : waitst) (b : bool) : waitst :=
  ws_with w (ws_stroke w) (ws_exp_h w) (ws_exp_b w) (ws_early_h w) (ws_early_b w) (ws_delay w) b.

(* WaitForUserRhythm.expect_bell (the part after forwarding to the inner rhythm) *)
Definition wait_expect (w : waitst) (bell : nat) (st : bool) : waitst :=
  let w1 := if Bool.eqb st (ws_stroke w) then w
            else ws_set_early (ws_set_exp (ws_set_stroke w st) st []) (negb st) [] in
  if mem_nat bell (ws_early w1 st) then w1 else ws_set_exp w1 st (set_add bell (ws_exp w1 st)).

(* WaitForUserRhythm.on_bell_ring (the part after forwarding) *)
Definition wait_on_bell_ring (w : waitst) (bell : nat) (st : bool) : waitst :=
  let cur := ws_stroke w in
  if Bool.eqb st cur then
    let w1 := ws_set_exp w cur (set_remove bell (ws_exp w cur)) in
    ws_set_early w1 (negb cur) (set_remove bell (ws_early w1 (negb cur)))
  else ws_set_early w (negb cur) (set_add bell (ws_early w (negb cur))).

(* the clearing part of WaitForUserRhythm.initialise_line *)
Definition wait_clear (w : waitst) : waitst :=
  ws_with w true [] [] [] [] (ws_delay w) (ws_return w).

(* ---------- the three rhythms the system model can run ---------- *)
Inductive rhythm :=
| RScripted (durs : list Q)        (* harness rhythm: wait_for_bell_time sleeps the next scripted duration *)
| RRegr (r : regr)
| RWait (w : waitst) (r : regr).
