(* Model of wheatley/tower.py: Wheatley's view of the tower (strokes, assignments, user names) and
   the handlers that update it from server messages.  No proofs here. *)
From Wh Require Export Prelude Permute PN Gens.
From Coq Require Import NArith ZArith.

Record tower := {
  tw_bells : list bool;              (* _bell_state: true = handstroke *)
  tw_assigned : list (nat * Z);      (* _assigned_users: bell NUMBER -> user id (insertion ordered dict) *)
  tw_names : list (Z * ustring);     (* _user_name_map *)
}.

Definition tower0 : tower := {| tw_bells := []; tw_assigned := []; tw_names := [] |}.

Definition tw_size (t : tower) : nat := length (tw_bells t).

(* get_stroke(bell): None when bell.index >= len (bell numbers are >= 1 by construction of Bell) *)
Definition tw_get_stroke (t : tower) (bell : nat) : option bool :=
  if bell =? 0 then None else nth_error (tw_bells t) (bell - 1).

Definition opt_ustr_eqb (a b : option ustring) : bool :=
  match a, b with
  | None, None => true
  | Some x, Some y => ustr_eqb x y
  | _, _ => false
  end.

(* is_bell_assigned_to(bell, user_name) *)
Definition tw_assigned_to (t : tower) (bell : nat) (name : option ustring) : bool :=
  match dict_get Nat.eqb (tw_assigned t) bell with
  | None => match name with None => true | Some _ => false end
  | Some uid => opt_ustr_eqb (dict_get Z.eqb (tw_names t) uid) name
  end.

Definition set_bells (t : tower) (v : list bool) : tower :=
  {| tw_bells := v; tw_assigned := tw_assigned t; tw_names := tw_names t |}.
Definition set_assigned (t : tower) (a : list (nat * Z)) : tower :=
  {| tw_bells := tw_bells t; tw_assigned := a; tw_names := tw_names t |}.
Definition set_names (t : tower) (n : list (Z * ustring)) : tower :=
  {| tw_bells := tw_bells t; tw_assigned := tw_assigned t; tw_names := n |}.

(* _on_user_entered / _on_user_list *)
Definition tw_user_entered (t : tower) (uid : Z) (name : ustring) : tower :=
  set_names t (dict_set Z.eqb (tw_names t) uid name).
Definition tw_user_list (t : tower) (l : list (Z * ustring)) : tower :=
  fold_left (fun t' un => tw_user_entered t' (fst un) (snd un)) l t.

(* _on_user_leave: delete every bell whose holder is uid *)
Definition tw_user_left (t : tower) (uid : Z) : tower :=
  set_assigned t (filter (fun bu => negb (Z.eqb (snd bu) uid)) (tw_assigned t)).

(* _on_assign_user: Bell.from_number(raw_bell) raises ValueError outside 1..16; user 0 un-assigns *)
Definition tw_assign (t : tower) (bell : nat) (uid : Z) : result tower :=
  if bell_ok bell then
    if Z.eqb uid 0 then Ok (set_assigned t (dict_del Nat.eqb (tw_assigned t) bell))
    else Ok (set_assigned t (dict_set Nat.eqb (tw_assigned t) bell uid))
  else Err EValue.

(* the tower-side part of _on_size_change; the bool says whether the reset callbacks run *)
Definition tw_size_change (t : tower) (n : nat) : tower * bool :=
  if n =? tw_size t then (t, false)
  else (set_bells (set_assigned t (filter (fun bu => fst bu <=? n) (tw_assigned t))) (repeat true n), true).

(* ---------- the view as a fold over the tower-related server messages ---------- *)
Inductive tmsg :=
| TBellRung (state : list bool) (who : nat)
| TGlobal (state : list bool)
| TUserEntered (uid : Z) (name : ustring)
| TUserList (l : list (Z * ustring))
| TUserLeft (uid : Z)
| TAssign (bell : nat) (uid : Z)
| TSizeChange (n : nat).

(* the effect of one message on the view (an exception inside a handler leaves the view as it was
   at the raise point, which for all seven handlers is what is returned here) *)
Definition tower_step (t : tower) (m : tmsg) : tower :=
  match m with
  | TBellRung state _ => set_bells t state
  | TGlobal state => set_bells t state
  | TUserEntered uid name => tw_user_entered t uid name
  | TUserList l => tw_user_list t l
  | TUserLeft uid => tw_user_left t uid
  | TAssign bell uid => match tw_assign t bell uid with Ok t' => t' | Err _ => t end
  | TSizeChange n => fst (tw_size_change t n)
  end.

Definition tower_run (h : list tmsg) : tower := fold_left tower_step h tower0.
