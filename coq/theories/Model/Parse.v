(* Model of wheatley/parsing.py (parse_peal_speed, parse_call, parse_start_row,
   parse_place_notation) and of complib_composition_generator.parse_arg / the request URL.
   Python's int() raises ValueError (EValue); [catch] marks the places where the code has a
   try/except ValueError that re-raises the option's own error (EOwn).  urlparse is library code:
   parse_arg is modelled from the (path, query) it returns.  No proofs here. *)
From Wh Require Export Prelude PN PyStr Permute Gens Complib.
From Coq Require Import NArith ZArith.

Definition int_raise (s : ustring) : result Z :=
  match py_int s with Some z => Ok z | None => Err EValue end.
(* try: ... except ValueError: exit_with_message(...) *)
Definition catch {A} (r : result A) : result A :=
  match r with Err EValue => Err EOwn | x => x end.

Definition cH : N := 104.  Definition cM : N := 109.  Definition cCOLON : N := 58.  Definition cSLASH : N := 47.
Definition cAMPER : N := 38.  Definition cEQ : N := 61.  Definition cQMARK : N := 63.

Definition contains (c : N) (s : ustring) : bool := existsb (N.eqb c) s.

(* ---------- parse_peal_speed ---------- *)
Definition parse_peal_speed (s : ustring) : result Z :=
  let st := py_strip s in
  let st := if ends_with cM st then removelast st else st in
  if contains cH st then
    match split_on cH st with
    | [hour; minute] =>
        let hour := py_strip hour in
        let minute := py_strip minute in
        do hours <- catch (int_raise hour) ;;
        if (hours <? 0)%Z then Err EOwn else
        do minutes <- (match minute with [] => Ok 0%Z | _ => catch (int_raise minute) end) ;;
        if (minutes <? 0)%Z then Err EOwn
        else if (59 <? minutes)%Z then Err EOwn
        else Ok (hours * 60 + minutes)%Z
    | _ => Err EOwn     (* more than one 'h' *)
    end
  else
    do minutes <- catch (int_raise st) ;;
    if (minutes <? 0)%Z then Err EOwn else Ok minutes.

(* ---------- parse_call ---------- *)
Fixpoint parse_call_segments (segs : list ustring) (acc : list (Z * ustring)) : result (list (Z * ustring)) :=
  match segs with
  | [] => Ok acc
  | seg :: rest =>
      do '(location, pn) <-
         (if contains cCOLON seg then
            match split_on cCOLON seg with
            | [l; p] => do loc <- catch (int_raise (py_strip l)) ;; Ok (loc, py_strip p)
            | _ => Err EOwn          (* `a, b = segment.split(":")` raises ValueError: caught *)
            end
          else Ok (0%Z, py_strip seg)) ;;
      match pn with
      | [] => Err EOwn
      | _ =>
          if negb (valid_pn pn) then Err EOwn
          else match dict_get Z.eqb acc location with
               | Some _ => Err EOwn
               | None => parse_call_segments rest (acc ++ [(location, pn)])
               end
      end
  end.
Definition parse_call (s : ustring) : result (list (Z * ustring)) :=
  parse_call_segments (split_on cSLASH s) [].

(* ---------- parse_start_row ---------- *)
Fixpoint remove_first (x : nat) (l : list nat) : option (list nat) :=
  match l with
  | [] => None
  | y :: t => if Nat.eqb x y then Some t
              else match remove_first x t with Some t' => Some (y :: t') | None => None end
  end.
Fixpoint consume (bells : list nat) (expected : list nat) : result (list nat) :=
  match bells with
  | [] => Ok expected
  | b :: t => match remove_first b expected with
              | Some e' => consume t e'
              | None => Err EOwn          (* "contains bell b multiple times" *)
              end
  end.
Definition parse_start_row (s : ustring) : result nat :=
  do bells <- catch (bells_of_ustring s) ;;
  let max_bell := fold_left Nat.max bells 0 in
  do left <- consume bells (seq1 max_bell) ;;
  match left with [] => Ok (length s) | _ => Err EOwn end.

(* ---------- parse_place_notation ---------- *)
Definition parse_place_notation (s : ustring) : result (nat * ustring) :=
  match split_on cCOLON s with
  | [stage_part; pn] =>
      if negb (py_isnumeric stage_part) then Err EOwn else
      do stage <- catch (int_raise stage_part) ;;
      if negb ((0 <? stage)%Z && (stage <=? 16)%Z) then Err EOwn
      else if negb (valid_pn pn) then Err EOwn
      else Ok (Z.to_nat stage, pn)
  | _ => Err EOwn
  end.

(* ---------- parse_arg, from what urlparse returned ---------- *)
Definition uCOMPLIB_ORG : ustring := [99;111;109;112;108;105;98;46;111;114;103]%N.       (* "complib.org" *)
Definition uHTTP' : ustring := [104;116;116;112]%N.
Definition uHTTPS' : ustring := [104;116;116;112;115;58;47;47]%N.
Definition uDEFAULT_PREFIX : ustring :=  (* "https://complib.org/composition/" *)
  uHTTPS' ++ uCOMPLIB_ORG ++ [47;99;111;109;112;111;115;105;116;105;111;110;47]%N.
Definition uCOMPOSITION : ustring := [99;111;109;112;111;115;105;116;105;111;110]%N.
Definition uACCESSKEY : ustring := [97;99;99;101;115;115;75;101;121]%N.
Definition uSUBST : ustring := [115;117;98;115;116;105;116;117;116;101;100;109;101;116;104;111;100;105;100]%N.

Fixpoint is_prefix' (p s : ustring) : bool :=
  match p, s with
  | [], _ => true
  | a :: p', b :: s' => N.eqb a b && is_prefix' p' s'
  | _ :: _, [] => false
  end.
Fixpoint has_sub (pat s : ustring) : bool :=
  is_prefix' pat s || match s with [] => false | _ :: t => has_sub pat t end.

Definition normalise_url (arg : ustring) : ustring :=
  let url := if has_sub uCOMPLIB_ORG arg then arg else uDEFAULT_PREFIX ++ arg in
  if is_prefix' uHTTP' url then url else uHTTPS' ++ url.

Fixpoint parse_query (parts : list ustring) (key : option ustring) (subst : option Z)
  : result (option ustring * option Z) :=
  match parts with
  | [] => Ok (key, subst)
  | q :: rest =>
      match split_on cEQ q with
      | [k; v] =>
          let key' := if ustr_eqb k uACCESSKEY then Some v else key in
          if ustr_eqb k uSUBST then
            do z <- catch (int_raise v) ;; parse_query rest key' (Some z)
          else parse_query rest key' subst
      | _ => parse_query rest key subst
      end
  end.

Definition parse_arg_from (path query : ustring) : result (Z * option ustring * option Z) :=
  match split_on cSLASH path with
  | first :: segs =>
      match first with _ :: _ => Err EOwn | [] =>
        match segs with
        | s0 :: s1 :: _ =>
            if negb (ustr_eqb s0 uCOMPOSITION) then Err EOwn else
            do id <- catch (int_raise s1) ;;
            do '(key, subst) <- parse_query (split_on cAMPER query) None None ;;
            Ok (id, key, subst)
        | _ => Err EOwn
        end
      end
  | [] => Err EOwn
  end.

(* ---------- the request URL of ComplibCompositionGenerator.__init__ ---------- *)
Fixpoint pos_digits (fuel : nat) (n : N) (acc : ustring) : ustring :=
  match fuel with
  | 0 => acc
  | S f => let d := (48 + n mod 10)%N in
           if (n <? 10)%N then d :: acc else pos_digits f (n / 10)%N (d :: acc)
  end.
Definition z_to_ustring (z : Z) : ustring :=
  match z with
  | Z0 => [48%N]
  | Zpos p => pos_digits (S (N.to_nat (N.log2 (Npos p)))) (Npos p) []
  | Zneg p => cMINUS :: pos_digits (S (N.to_nat (N.log2 (Npos p)))) (Npos p) []
  end.

Definition uAPI : ustring :=   (* "https://api.complib.org/composition/" *)
  uHTTPS' ++ [97;112;105;46]%N ++ uCOMPLIB_ORG ++ [47;99;111;109;112;111;115;105;116;105;111;110;47]%N.
Definition uROWS : ustring := [47;114;111;119;115]%N.

Definition request_url (id : Z) (key : option ustring) (subst : option Z) : ustring :=
  let q1 := match key with Some (c :: k) => [uACCESSKEY ++ [cEQ] ++ (c :: k)] | _ => [] end in
  let q2 := match subst with
            | Some z => if Z.eqb z 0 then [] else [uSUBST ++ [cEQ] ++ z_to_ustring z]
            | None => [] end in
  let base := uAPI ++ z_to_ustring id ++ uROWS in
  match q1 ++ q2 with
  | [] => base
  | [a] => base ++ [cQMARK] ++ a
  | a :: b :: _ => base ++ [cQMARK] ++ a ++ [cAMPER] ++ b
  end.
