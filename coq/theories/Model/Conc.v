(* Statement-level model of the three Bot handlers that touch (row_generator, next_row_generator):
   _on_row_gen_change, _on_size_change (its last block) and the hand-over block of
   look_to_has_been_called (bot.py:167-193, 282-285), each as a list of atomic statements, with
   threading.Lock as an owner field.  Generators are abstract identifiers; whether a generator fits
   the tower after the size change is an arbitrary predicate.  No proofs here. *)
From Wh Require Export Prelude.

Definition gid := nat.

Record cstate := mkC {
  c_cur : gid;                 (* self.row_generator *)
  c_next : option gid;         (* self.next_row_generator *)
  c_lock : option nat;         (* owner thread of next_row_generator_lock *)
}.

Inductive stmt :=
| SAcq                         (* with self.next_row_generator_lock:  (enter) *)
| SRel                         (*                                      (exit)  *)
| SWriteNext (g : gid)         (* self.next_row_generator = json_to_row_generator(...) *)
| SCheckDrop                   (* if next is not None and not fits(next): next = None   (one statement
                                  in the model of the LOCKED code: it cannot be interleaved anyway) *)
| SHandOver                    (* self.row_generator = next or self.row_generator; next = None *)
(* the same blocks written WITHOUT holding anything, split into their reads and writes *)
| SReadNext                    (* local := self.next_row_generator *)
| SDropIfLocalUnfit            (* if local is not None and not fits(local): self.next_row_generator = None *)
| SCurFromLocal                (* self.row_generator = local or self.row_generator *)
| SClearNext.                  (* self.next_row_generator = None *)

Definition program := list stmt.

Definition prog_row_gen (g : gid) : program := [SAcq; SWriteNext g; SRel].
Definition prog_size_change : program := [SAcq; SCheckDrop; SRel].
Definition prog_look_to : program := [SAcq; SHandOver; SRel].
(* what the code would be without the lock *)
Definition prog_row_gen_nolock (g : gid) : program := [SWriteNext g].
Definition prog_size_change_nolock : program := [SReadNext; SDropIfLocalUnfit].
Definition prog_look_to_nolock : program := [SReadNext; SCurFromLocal; SClearNext].

(* a thread: remaining statements and its local variable *)
Record thread := mkT { t_prog : program; t_local : option gid }.

Section Fits.
  Variable fits : gid -> bool.

  (* one statement of thread [tid]; None = blocked (lock held by another thread) *)
  Definition exec (tid : nat) (s : cstate) (loc : option gid) (st : stmt) : option (cstate * option gid) :=
    match st with
    | SAcq => match c_lock s with
              | None => Some (mkC (c_cur s) (c_next s) (Some tid), loc)
              | Some _ => None
              end
    | SRel => Some (mkC (c_cur s) (c_next s) None, loc)
    | SWriteNext g => Some (mkC (c_cur s) (Some g) (c_lock s), loc)
    | SCheckDrop => Some (mkC (c_cur s) (match c_next s with
                                         | Some g => if fits g then Some g else None
                                         | None => None end) (c_lock s), loc)
    | SHandOver => Some (mkC (match c_next s with Some g => g | None => c_cur s end) None (c_lock s), loc)
    | SReadNext => Some (s, c_next s)
    | SDropIfLocalUnfit => Some (match loc with
                                 | Some g => if fits g then s else mkC (c_cur s) None (c_lock s)
                                 | None => s end, loc)
    | SCurFromLocal => Some (mkC (match loc with Some g => g | None => c_cur s end) (c_next s) (c_lock s), loc)
    | SClearNext => Some (mkC (c_cur s) None (c_lock s), loc)
    end.

  (* all final states reachable by ANY interleaving (fuel >= total number of statements) *)
  Fixpoint replace_nth {A} (l : list A) (i : nat) (x : A) : list A :=
    match l, i with
    | [], _ => []
    | _ :: t, 0 => x :: t
    | h :: t, S j => h :: replace_nth t j x
    end.

  Fixpoint explore (fuel : nat) (s : cstate) (ts : list thread) : list cstate :=
    match fuel with
    | 0 => []
    | S f =>
        if forallb (fun t => match t_prog t with [] => true | _ => false end) ts then [s]
        else
          concat (map (fun i =>
                         match nth_error ts i with
                         | Some t =>
                             match t_prog t with
                             | st :: rest =>
                                 match exec i s (t_local t) st with
                                 | Some (s', loc') => explore f s' (replace_nth ts i (mkT rest loc'))
                                 | None => []
                                 end
                             | [] => []
                             end
                         | None => []
                         end) (seq 0 (length ts)))
    end.

  (* running whole programs one after another, in a given order of thread indices *)
  Fixpoint run_prog (tid : nat) (s : cstate) (loc : option gid) (p : program) : cstate :=
    match p with
    | [] => s
    | st :: rest => match exec tid s loc st with
                    | Some (s', loc') => run_prog tid s' loc' rest
                    | None => s
                    end
    end.
  Definition run_seq (s : cstate) (progs : list program) (order : list nat) : cstate :=
    fold_left (fun s i => run_prog i s None (nth i progs [])) order s.
End Fits.

Definition cstate_eqb (a b : cstate) : bool :=
  Nat.eqb (c_cur a) (c_cur b)
  && match c_next a, c_next b with Some x, Some y => Nat.eqb x y | None, None => true | _, _ => false end.

Fixpoint perms (l : list nat) (fuel : nat) : list (list nat) :=
  match fuel with
  | 0 => [[]]
  | S f => match l with
           | [] => [[]]
           | _ => concat (map (fun x => map (cons x) (perms (filter (fun y => negb (Nat.eqb x y)) l) f)) l)
           end
  end.

(* every interleaving ends in the state of SOME sequential order *)
Definition linearisable (fits : gid -> bool) (s0 : cstate) (progs : list program) : bool :=
  let n := length progs in
  let finals := explore fits (S (length (concat progs))) s0 (map (fun p => mkT p None) progs) in
  let seqs := map (run_seq fits s0 progs) (perms (seq 0 n) n) in
  negb (match finals with [] => true | _ => false end)
  && forallb (fun f => existsb (cstate_eqb f) seqs) finals.
