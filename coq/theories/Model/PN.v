(* Model of wheatley/row_generation/helpers.py: valid_pn, convert_pn, convert_bell_string,
   convert_to_bell_string.  Strings are lists of Unicode code points (N).  No proofs here. *)
From Wh Require Export Prelude Permute.
From Coq Require Import NArith.

Definition ustring := list N.

Definition cDOT : N := 46.   Definition cX : N := 120.   Definition cDASH : N := 45.
Definition cAMP : N := 38.   Definition cPLUS : N := 43. Definition cSP : N := 32.
Definition cCOMMA : N := 44.

(* BELL_NAMES = "1234567890ETABCD" *)
Definition BELL_NAMES : list N := [49;50;51;52;53;54;55;56;57;48;69;84;65;66;67;68]%N.

Fixpoint index_of (c : N) (l : list N) (k : nat) : option nat :=
  match l with
  | [] => None
  | x :: t => if N.eqb x c then Some k else index_of c t (S k)
  end.

(* convert_bell_string: BELL_NAMES.index(bell) + 1, ValueError when absent *)
Definition convert_bell_string (c : N) : result nat :=
  match index_of c BELL_NAMES 0 with Some i => Ok (S i) | None => Err EValue end.

(* convert_to_bell_string *)
Definition convert_to_bell_string (b : nat) : result N :=
  if (b =? 0) || (MAX_BELL + 1 <=? b) then Err EValue else nth_res BELL_NAMES (b - 1).

(* `y in BELL_NAMES` (valid_pn, after "fix: make valid_pn accept exactly the bell symbols ...") *)
Definition in_bell_names (c : N) : bool :=
  match index_of c BELL_NAMES 0 with Some _ => true | None => false end.

Definition is_cross_char (c : N) : bool := N.eqb c cX || N.eqb c cDASH.

(* drop a maximal run of leading dots, returning (number dropped, rest) *)
Fixpoint span_dots (s : ustring) : nat * ustring :=
  match s with
  | c :: t => if N.eqb c cDOT then let '(n, r) := span_dots t in (S n, r) else (0, s)
  | [] => (0, [])
  end.

(* re.sub("[.]*[x-][.]*", ".-.", s): leftmost non-overlapping matches.  [fuel] >= length s. *)
Fixpoint resub (fuel : nat) (s : ustring) : ustring :=
  match fuel with
  | 0 => []
  | S f =>
      match s with
      | [] => []
      | _ =>
          let '(n, r) := span_dots s in
          match r with
          | c :: t =>
              if is_cross_char c then
                let '(_, r2) := span_dots t in [cDOT; cDASH; cDOT] ++ resub f r2
              else repeat cDOT n ++ c :: resub f t
          | [] => repeat cDOT n
          end
      end
  end.

Definition in_strip_set (c : N) : bool :=
  N.eqb c cDOT || N.eqb c cAMP || N.eqb c cPLUS || N.eqb c cSP.

Fixpoint lstrip (p : N -> bool) (s : ustring) : ustring :=
  match s with
  | c :: t => if p c then lstrip p t else s
  | [] => []
  end.
Definition strip (p : N -> bool) (s : ustring) : ustring := rev (lstrip p (rev (lstrip p s))).

(* str.replace("..", "."): one left-to-right pass over non-overlapping occurrences *)
Fixpoint replace_dd (s : ustring) : ustring :=
  match s with
  | a :: ((b :: t) as t1) =>
      if N.eqb a cDOT && N.eqb b cDOT then cDOT :: replace_dd t else a :: replace_dd t1
  | _ => s
  end.

(* str.split(sep) for a one-character separator: always at least one piece *)
Fixpoint split_on (sep : N) (s : ustring) : list ustring :=
  match s with
  | [] => [[]]
  | c :: t =>
      let ps := split_on sep t in
      if N.eqb c sep then [] :: ps
      else match ps with p :: ps' => (c :: p) :: ps' | [] => [[c]] end
  end.

Definition starts_with (c : N) (s : ustring) : bool :=
  match s with x :: _ => N.eqb x c | [] => false end.

Definition ustr_eqb (a b : ustring) : bool := list_eqb N.eqb a b.

(* the common pipeline: regex substitution, strip, dedup, split *)
Definition pn_pieces (s : ustring) : list ustring :=
  split_on cDOT (replace_dd (strip in_strip_set (resub (S (length s)) s))).

Definition convert_piece (p : ustring) : result places :=
  if ustr_eqb p [cDASH] then Ok [] else mapM convert_bell_string p.

Definition convert_block (expect_symmetric : bool) (s : ustring) : result (list places) :=
  let symmetric := if expect_symmetric then negb (starts_with cPLUS s) else starts_with cAMP s in
  do converted <- mapM convert_piece (pn_pieces s) ;;
  if symmetric then Ok (converted ++ rev (removelast converted)) else Ok converted.

Definition has_comma (s : ustring) : bool := existsb (N.eqb cCOMMA) s.

Definition convert_pn (s : ustring) : result (list places) :=
  if has_comma s then
    do blocks <- mapM (convert_block true) (split_on cCOMMA s) ;; Ok (concat blocks)
  else convert_block false s.

Definition valid_block (s : ustring) : bool :=
  forallb (fun p => ustr_eqb p [cDASH] || forallb in_bell_names p) (pn_pieces s).

Definition valid_pn (s : ustring) : bool :=
  if has_comma s then forallb valid_block (split_on cCOMMA s) else valid_block s.

(* ASCII convenience for examples *)
From Coq Require Import String Ascii.
Fixpoint s2u (s : string) : ustring :=
  match s with
  | EmptyString => []
  | String a t => N_of_ascii a :: s2u t
  end.
