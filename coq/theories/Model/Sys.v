(* The closed system: Bot (wheatley/bot.py, complete) + RingingRoomTower handlers (tower.py) +
   rhythm + a virtual clock + a simulated Ringing Room server.  It is the Gallina twin of
   harness/sim.py; see DESIGN.md Appendix A for the simulator semantics.  No proofs here. *)
From Wh Require Export Prelude Permute PN Gens Complib Tower Rhythm PyStr.
From Coq Require Import NArith ZArith QArith.
From RecordUpdate Require Import RecordSet.
Import RecordSetNotations.
Close Scope Q_scope.

(* ------------------------------------------------------------------ messages *)
Inductive jcall := JCAbsent | JCDict (items : list (ustring * ustring)) | JCNotDict.
Inductive rowgen_json :=
| RGNoType
| RGOtherType
| RGMethod (stage : option sval) (notation : option ustring) (bob single : jcall)
| RGComp (has_url : bool) (http : option payload).  (* url = a plain id; None = HTTP 404 *)

Inductive msg :=
| MCall (c : call)
| MBellRung (state : list bool) (who : nat)
| MGlobalState (state : list bool)
| MUserEntered (uid : Z) (name : ustring)
| MUserList (l : list (Z * ustring))
| MUserLeft (uid : Z)
| MAssign (bell : nat) (uid : Z)
| MSizeChange (n : nat)
| MSetting (kvs : list (skey * sval))
| MRowGen (j : rowgen_json)
| MStopTouch.

(* queue items: messages for Wheatley, and events the simulated server processes first *)
Inductive qitem :=
| QMsg (m : msg)
| QRing (bell : nat)           (* a human pulls a rope: the server toggles the stroke and broadcasts *)
| QSize (n : nat)              (* the tower is resized: all bells at hand, s_size_change *)
| QGlobal (v : list bool).     (* s_global_state with the given strokes (also sets the server's) *)

Inductive out :=
| OJoin | ORequestState
| OBell (bell : nat) (hand : bool)
| OCall (c : call)
| OIsRinging (b : bool)
| ORollCall (id : Z)
(* calls across the Bot -> Rhythm interface, as seen by the harness's logging proxy *)
| RReturn
| RInit (stage : nat) (user_treble : bool) (start : Q) (n_user : nat)
| RExpect (bell row place : nat) (hand : bool)
| ROnBell (bell : nat) (hand : bool) (t : Q)
| RWaitFor (t : Q) (bell row place : nat) (uc hand : bool)
| RSetting (k : skey) (t : Q)
| OHandlerExn (e : exn).

Inductive outcome := Running | Stopped | Exited | Crashed (e : exn) (at_time : Q).

(* ------------------------------------------------------------------ state *)
Record bot := mkBot {
  b_instance : option Z;             (* _server_instance_id *)
  b_last_activity : Q;
  b_udi : bool;
  b_stop_at_rounds : bool;
  b_call_comps : bool;
  b_name : option ustring;
  b_gen : gen;
  b_next_gen : option gen;
  b_ringing : bool;
  b_rounds_flag : bool;              (* _is_ringing_rounds *)
  b_opening_flag : bool;             (* _is_ringing_opening_row *)
  b_rounds_left : option Z;          (* _rounds_left_before_method *)
  b_rows_left : option Z;            (* _rows_left_before_rounds *)
  b_should_stand : bool;
  b_row_number : nat;
  b_place : nat;
  b_opening_row : row;
  b_rounds : row;
  b_row : row;
  b_calls : list call;
}.
#[export] Instance eta_bot : Settable _ :=
  settable! mkBot <b_instance; b_last_activity; b_udi; b_stop_at_rounds; b_call_comps; b_name; b_gen;
                   b_next_gen; b_ringing; b_rounds_flag; b_opening_flag; b_rounds_left; b_rows_left;
                   b_should_stand; b_row_number; b_place; b_opening_row; b_rounds; b_row; b_calls>.

Record world := mkWorld {
  w_now : Q;
  w_queue : list (Q * qitem);        (* sorted by time, FIFO among equal times *)
  w_server : list bool;              (* the server's strokes: the ground truth *)
  w_tower : tower;
  w_bot : bot;
  w_rhythm : rhythm;
  w_out : list (Q * out);            (* newest first *)
  w_delta : Q;                       (* echo latency *)
  w_horizon : Q;
  w_margin : Q;                      (* smallest distance of an event from the end of a sleep *)
  w_unsupported : bool;              (* something the model does not cover happened *)
  w_fuel_out : bool;
}.
#[export] Instance eta_world : Settable _ :=
  settable! mkWorld <w_now; w_queue; w_server; w_tower; w_bot; w_rhythm; w_out; w_delta; w_horizon;
                     w_margin; w_unsupported; w_fuel_out>.

Definition hres := (world * option exn)%type.
Definition hok (w : world) : hres := (w, None).
Definition hthen (r : hres) (f : world -> hres) : hres :=
  match r with (w, None) => f w | (w, Some e) => (w, Some e) end.

Definition upd_bot (w : world) (f : bot -> bot) : world := w <| w_bot := f (w_bot w) |>.
Definition log (w : world) (o : out) : world := w <| w_out := (w_now w, o) :: w_out w |>.

Fixpoint q_insert (t : Q) (i : qitem) (q : list (Q * qitem)) : list (Q * qitem) :=
  match q with
  | [] => [(t, i)]
  | (t', i') :: rest => if Qle_bool t' t then (t', i') :: q_insert t i rest else (t, i) :: q
  end.
Definition enqueue (w : world) (t : Q) (i : qitem) : world := w <| w_queue := q_insert t i (w_queue w) |>.

Fixpoint toggle (v : list bool) (i : nat) : list bool :=
  match v, i with
  | [], _ => []
  | b :: t, 0 => negb b :: t
  | b :: t, S j => b :: toggle t j
  end.

(* the server's treatment of a strike request / a human's pull *)
Definition server_ring (w : world) (bell : nat) (claimed : option bool) : world :=
  if bell =? 0 then w else
  match nth_error (w_server w) (bell - 1) with
  | None => w
  | Some s =>
      if match claimed with Some c => Bool.eqb s c | None => true end then
        let v := toggle (w_server w) (bell - 1) in
        (* the same latency for everybody's strikes: the connection delivers in order *)
        enqueue (w <| w_server := v |>) (qadd (w_now w) (w_delta w)) (QMsg (MBellRung v bell))
      else w
  end.

Definition emit_bell (w : world) (bell : nat) (hand : bool) : world :=
  server_ring (log w (OBell bell hand)) bell (Some hand).
Definition emit_call (w : world) (c : call) : world :=
  let w := log w (OCall c) in enqueue w (qadd (w_now w) (w_delta w)) (QMsg (MCall c)).

(* ------------------------------------------------------------------ rhythm dispatch *)
Definition rh_return (r : rhythm) : rhythm :=
  match r with
  | RScripted d => r
  | RRegr g => RRegr (upd_return g true)
  | RWait ws g => RWait (ws_set_return ws true) (upd_return g true)
  end.
Definition rh_expect (r : rhythm) (bell row place : nat) (st : bool) : rhythm :=
  match r with
  | RScripted d => r
  | RRegr g => RRegr (regr_expect g bell row place st)
  | RWait ws g => RWait (wait_expect ws bell st) (regr_expect g bell row place st)
  end.
Definition rh_on_bell (r : rhythm) (bell : nat) (st : bool) (t : Q) : rhythm * option exn :=
  match r with
  | RScripted d => (r, None)
  | RRegr g => match regr_on_bell_ring g bell st t with Ok g' => (RRegr g', None) | Err e => (r, Some e) end
  | RWait ws g =>
      match regr_on_bell_ring g bell st (qsub t (ws_delay ws)) with
      | Ok g' => (RWait (wait_on_bell_ring ws bell st) g', None)
      | Err e => (r, Some e)
      end
  end.
Definition rh_change_setting (r : rhythm) (k : skey) (v : sval) (t : Q) : rhythm * option exn :=
  match r with
  | RScripted d => (r, None)
  | RRegr g => match regr_change_setting g k v t with Ok g' => (RRegr g', None) | Err e => (r, Some e) end
  | RWait ws g =>
      match regr_change_setting g k v (qsub t (ws_delay ws)) with
      | Ok g' => (RWait ws g', None)
      | Err e => (r, Some e)
      end
  end.
Definition rh_unsupported (r : rhythm) : bool :=
  match r with RScripted _ => false | RRegr g => r_unsupported g | RWait _ g => r_unsupported g end.
Definition rh_margin (r : rhythm) : Q :=
  match r with RScripted _ => BIG | RRegr g => r_margin g | RWait _ g => r_margin g end.

(* ------------------------------------------------------------------ Bot helpers *)
Definition N_of (w : world) : nat := tw_size (w_tower w).
Definition user_assigned (w : world) (bell : nat) : bool :=
  negb (tw_assigned_to (w_tower w) bell (b_name (w_bot w))).
Definition stroke_of_row (n : nat) : bool := Nat.even n.
Definition server_mode (w : world) : bool :=
  match b_instance (w_bot w) with Some _ => true | None => false end.

(* _check_number_of_bells(row_gen) *)
Definition check_bells (w : world) (g : gen) : bool :=
  negb (g_stage g =? 0) && negb (N_of w <? g_stage g).
(* _check_starting_row() *)
Definition check_start_row (w : world) : bool := length (b_opening_row (w_bot w)) =? N_of w.

Definition make_call (w : world) (c : call) : world :=
  if b_call_comps (w_bot w) then emit_call w c else w.
Definition make_calls (w : world) (cs : list call) : world := fold_left make_call cs w.

Definition uLookTo : call := [76;111;111;107;32;116;111]%N.
Definition uGo : call := [71;111]%N.
Definition uBob : call := [66;111;98]%N.
Definition uSingle : call := [83;105;110;103;108;101]%N.
Definition uThatsAll : call := [84;104;97;116;39;115;32;97;108;108]%N.
Definition uRounds : call := [82;111;117;110;100;115]%N.
Definition uStandNext : call := [83;116;97;110;100;32;110;101;120;116]%N.

(* the `for index, bell in enumerate(self._row): self.expect_bell(index, bell)` loop *)
Fixpoint expect_loop (w : world) (r : row) (index : nat) : world :=
  match r with
  | [] => w
  | bell :: t =>
      let w1 := if user_assigned w bell then
                  let rn := b_row_number (w_bot w) in
                  let st := stroke_of_row rn in
                  (log w (RExpect bell rn index st)) <| w_rhythm := rh_expect (w_rhythm w) bell rn index st |>
                else w in
      expect_loop w1 t (S index)
  end.

(* generate_next_row *)
Definition generate_next_row (w : world) : hres :=
  let b := w_bot w in
  if b_opening_flag b then hok (upd_bot w (fun b => b <| b_row := b_opening_row b |>))
  else if b_rounds_flag b then hok (upd_bot w (fun b => b <| b_row := b_rounds b |>))
  else match gen_next (b_gen b) (stroke_of_row (b_row_number b)) with
       | Err e => (w, Some e)
       | Ok (g', (r, cs)) =>
           let r' := if length r <? length (b_opening_row b) then r ++ skipn (length r) (b_opening_row b)
                     else r in
           hok (upd_bot w (fun b => b <| b_gen := g' |> <| b_row := r' |> <| b_calls := cs |>))
       end.

Definition opt_z_dec (o : option Z) : option Z :=
  match o with Some z => Some (z - 1)%Z | None => None end.
Definition opt_z_is (o : option Z) (v : Z) : bool :=
  match o with Some z => Z.eqb z v | None => false end.

Definition uStand : call := [83; 116; 97; 110; 100]%N.

(* ---- the control skeleton of start_next_row, on a small record so that it can be reasoned about.
   It mirrors bot.py:402-447 statement by statement. *)
Record ctl := mkCtl {
  k_ringing : bool;            (* _is_ringing *)
  k_rounds : bool;             (* _is_ringing_rounds *)
  k_opening : bool;            (* _is_ringing_opening_row *)
  k_left : option Z;           (* _rounds_left_before_method *)
  k_rows_left : option Z;      (* _rows_left_before_rounds *)
  k_stand : bool;              (* _should_stand *)
}.

Inductive start_action := NoStart | Start (call_stand : bool).

(* stop_at_rounds, has_just_rung_rounds, next_stroke (hand?), next_stroke == start_stroke,
   _check_number_of_bells() *)
Definition snr_ctl (sar hjr next_hand stroke_ok fits : bool) (k : ctl) : result (ctl * start_action) :=
  (* if self._stop_at_rounds and has_just_rung_rounds and not self._is_ringing_opening_row *)
  let stand1 := if sar && hjr && negb (k_opening k) then true else k_stand k in
  (* if self._rounds_left_before_method == 0: assert ...; start the method *)
  do '(left1, rounds1, opening1, act) <-
     (if opt_z_is (k_left k) 0 then
        if negb stroke_ok then Err EAssert
        else Ok (None, negb fits, false, Start (negb fits))
      else Ok (k_left k, k_rounds k, k_opening k, NoStart)) ;;
  (* if self._rounds_left_before_method is not None: -= 1 *)
  let left2 := opt_z_dec left1 in
  (* if next_stroke.is_hand(): if self._should_stand: stand *)
  let '(stand2, ringing2) := if next_hand && stand1 then (false, false) else (stand1, k_ringing k) in
  (* if rows_left == 0 or (has_just_rung_rounds and rows_left is not None): rounds *)
  let '(rows2, rounds2) :=
    if opt_z_is (k_rows_left k) 0 || (hjr && match k_rows_left k with Some _ => true | None => false end)
    then (None, true) else (k_rows_left k, rounds1) in
  let rows3 := opt_z_dec rows2 in
  Ok ({| k_ringing := ringing2; k_rounds := rounds2; k_opening := opening1; k_left := left2;
         k_rows_left := rows3; k_stand := stand2 |}, act).

Definition ctl_of (b : bot) : ctl :=
  {| k_ringing := b_ringing b; k_rounds := b_rounds_flag b; k_opening := b_opening_flag b;
     k_left := b_rounds_left b; k_rows_left := b_rows_left b; k_stand := b_should_stand b |}.
Definition set_ctl (b : bot) (k : ctl) : bot :=
  b <| b_ringing := k_ringing k |> <| b_rounds_flag := k_rounds k |> <| b_opening_flag := k_opening k |>
    <| b_rounds_left := k_left k |> <| b_rows_left := k_rows_left k |> <| b_should_stand := k_stand k |>.

(* start_next_row(is_first_row) *)
Definition start_next_row (w : world) (is_first : bool) : hres :=
  let b0 := w_bot w in
  let rn := if is_first then 0 else S (b_row_number b0) in
  let has_just_rung_rounds := row_eqb (b_row b0) (b_rounds b0) in
  let next_stroke := stroke_of_row rn in
  (* self._calls = [] ; then the early calls of the row generator while the counter runs *)
  let calls := match b_rounds_left b0 with
               | Some k => match dict_get Z.eqb (gen_early_calls (b_gen b0)) k with
                           | Some (c :: cs) => c :: cs | _ => [] end
               | None => [] end in
  let w := upd_bot w (fun b => b <| b_place := 0 |> <| b_row_number := rn |> <| b_calls := calls |>) in
  match snr_ctl (b_stop_at_rounds b0) has_just_rung_rounds next_stroke
                (Bool.eqb next_stroke (gen_start_stroke (b_gen b0))) (check_bells w (b_gen b0))
                (ctl_of b0) with
  | Err e => (w, Some e)
  | Ok (k, act) =>
      let w := match act with
               | Start true => make_call w uStand
               | _ => w
               end in
      let w := upd_bot w (fun b => set_ctl b k) in
      let w := match act with
               | Start _ => upd_bot w (fun b => b <| b_gen := gen_reset (b_gen b) |>)
               | NoStart => w
               end in
      if negb (b_ringing (w_bot w)) then hok w
      else hthen (generate_next_row w) (fun w => hok (expect_loop w (b_row (w_bot w)) 0))
  end.

(* ------------------------------------------------------------------ callbacks *)
(* Bot._on_size_change (invoke_on_reset) *)
Definition bot_on_size_change (w : world) : hres :=
  let n := N_of w in
  match generate_starting_row n (match g_custom (b_gen (w_bot w)) with Some r => Some (Some r) | None => None end) with
  | Err e => (w, Some e)
  | Ok opening =>
      let w := upd_bot w (fun b => b <| b_opening_row := opening |>) in
      match rounds n with
      | Err e => (w, Some e)
      | Ok rd =>
          let w := upd_bot w (fun b => b <| b_rounds := rd |>) in
          hok (match b_next_gen (w_bot w) with
               | Some g => if check_bells w g then w else upd_bot w (fun b => b <| b_next_gen := None |>)
               | None => w
               end)
      end
  end.

Definition THREE : Q := 3%Q.

(* look_to_has_been_called(call_time); [nested] is the clock's sleep, needed because
   WaitForUserRhythm.initialise_line sleeps 20 ms inside the handler *)
Definition look_to_has_been_called (nested : world -> Q -> world) (w : world) (call_time : Q) : hres :=
  let w := (log w RReturn) <| w_rhythm := rh_return (w_rhythm w) |> in
  match b_opening_row (w_bot w) with
  | [] => (w, Some EIndex)
  | treble :: _ =>
      let n_user := length (filter (user_assigned w) (b_rounds (w_bot w))) in
      let uct := user_assigned w treble in
      let start := qadd call_time THREE in
      let w := log w (RInit (N_of w) uct start n_user) in
      (* Rhythm.initialise_line *)
      let rinit :=
        match w_rhythm w with
        | RScripted d => (w, None)
        | RRegr g => match regr_initialise_line g (N_of w) uct start with
                     | Ok g' => (w <| w_rhythm := RRegr g' |>, None)
                     | Err e => (w, Some e)
                     end
        | RWait ws g =>
            let w1 := w <| w_rhythm := RWait (wait_clear ws) g |> in
            let w2 := nested w1 (qadd (w_now w1) (qmul 2%Q SLEEP_001)) in
            match w_rhythm w2 with
            | RWait ws2 g2 =>
                match regr_initialise_line g2 (N_of w2) uct (qsub start (ws_delay ws2)) with
                | Ok g' => (w2 <| w_rhythm := RWait ws2 g' |>, None)
                | Err e => (w2, Some e)
                end
            | _ => (w2, None)
            end
        end in
      hthen rinit (fun w =>
      let w := upd_bot w (fun b =>
                 b <| b_gen := match b_next_gen b with Some g => g | None => b_gen b end |>
                   <| b_next_gen := None |> <| b_should_stand := false |> <| b_rows_left := None |>) in
      let w := upd_bot w (fun b =>
                 b <| b_rounds_left := if negb (b_udi b) then None
                                       else if gen_start_stroke (b_gen b) then Some 2%Z else Some 3%Z |>
                   <| b_ringing := true |> <| b_rounds_flag := true |> <| b_opening_flag := true |>) in
      start_next_row w true)
  end.

Definition on_look_to (nested : world -> Q -> world) (w : world) : hres :=
  (* the generator about to be rung: the queued one if there is one *)
  let g := match b_next_gen (w_bot w) with Some g => g | None => b_gen (w_bot w) end in
  if check_start_row w && check_bells w g then look_to_has_been_called nested w (w_now w)
  else hok w.

(* sort by key descending, stable *)
Fixpoint insert_desc (x : Z * list call) (l : list (Z * list call)) : list (Z * list call) :=
  match l with
  | [] => [x]
  | y :: t => if (fst y <? fst x)%Z then x :: l else y :: insert_desc x t
  end.
Definition sort_desc (l : list (Z * list call)) : list (Z * list call) :=
  fold_left (fun acc x => insert_desc x acc) l [].

Definition on_go (w : world) : world :=
  let b := w_bot w in
  if b_rounds_flag b || b_opening_flag b then
    let k := if Bool.eqb (stroke_of_row (b_row_number b)) (gen_start_stroke (b_gen b)) then 1%Z else 0%Z in
    let w := upd_bot w (fun b => b <| b_rounds_left := Some k |>) in
    let missed := sort_desc (filter (fun ic => (k <? fst ic)%Z) (gen_early_calls (b_gen b))) in
    fold_left (fun w ic => make_calls w (snd ic)) missed w
  else w.

Definition on_call (nested : world -> Q -> world) (w : world) (c : call) : hres :=
  if ustr_eqb c uLookTo then on_look_to nested w
  else if ustr_eqb c uGo then hok (on_go w)
  else if ustr_eqb c uBob then hok (upd_bot w (fun b => b <| b_gen := gen_set_bob (b_gen b) |>))
  else if ustr_eqb c uSingle then hok (upd_bot w (fun b => b <| b_gen := gen_set_single (b_gen b) |>))
  else if ustr_eqb c uThatsAll then hok (upd_bot w (fun b => b <| b_rows_left := Some 1%Z |>))
  else if ustr_eqb c uRounds then hok (upd_bot w (fun b => b <| b_opening_flag := true |>))
  else if ustr_eqb c uStandNext then hok (upd_bot w (fun b => b <| b_should_stand := true |>))
  else hok w.

(* RingingRoomTower._on_bell_rung + Bot._on_bell_ring *)
Definition on_bell_rung (w : world) (state : list bool) (who : nat) : hres :=
  let w := w <| w_tower := set_bells (w_tower w) state |> in
  if negb (bell_ok who) then (w, Some EValue) else
  match tw_get_stroke (w_tower w) who with
  | None => hok w
  | Some new_stroke =>
      if user_assigned w who then
        let st := negb new_stroke in
        let w := log w (ROnBell who st (w_now w)) in
        match rh_on_bell (w_rhythm w) who st (w_now w) with
        | (r, None) => hok (w <| w_rhythm := r |>)
        | (r, Some e) => (w <| w_rhythm := r |>, Some e)
        end
      else hok w
  end.

(* to_bool *)
Definition uTrue : ustring := [84;114;117;101]%N.   Definition utrue : ustring := [116;114;117;101]%N.
Definition uFalse : ustring := [70;97;108;115;101]%N. Definition ufalse : ustring := [102;97;108;115;101]%N.
Definition to_bool (v : sval) : option bool :=
  match v with
  | VBool b => Some b
  | VInt i => if Z.eqb i 1 then Some true else if Z.eqb i 0 then Some false else None
  | VNum q => if Qeqb q 1%Q then Some true else if Qeqb q 0%Q then Some false else None
  | VStr s => if ustr_eqb s uTrue || ustr_eqb s utrue then Some true
              else if ustr_eqb s uFalse || ustr_eqb s ufalse then Some false else None
  | VNull => None
  end.

Definition on_setting_one (w : world) (k : skey) (v : sval) : hres :=
  match k with
  | KUpDownIn => hok (match to_bool v with Some x => upd_bot w (fun b => b <| b_udi := x |>) | None => w end)
  | KStopAtRounds =>
      hok (match to_bool v with Some x => upd_bot w (fun b => b <| b_stop_at_rounds := x |>) | None => w end)
  | KCallComp =>
      hok (match to_bool v with Some x => upd_bot w (fun b => b <| b_call_comps := x |>) | None => w end)
  | _ =>
      let w := log w (RSetting k (w_now w)) in
      match rh_change_setting (w_rhythm w) k v (w_now w) with
      | (r, None) => hok (w <| w_rhythm := r |>)
      | (r, Some e) => (w <| w_rhythm := r |>, Some e)
      end
  end.

Fixpoint on_setting (w : world) (kvs : list (skey * sval)) : hres :=
  match kvs with
  | [] => hok w
  | (k, v) :: t => hthen (on_setting_one w k v) (fun w => on_setting w t)
  end.

(* json_to_row_generator *)
Inductive jres := JGen (g : gen) | JOwnError | JExn (e : exn).

Fixpoint json_to_call (items : list (ustring * ustring)) (acc : list (Z * ustring))
  : option (list (Z * ustring)) :=    (* None = RowGenParseError *)
  match items with
  | [] => Some acc
  | (k, v) :: t => match py_int k with
                   | Some i => json_to_call t (dict_set Z.eqb acc i v)
                   | None => None
                   end
  end.

Definition stage_of_sval (v : sval) : result Z :=   (* int(json["stage"]) *)
  match v with
  | VStr s => match py_int s with Some i => Ok i | None => Err EValue end
  | _ => to_int v
  end.

Definition json_to_row_generator (j : rowgen_json) : jres :=
  match j with
  | RGNoType | RGOtherType => JOwnError
  | RGMethod stage notation bob single =>
      match stage with
      | None => JOwnError
      | Some sv =>
          match stage_of_sval sv with
          | Err EValue => JOwnError
          | Err e => JExn e
          | Ok st =>
              match notation with
              | None => JExn EKey
              | Some nt =>
                  let call_of (c : jcall) : result (option (list (Z * ustring))) :=
                    match c with
                    | JCAbsent => Ok None
                    | JCNotDict => Err EType
                    | JCDict items => match json_to_call items [] with Some d => Ok (Some d) | None => Err EOwn end
                    end in
                  match call_of bob with
                  | Err EOwn => JOwnError
                  | Err e => JExn e
                  | Ok b =>
                      match call_of single with
                      | Err EOwn => JOwnError
                      | Err e => JExn e
                      | Ok s =>
                          if (st <? 0)%Z then JExn EOther (* negative stages: outside the model *)
                          else match mk_pn_gen (Z.to_nat st) nt b s 0 None with
                               | Ok g => JGen g
                               | Err e => JExn e
                               end
                      end
                  end
              end
          end
      end
  | RGComp has_url http =>
      if negb has_url then JOwnError
      else match http with
           | None => JOwnError
           | Some p => match mk_complib p with Ok g => JGen g | Err e => JExn e end
           end
  end.

Definition on_row_gen (w : world) (j : rowgen_json) : hres :=
  match json_to_row_generator j with
  | JGen g => hok (upd_bot w (fun b => b <| b_next_gen := Some g |>))
  | JOwnError => hok w
  | JExn e => (w, Some e)
  end.

Definition on_stop_touch (w : world) : world :=
  let w := log w (OIsRinging false) in
  let w := upd_bot w (fun b => b <| b_ringing := false |>) in
  (log w RReturn) <| w_rhythm := rh_return (w_rhythm w) |>.

(* the tower's handler for one message *)
Definition handle (nested : world -> Q -> world) (w : world) (m : msg) : hres :=
  match m with
  | MCall c => on_call nested w c
  | MBellRung state who => on_bell_rung w state who
  | MGlobalState state => bot_on_size_change (w <| w_tower := set_bells (w_tower w) state |>)
  | MUserEntered uid name => hok (w <| w_tower := tw_user_entered (w_tower w) uid name |>)
  | MUserList l => hok (w <| w_tower := tw_user_list (w_tower w) l |>)
  | MUserLeft uid => hok (w <| w_tower := tw_user_left (w_tower w) uid |>)
  | MAssign bell uid => match tw_assign (w_tower w) bell uid with
                        | Ok t => hok (w <| w_tower := t |>)
                        | Err e => (w, Some e)
                        end
  | MSizeChange n => let '(t, fire) := tw_size_change (w_tower w) n in
                     let w := w <| w_tower := t |> in
                     if fire then bot_on_size_change w else hok w
  | MSetting kvs => if server_mode w then on_setting w kvs else hok w
  | MRowGen j => if server_mode w then on_row_gen w j else hok w
  | MStopTouch => if server_mode w then hok (on_stop_touch w) else hok w
  end.

Definition deliver (nested : world -> Q -> world) (w : world) (i : qitem) : world :=
  let '(w, m) :=
    match i with
    | QMsg m => (w, Some m)
    | QRing bell => (server_ring w bell None, None)
    | QSize n => (w <| w_server := repeat true n |>, Some (MSizeChange n))
    | QGlobal v => (w <| w_server := v |>, Some (MGlobalState v))
    end in
  match m with
  | None => w
  | Some m => match handle nested w m with
              | (w', None) => w'
              | (w', Some e) => log w' (OHandlerExn e)
              end
  end.

(* ------------------------------------------------------------------ the clock *)
Definition note_w_margin (w : world) (m : Q) : world := w <| w_margin := qmin (w_margin w) (qabs m) |>.

(* time.sleep until t_end: deliver everything due, in order *)
Fixpoint sleep_until (fuel : nat) (w : world) (t_end : Q) : world :=
  match fuel with
  | 0 => w <| w_fuel_out := true |>
  | S f =>
      match w_queue w with
      | (t, i) :: rest =>
          let w := note_w_margin w (qsub t t_end) in
          if Qle_bool t t_end then
            let w := w <| w_queue := rest |> <| w_now := qmax (w_now w) t |> in
            sleep_until f (deliver (sleep_until f) w i) t_end
          else w <| w_now := qmax (w_now w) t_end |>
      | [] => w <| w_now := qmax (w_now w) t_end |>
      end
  end.

Definition sleep (fuel : nat) (w : world) (d : Q) : world :=
  sleep_until fuel w (qadd (w_now w) (qmax d 0%Q)).

(* ------------------------------------------------------------------ tick *)
Definition regr_of (r : rhythm) : option regr :=
  match r with RRegr g => Some g | RWait _ g => Some g | RScripted _ => None end.
Definition set_regr (r : rhythm) (g : regr) : rhythm :=
  match r with RRegr _ => RRegr g | RWait ws _ => RWait ws g | RScripted d => r end.

Fixpoint poll_pull_off (fuel : nat) (w : world) : world :=
  match fuel with
  | 0 => w <| w_fuel_out := true |>
  | S f => if Qltb (w_horizon w) (w_now w) then w else
           match regr_of (w_rhythm w) with
           | Some g => match r_start g with
                       | None => poll_pull_off f (sleep (S f) w SLEEP_001)
                       | Some _ => w
                       end
           | None => w
           end
  end.

(* RegressionRhythm.wait_for_bell_time(current_time, ...) *)
Definition regr_wait (fuel : nat) (w : world) (current_time : Q) (row place : nat) (uc : bool) : world :=
  match regr_of (w_rhythm w) with
  | None => w
  | Some g =>
      match regr_wait_plan g current_time row place uc with
      | WPollPullOff => poll_pull_off fuel w
      | WSleep d m =>
          let w := w <| w_rhythm := set_regr (w_rhythm w) (note_margin g m) |> in
          let w := sleep fuel w d in
          match regr_of (w_rhythm w) with
          | Some g' => w <| w_rhythm := set_regr (w_rhythm w) (upd_return g' false) |>
          | None => w
          end
      end
  end.

(* the polling loop of WaitForUserRhythm.wait_for_bell_time; returns the accumulated delay *)
Fixpoint wait_poll (fuel : nat) (w : world) (bell : nat) (st : bool) (acc : Q) : world * Q :=
  match fuel with
  | 0 => (w <| w_fuel_out := true |>, acc)
  | S f =>
      if Qltb (w_horizon w) (w_now w) then (w, acc) else
      match w_rhythm w with
      | RWait ws _ =>
          if mem_nat bell (ws_exp ws st) then
            let w := sleep (S f) w SLEEP_001 in
            let acc := qadd acc SLEEP_001 in
            match w_rhythm w with
            | RWait ws' _ => if ws_return ws' then (w, acc) else wait_poll f w bell st acc
            | _ => (w, acc)
            end
          else (w, acc)
      | _ => (w, acc)
      end
  end.

(* Rhythm.wait_for_bell_time as the Bot calls it *)
Definition rhythm_wait (fuel : nat) (w : world) (bell row place : nat) (uc st : bool) : world :=
  match w_rhythm w with
  | RScripted durs =>
      match durs with
      | d :: rest => sleep fuel (w <| w_rhythm := RScripted rest |>) d
      | [] => sleep fuel w (1 # 4)%Q
      end
  | RRegr _ => regr_wait fuel w (w_now w) row place uc
  | RWait ws g =>
      let w := if Bool.eqb st (ws_stroke ws) then w else w <| w_rhythm := RWait (ws_set_stroke ws st) g |> in
      let w := regr_wait fuel w (qsub (w_now w) (ws_delay ws)) row place uc in
      let w := if uc then
                 let '(w, acc) := wait_poll fuel w bell st 0%Q in
                 match w_rhythm w with
                 | RWait ws' g' => if Qeqb acc 0%Q then w
                                   else w <| w_rhythm := RWait (ws_set_delay ws' (qadd (ws_delay ws') acc)) g' |>
                 | _ => w
                 end
               else w in
      match w_rhythm w with
      | RWait ws' g' => w <| w_rhythm := RWait (ws_set_return ws' false) g' |>
      | _ => w
      end
  end.

(* Bot.tick(), second half: everything after `wait_for_bell_time` returns.  [bell] and [uc] are the
   locals sampled before the wait; everything else is read from the state as it is NOW. *)
Definition tick_end (w : world) (bell : nat) (uc : bool) : hres :=
  let w := if uc then w
           else let st' := stroke_of_row (b_row_number (w_bot w)) in
                match tw_get_stroke (w_tower w) bell with
                | Some s => if Bool.eqb s st' then emit_bell w bell s else w
                | None => w
                end in
  let w := if b_place (w_bot w) =? 0 then make_calls w (b_calls (w_bot w)) else w in
  let w := upd_bot w (fun b => b <| b_place := S (b_place b) |>) in
  if Nat.min (length (b_row (w_bot w))) (N_of w) <=? b_place (w_bot w) then start_next_row w false else hok w.

(* Bot.tick() *)
Definition tick (fuel : nat) (w : world) : hres :=
  let b := w_bot w in
  match nth_error (b_row b) (b_place b) with
  | None => (w, Some EIndex)
  | Some bell =>
      let uc := user_assigned w bell in
      let rn := b_row_number b in
      let st := stroke_of_row rn in
      let w := log w (RWaitFor (w_now w) bell rn (b_place b) uc st) in
      let w := rhythm_wait fuel w bell rn (b_place b) uc st in
      tick_end w bell uc
  end.

(* ------------------------------------------------------------------ main loop *)
(* [PStartup k lt]: wait_loaded has polled k times; lt = server_main's --look-to-time, acted on as soon as the
   tower is loaded (main.py: `tower.wait_loaded(); if args.look_to_time is not None: bot.look_to_has_been_called(...)`) *)
Inductive phase := PStartup (iter : nat) (lt : option Q) | PIdleEnter | PIdle | PRingEnter | PRing | PRingExit.

Definition INACTIVITY : Q := 300%Q.
Definition SLEEP_01 : Q := (3602879701896397 # 36028797018963968)%Q.   (* the double 0.1 *)

Definition main_step (fuel : nat) (w : world) (p : phase) : world * phase * outcome :=
  match p with
  | PStartup k lt =>
      match tw_bells (w_tower w) with
      | _ :: _ =>
          match lt with
          | None => (w, PIdleEnter, Running)
          | Some t => match look_to_has_been_called (sleep_until fuel) w t with
                      | (w', None) => (w', PIdleEnter, Running)
                      | (w', Some e) => (w', p, Crashed e (w_now w'))
                      end
          end
      | [] => if k <? 20 then (sleep fuel w SLEEP_01, PStartup (S k) lt, Running)
              else (w, p, Crashed EOther (w_now w))
      end
  | PIdleEnter => (upd_bot w (fun b => b <| b_last_activity := w_now w |>), PIdle, Running)
  | PIdle =>
      if b_ringing (w_bot w) then (w, PRingEnter, Running)
      else
        let w := sleep fuel w SLEEP_001 in
        let lim := qadd (b_last_activity (w_bot w)) INACTIVITY in
        let w := if server_mode w then note_w_margin w (qsub (w_now w) lim) else w in
        if server_mode w && Qltb lim (w_now w) then (w, p, Exited) else (w, PIdle, Running)
  | PRingEnter =>
      (match b_instance (w_bot w) with
       | Some id => log (log w (OIsRinging true)) (ORollCall id)
       | None => w
       end, PRing, Running)
  | PRing =>
      if b_ringing (w_bot w) then
        match tick fuel w with
        | (w, Some e) => (w, p, Crashed e (w_now w))
        | (w, None) => (sleep fuel w SLEEP_001, PRing, Running)
        end
      else (w, PRingExit, Running)
  | PRingExit =>
      ((if server_mode w then log w (OIsRinging false) else w), PIdleEnter, Running)
  end.

Fixpoint main_loop (fuel : nat) (w : world) (p : phase) : world * outcome :=
  match fuel with
  | 0 => (w <| w_fuel_out := true |>, Running)
  | S f =>
      if Qltb (w_horizon w) (w_now w) then (w, Stopped)
      else
        let '(w', p', o) := main_step (S f) w p in
        match o with
        | Running => main_loop f w' p'
        | _ => (w', o)
        end
  end.

(* ------------------------------------------------------------------ a whole scenario *)
Record config := mkConfig {
  c_gen : gen;
  c_udi : bool;
  c_stop_at_rounds : bool;
  c_call_comps : bool;
  c_name : option ustring;
  c_instance : option Z;
  c_rhythm : rhythm;
  c_delta : Q;
  c_horizon : Q;
  c_events : list (Q * qitem);     (* sorted by time *)
  c_look_to_time : option Q;       (* server_main's --look-to-time *)
  c_origin : Q;                    (* what the clock reads when the process starts *)
}.

Definition bot0 (c : config) : bot :=
  {| b_instance := c_instance c; b_last_activity := c_origin c; b_udi := c_udi c;
     b_stop_at_rounds := c_stop_at_rounds c; b_call_comps := c_call_comps c; b_name := c_name c;
     b_gen := c_gen c; b_next_gen := None; b_ringing := false; b_rounds_flag := false;
     b_opening_flag := true; b_rounds_left := None; b_rows_left := None; b_should_stand := false;
     b_row_number := 0; b_place := 0; b_opening_row := g_start_row (c_gen c); b_rounds := [];
     b_row := []; b_calls := [] |}.

Definition world0 (c : config) : world :=
  {| w_now := c_origin c; w_queue := c_events c; w_server := []; w_tower := tower0; w_bot := bot0 c;
     w_rhythm := c_rhythm c; w_out := []; w_delta := c_delta c; w_horizon := c_horizon c;
     w_margin := BIG; w_unsupported := false; w_fuel_out := false |}.

Definition run (fuel : nat) (c : config) : world * outcome :=
  let w := log (log (world0 c) OJoin) ORequestState in
  main_loop fuel w (PStartup 0 (c_look_to_time c)).
