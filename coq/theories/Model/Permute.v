(* Model of RowGenerator.permute (wheatley/row_generation/row_generator.py:107-125) and of
   helpers.rounds / generate_starting_row (helpers.py:101-121).
   Bells are 1-based bell NUMBERS (nat); a row is a list of bell numbers.  No proofs here. *)
From Wh Require Export Prelude.

Definition MAX_BELL : nat := 16.

Definition row := list nat.
Definition places := list nat.
Definition row_eqb : row -> row -> bool := list_eqb Nat.eqb.

(* new_row[i-1], new_row[i] = new_row[i], new_row[i-1]   (i >= 1); IndexError when i >= len *)
Fixpoint swap_at (j : nat) (r : row) : option row :=
  match j, r with
  | 0, a :: b :: t => Some (b :: a :: t)
  | S k, a :: t => match swap_at k t with Some t' => Some (a :: t') | None => None end
  | _, _ => None
  end.

(* the `while i < self.stage` loop; fuel bounds the number of iterations *)
Fixpoint permute_loop (fuel stage : nat) (pl : places) (i : nat) (r : row) : result row :=
  if i <? stage then
    match fuel with
    | 0 => Err EOutOfFuel
    | S f =>
        if mem_nat i pl then permute_loop f stage pl (i + 1) r
        else match swap_at (i - 1) r with
             | Some r' => permute_loop f stage pl (i + 2) r'
             | None => Err EIndex
             end
    end
  else Ok r.

Definition permute_start (pl : places) : nat :=
  match pl with
  | p :: _ => if Nat.even p then 2 else 1
  | [] => 1
  end.

Definition permute (stage : nat) (pl : places) (r : row) : result row :=
  permute_loop stage stage pl (permute_start pl) r.

(* Bell.from_number(i) raises ValueError unless 1 <= i <= 16 *)
Definition bell_ok (b : nat) : bool := (1 <=? b) && (b <=? MAX_BELL).

Definition rounds (n : nat) : result row :=
  if n <=? MAX_BELL then Ok (seq1 n) else Err EValue.

Fixpoint has_dup (l : list nat) : bool :=
  match l with
  | [] => false
  | x :: t => mem_nat x t || has_dup t
  end.

(* the loop `for i in range(1, n+1): if Bell(i) not in start_row: start_row.append(Bell(i))` *)
Fixpoint add_missing (cands : list nat) (r : row) : row :=
  match cands with
  | [] => r
  | i :: t => add_missing t (if mem_nat i r then r else r ++ [i])
  end.

(* generate_starting_row(number_of_bells, start_row_string); the custom row is given as the list of
   bell numbers the characters denote (None when some character is not a bell symbol: ValueError) *)
Definition generate_starting_row (n : nat) (custom : option (option row)) : result row :=
  match custom with
  | None => rounds n
  | Some None => Err EValue
  | Some (Some r) =>
      if has_dup r then Err EValue
      else if n <=? MAX_BELL then Ok (add_missing (seq1 n) r)
      else (* Bell.from_number(17) raises when the loop reaches it *) Err EValue
  end.
