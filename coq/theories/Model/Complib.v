(* Model of ComplibCompositionGenerator.__init__ (complib_composition_generator.py:126-173) on an
   already decoded payload {stage, title, rows: [[row_string, calls_string, _], ...]}.
   json.loads / requests are library code outside the model.  No proofs here. *)
From Wh Require Export Prelude Permute PN Gens.
From Coq Require Import NArith.

(* characters str.strip() removes: str.isspace() (table compared with the interpreter by the harness) *)
Definition is_py_space (c : N) : bool :=
  ((9 <=? c) && (c <=? 13) || (28 <=? c) && (c <=? 32) || (c =? 133) || (c =? 160) || (c =? 5760)
   || (8192 <=? c) && (c <=? 8202) || (c =? 8232) || (c =? 8233) || (c =? 8239) || (c =? 8287)
   || (c =? 12288))%N.

Definition cSEMI : N := 59.
Definition uStand : ustring := [83; 116; 97; 110; 100]%N.   (* "Stand" *)

(* process_call_string: split on ';', strip, drop "Stand" *)
Definition process_call_string (s : ustring) : list call :=
  filter (fun c => negb (ustr_eqb c uStand)) (map (strip is_py_space) (split_on cSEMI s)).

Definition calls_of (s : ustring) : list call :=
  match s with [] => [] | _ => process_call_string s end.

(* Bell.from_str on every character of a row string; bell NUMBERS *)
Definition bells_of_ustring (s : ustring) : result row := mapM convert_bell_string s.

(* while unparsed_rows[n][0] == unparsed_rows[0][0]: n += 1   (IndexError when it runs off the end) *)
Fixpoint count_leading (first : ustring) (rows : list (ustring * ustring)) : result nat :=
  match rows with
  | [] => Err EIndex
  | (r, _) :: t => if ustr_eqb r first then do n <- count_leading first t ;; Ok (S n) else Ok 0
  end.

Fixpoint early_calls_of (n : nat) (i : nat) (rows : list (row * list call)) : list (Z * list call) :=
  match rows with
  | [] => []
  | (_, cs) :: t =>
      let rest := early_calls_of n (S i) t in
      match cs with
      | [] => rest
      | _ => (Z.of_nat (n - i), cs) :: rest
      end
  end.

Record payload := { pl_stage : nat; pl_rows : list (ustring * ustring) }.

Definition mk_complib (p : payload) : result gen :=
  match pl_rows p with
  | [] => Err EIndex
  | (first, _) :: _ =>
      do n <- count_leading first (pl_rows p) ;;
      do loaded <- mapM (fun rc => do r <- bells_of_ustring (fst rc) ;; Ok (r, calls_of (snd rc)))
                        (pl_rows p) ;;
      do start <- rounds (pl_stage p) ;;
      Ok (mk_gen (GComplib (skipn n loaded) (early_calls_of n 0 (firstn n loaded))
                           (stroke_of_index (Z.of_nat n)))
                 (pl_stage p) None start)
  end.
