(* Model of the option handling of wheatley/main.py: how console_main and server_main turn the command
   line into the configuration of the Bot and of the rhythm (the [config] that Model/Sys.v runs under).
   console_main: main.py:255-503; server_main: main.py:159-252; create_rhythm: main.py:81-111. *)
From Wh Require Import Prelude PN PyStr Parse.
From Coq Require Import NArith ZArith QArith.
Close Scope Q_scope.

(* the options that reach the Bot or the rhythm (argparse has already typed them) *)
Record cli := mkCli {
  cl_udi : bool;            (* -u / --use-up-down-in *)
  cl_sar : bool;            (* -s / --stop-at-rounds *)
  cl_handbell : bool;       (* -H / --handbell-style *)
  cl_no_calls : bool;       (* --no-calls *)
  cl_keep_going : bool;     (* -k / --keep-going *)
  cl_name : option ustring; (* --name *)
  cl_peal : ustring;        (* -S / --peal-speed, as typed *)
  cl_inertia : Q;           (* -I *)
  cl_gap : Q;               (* -G / --handstroke-gap *)
  cl_max : nat;             (* -X / --max-bells-in-dataset *)
}.

Record botcfg := mkCfg {
  bc_udi : bool; bc_sar : bool; bc_calls : bool;
  bc_wait : bool;                      (* WaitForUserRhythm around the regression? *)
  bc_name : option ustring; bc_instance : option Z;
  bc_peal : Z; bc_inertia : Q; bc_initial_inertia : Q; bc_gap : Q;
  bc_max : nat; bc_min : nat;          (* dataset bounds given to RegressionRhythm *)
}.

Definition console_cfg (c : cli) : result botcfg :=
  do p <- parse_peal_speed (cl_peal c) ;;
  Ok {| bc_udi := cl_udi c || cl_handbell c;
        bc_sar := cl_sar c || cl_handbell c;
        bc_calls := negb (cl_no_calls c);
        bc_wait := negb (cl_keep_going c);
        bc_name := cl_name c; bc_instance := None;
        bc_peal := p; bc_inertia := cl_inertia c; bc_initial_inertia := 0%Q; bc_gap := cl_gap c;
        bc_max := cl_max c; bc_min := Nat.min 4 (cl_max c) |}.

Definition uWheatley : ustring := [87; 104; 101; 97; 116; 108; 101; 121]%N.

Definition server_cfg (id : option Z) : botcfg :=
  {| bc_udi := true; bc_sar := true; bc_calls := true; bc_wait := true;
     bc_name := Some uWheatley; bc_instance := id;
     bc_peal := 180%Z; bc_inertia := 1%Q; bc_initial_inertia := 0%Q; bc_gap := 1%Q;
     bc_max := 15; bc_min := 4 |}.

(* the defaults of the console parser *)
Definition default_cli : cli :=
  {| cl_udi := false; cl_sar := false; cl_handbell := false; cl_no_calls := false; cl_keep_going := false;
     cl_name := None; cl_peal := [50; 104; 53; 56]%N (* "2h58" *); cl_inertia := (1#2)%Q; cl_gap := 1%Q; cl_max := 15 |}.
