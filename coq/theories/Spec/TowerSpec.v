(* A dictionary-free, per-key reading of what a history of server messages says about the tower:
   its size and strokes, who holds a given bell, what a given user is called.  Histories are given
   NEWEST FIRST (the reverse of arrival order), so every definition "looks back" from the present.
   Nothing here mentions association lists or Wheatley's handlers. *)
From Wh Require Import Prelude Permute PN Gens Tower.
From Coq Require Import NArith ZArith.

(* the strokes (and so the size): the vector of the last strike / global-state message, unless a
   later size change to a different size has set all bells at hand *)
Fixpoint spec_bells (h : list tmsg) : list bool :=
  match h with
  | [] => []
  | TBellRung state _ :: _ => state
  | TGlobal state :: _ => state
  | TSizeChange n :: rest => if n =? length (spec_bells rest) then spec_bells rest else repeat true n
  | _ :: rest => spec_bells rest
  end.

(* the name a user id goes by: its last announcement (single or in a list; within one list the
   later entry wins) *)
Fixpoint last_in_list (l : list (Z * ustring)) (u : Z) : option ustring :=
  match l with
  | [] => None
  | (u', n) :: t => match last_in_list t u with
                    | Some x => Some x
                    | None => if Z.eqb u' u then Some n else None
                    end
  end.
Fixpoint spec_name (h : list tmsg) (u : Z) : option ustring :=
  match h with
  | [] => None
  | TUserEntered u' n :: rest => if Z.eqb u' u then Some n else spec_name rest u
  | TUserList l :: rest => match last_in_list l u with Some n => Some n | None => spec_name rest u end
  | _ :: rest => spec_name rest u
  end.

(* who holds bell b: the user of the last assignment to b, unless since then b was un-assigned,
   that user left, or the tower was effectively resized to fewer than b bells *)
Fixpoint spec_holder (h : list tmsg) (b : nat) : option Z :=
  match h with
  | [] => None
  | TAssign b' u :: rest =>
      if Nat.eqb b' b && bell_ok b' then (if Z.eqb u 0 then None else Some u) else spec_holder rest b
  | TUserLeft u :: rest =>
      match spec_holder rest b with
      | Some u' => if Z.eqb u' u then None else Some u'
      | None => None
      end
  | TSizeChange n :: rest =>
      if n =? length (spec_bells rest) then spec_holder rest b
      else if b <=? n then spec_holder rest b else None
  | _ :: rest => spec_holder rest b
  end.

(* is bell b Wheatley's?  unassigned and no name configured, or held by a user whose announced
   name is the configured one *)
Definition spec_is_wheatleys (h : list tmsg) (b : nat) (name : option ustring) : bool :=
  match spec_holder h b with
  | None => match name with None => true | Some _ => false end
  | Some u => opt_ustr_eqb (spec_name h u) name
  end.
