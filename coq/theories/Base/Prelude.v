(* Base definitions shared by every model file: the result type that makes Python exceptions
   explicit, and small list helpers with Python semantics.  No proofs here. *)
From Coq Require Export List Arith ZArith Bool Lia.
Export ListNotations.

(* The kinds of Python exception the modelled code can raise.  [EOwn] stands for "the function's
   own descriptive error class" (StartRowParseError, PealSpeedParseError, ...). *)
Inductive exn : Type :=
| EValue        (* ValueError (bare) *)
| EIndex        (* IndexError *)
| EKey          (* KeyError *)
| EAssert       (* AssertionError *)
| EZeroDiv      (* ZeroDivisionError *)
| ENullRowGen   (* NullRowGenError of PlaceHolderGenerator *)
| EType         (* TypeError / AttributeError *)
| EOwn          (* the option's own error class *)
| EOther        (* any other exception class: never produced by the model, so it always disagrees *)
| EOutOfFuel.   (* NOT a Python exception: the model's fuel ran out; excluded by every theorem *)

Inductive result (A : Type) : Type :=
| Ok  (a : A)
| Err (e : exn).
Arguments Ok {A} a.
Arguments Err {A} e.

Definition bind {A B} (r : result A) (f : A -> result B) : result B :=
  match r with Ok a => f a | Err e => Err e end.
Notation "'do' x <- r ;; k" := (bind r (fun x => k)) (at level 200, x name, r at level 100, k at level 200).
Notation "'do' ' p <- r ;; k" := (bind r (fun x => match x with p => k end))
  (at level 200, p pattern, r at level 100, k at level 200).

Definition is_ok {A} (r : result A) : bool := match r with Ok _ => true | Err _ => false end.

Definition exn_eqb (a b : exn) : bool :=
  match a, b with
  | EValue, EValue | EIndex, EIndex | EKey, EKey | EAssert, EAssert | EZeroDiv, EZeroDiv
  | ENullRowGen, ENullRowGen | EType, EType | EOwn, EOwn | EOutOfFuel, EOutOfFuel => true
  | EOther, EOther => true
  | _, _ => false
  end.

(* map over a list with a function that can fail; first failure wins (left to right), as a Python
   list comprehension does *)
Fixpoint mapM {A B} (f : A -> result B) (l : list A) : result (list B) :=
  match l with
  | [] => Ok []
  | x :: xs => do y <- f x ;; do ys <- mapM f xs ;; Ok (y :: ys)
  end.

Definition mem_nat (x : nat) (l : list nat) : bool := existsb (Nat.eqb x) l.

Fixpoint list_eqb {A} (eqb : A -> A -> bool) (a b : list A) : bool :=
  match a, b with
  | [], [] => true
  | x :: xs, y :: ys => eqb x y && list_eqb eqb xs ys
  | _, _ => false
  end.

(* l[i] with Python's IndexError for i >= len (non-negative i only) *)
Definition nth_res {A} (l : list A) (i : nat) : result A :=
  match nth_error l i with Some x => Ok x | None => Err EIndex end.

(* replace element i; None when out of range *)
Fixpoint set_nth {A} (l : list A) (i : nat) (x : A) : option (list A) :=
  match l, i with
  | [], _ => None
  | _ :: t, 0 => Some (x :: t)
  | h :: t, S j => match set_nth t j x with Some t' => Some (h :: t') | None => None end
  end.

Fixpoint seq1 (n : nat) : list nat := (* [1; ...; n] *)
  match n with 0 => [] | S k => seq1 k ++ [S k] end.

Definition zmod_nat (a : Z) (m : nat) : nat := Z.to_nat (Z.modulo a (Z.of_nat m)).
