(* C09 - unless told to keep going, Wheatley never gets ahead of a human. *)
From Wh Require Import Prelude Permute PN Gens Complib Tower Rhythm PyStr Sys GensP BotP WaitP.
From Coq Require Import NArith ZArith QArith.
Close Scope Q_scope.

(* The bookkeeping of WaitForUserRhythm (the model functions wait_expect / wait_on_bell_ring /
   wait_clear that mirror it) driven by an arbitrary band: ANY non-empty set U of human-held bells,
   ANY interleaving of human strikes (any bell of U, any number of times: late, early, doubled, a
   whole row ahead) with row turnovers, where a turnover is only taken once no human bell of the
   finished row is still awaited (that is what the ticks of those bells wait for).  In every
   reachable state: every human bell has struck in ALL previous rows, and a human bell no longer
   awaited in the row in progress HAS struck in it.  No bound on rows, strikes or lateness. *)
Theorem C09_never_ahead : forall U ws0 es,
  U <> [] -> all_ok U (look_to ws0 U) es ->
  let b := fold_left (step U) es (look_to ws0 U) in
  (forall h, In h U -> bd_row b <= bd_cnt b h)
  /\ (forall h, In h U -> ~ In h (ws_exp (bd_ws b) (Nat.even (bd_row b))) -> S (bd_row b) <= bd_cnt b h).
Proof. exact never_ahead. Qed.

(* the single steps, for the record *)
Theorem C09_ring_preserves : forall U b h, In h U -> Inv U b -> Inv U (ring b h).
Proof. exact ring_inv. Qed.
Theorem C09_turnover_preserves : forall U b,
  U <> [] -> Inv U b ->
  (forall h, In h U -> ~ In h (ws_exp (bd_ws b) (Nat.even (bd_row b)))) -> Inv U (turnover b U).
Proof. exact turnover_inv. Qed.

(* In the system model the wait for a human bell has NO time-out: the polling loop ends only when
   the bell is no longer awaited, or Wheatley was told to return to the main loop (Look to / Stop
   touch), or the modelled run itself was cut (horizon, fuel). *)
Theorem C09_wait_ends_only_when_rung : forall fuel w bell st acc,
  let w' := fst (wait_poll fuel w bell st acc) in
  w_fuel_out w' = true \/ Qltb (w_horizon w') (w_now w') = true \/
  match w_rhythm w' with
  | RWait ws _ => ws_return ws = true \/ mem_nat bell (ws_exp ws st) = false
  | _ => True
  end.
Proof. exact wait_poll_exit. Qed.

Example C09_nonvacuous :
  let U := [2; 5] in
  let es := [ERing 5; ERing 2; ETurnover; ERing 2; ERing 2; ERing 5; ETurnover; ERing 5] in
  all_ok U (look_to wait_init U) es /\ bd_row (fold_left (step U) es (look_to wait_init U)) = 2.
Proof. vm_compute. repeat split; auto; intros h [<-|[<-|[]]]; intros H; cbn in H; intuition discriminate. Qed.

From Wh Require Import Parse Glue GlueP.
From Coq Require Import ZArith QArith.

(* which runs are "the default waiting mode": main.py builds the waiting rhythm unless --keep-going is given
   (console), and always in server mode; the defaults of the console parser give a waiting, calling Bot *)
Theorem C09_waiting_unless_keep_going : forall c cfg, console_cfg c = Ok cfg -> bc_wait cfg = negb (cl_keep_going c).
Proof. exact waiting_unless_keep_going. Qed.
Theorem C09_server_waits : forall id, bc_wait (server_cfg id) = true.
Proof. exact server_waits. Qed.
Example C09_default_console_waits : exists cfg, console_cfg default_cli = Ok cfg /\ bc_wait cfg = true /\ bc_calls cfg = true
  /\ bc_udi cfg = false /\ bc_sar cfg = false /\ bc_peal cfg = 178%Z.
Proof. exact default_console_waits. Qed.
