(* C04 - Bob and Single act exactly at the next call position, exactly once. *)
From Wh Require Import Prelude Permute PN Gens PermuteP GensP CallsP EmptyCallP FactsP.

(* the complete decision rule of one step, for every method, call dictionary, start index, row
   index, flag combination and call in progress *)
Theorem C04_pn_step_spec : forall c stage prev index hb hs cp,
  pc_method c <> [] ->
  let li := lead_index c index in
  pn_gen_row c stage prev index hb hs cp =
  match (if hb then call_at (pc_bobs c) li else None) with
  | Some (p, rest) => do r <- permute stage p prev ;; Ok (r, (false, false, rest))
  | None =>
      match (if hs then call_at (pc_singles c) li else None) with
      | Some (p, rest) => do r <- permute stage p prev ;; Ok (r, (false, false, rest))
      | None =>
          match cp with
          | p :: rest => do r <- permute stage p prev ;; Ok (r, (hb, hs, rest))
          | [] => do p <- nth_res (pc_method c) li ;; do r <- permute stage p prev ;; Ok (r, (hb, hs, []))
          end
      end
  end.
Proof. exact pn_step_spec. Qed.

(* a pending call alters nothing where it is not defined, and stays pending *)
Theorem C04_pending_call_changes_nothing : forall c stage prev index hb hs,
  pc_method c <> [] ->
  (hb = true -> call_at (pc_bobs c) (lead_index c index) = None) ->
  (hs = true -> call_at (pc_singles c) (lead_index c index) = None) ->
  pn_gen_row c stage prev index hb hs [] =
  do p <- nth_res (pc_method c) (lead_index c index) ;; do r <- permute stage p prev ;; Ok (r, (hb, hs, [])).
Proof. exact pending_call_changes_nothing. Qed.

(* a call in progress supplies exactly its remaining changes, then the plain method resumes *)
Theorem C04_call_replaces_exactly_its_length : forall c stage prev index p rest,
  pc_method c <> [] ->
  pn_gen_row c stage prev index false false (p :: rest) =
  do r <- permute stage p prev ;; Ok (r, (false, false, rest)).
Proof. exact call_replaces_exactly_its_length. Qed.

Theorem C04_bob_fires_where_defined : forall c stage prev index hs cp p rest,
  pc_method c <> [] -> call_at (pc_bobs c) (lead_index c index) = Some (p, rest) ->
  pn_gen_row c stage prev index true hs cp = do r <- permute stage p prev ;; Ok (r, (false, false, rest)).
Proof. exact bob_fires_where_defined. Qed.

(* a definition given at user position pos sits at lead index (pos - 1) mod L *)
Theorem C04_call_position : forall L pos s pn,
  L <> 0 -> convert_pn s = Ok pn ->
  parse_call_dict L [(pos, s)] [] = Ok [(zmod_nat (pos - 1) L, pn)].
Proof. exact parse_call_dict_single. Qed.

Theorem C04_builtin_call_positions :
  forallb (fun n => match mk_grandsire n None with
                    | Ok g => let '(b, s) := call_keys g in
                              list_eqb Nat.eqb b [2 * n - 2] && list_eqb Nat.eqb s [2 * n - 2]
                    | Err _ => false end) (seq 5 12) = true.
Proof. exact grandsire_calls. Qed.

From Wh Require Import DixonP.
(* rule-driven generators (Dixon's Bob and its relatives): a pending call acts at the next lead of a bell it is
   defined for, with its notation for that stroke; it stays pending over the handstroke change and is used up by the
   backstroke change; where it is not defined it alters nothing and stays pending *)
Theorem C04_dixon_bob_fires : forall plain bob single stage prev st leading,
  nth_res prev 0 = Ok leading -> forall rule, dict_get Nat.eqb bob leading = Some rule ->
  forall hs : bool, dixon_gen_row plain bob single stage prev st true hs
  = do r <- permute stage (pick st rule) prev ;; Ok (r, if st then (true, hs) else (false, false)).
Proof. exact dixon_bob_fires. Qed.
Theorem C04_dixon_single_fires : forall plain bob single stage prev st leading,
  nth_res prev 0 = Ok leading -> forall rule, dict_get Nat.eqb single leading = Some rule ->
  forall hb : bool, (if hb then dict_get Nat.eqb bob leading else None) = None ->
  dixon_gen_row plain bob single stage prev st hb true
  = do r <- permute stage (pick st rule) prev ;; Ok (r, if st then (hb, true) else (false, false)).
Proof. exact dixon_single_fires. Qed.
Theorem C04_dixon_call_waits : forall plain bob single stage prev st leading,
  nth_res prev 0 = Ok leading -> forall hb hs : bool,
  (if hb then dict_get Nat.eqb bob leading else None) = None ->
  (if hs then dict_get Nat.eqb single leading else None) = None ->
  dixon_gen_row plain bob single stage prev st hb hs
  = match dict_get Nat.eqb plain leading with
    | Some rule => do r <- permute stage (pick st rule) prev ;; Ok (r, (hb, hs))
    | None => match dict_get Nat.eqb plain 0 with
              | Some rule => do r <- permute stage (pick st rule) prev ;; Ok (r, (hb, hs))
              | None => Err EKey
              end
    end.
Proof. exact dixon_call_waits. Qed.

(* a call for which the method defines NO position at all (Stedman Doubles' Bob; "bob": {} in a JSON definition)
   never acts - with it pending every change is the plain method's - and an explicitly empty definition is kept
   by the constructor, not replaced by the default lead-end call *)
Theorem C04_empty_bob_definition_never_acts : forall c stage prev index,
  pc_method c <> [] -> pc_bobs c = [] ->
  pn_gen_row c stage prev index true false [] =
  do p <- nth_res (pc_method c) (lead_index c index) ;; do r <- permute stage p prev ;; Ok (r, (true, false, [])).
Proof. exact empty_bob_definition_never_acts. Qed.
Theorem C04_empty_single_definition_never_acts : forall c stage prev index,
  pc_method c <> [] -> pc_singles c = [] ->
  pn_gen_row c stage prev index false true [] =
  do p <- nth_res (pc_method c) (lead_index c index) ;; do r <- permute stage p prev ;; Ok (r, (false, true, [])).
Proof. exact empty_single_definition_never_acts. Qed.
Theorem C04_explicit_empty_definition_is_kept : forall stage m s si custom g c,
  mk_pn_gen stage m (Some []) s si custom = Ok g -> g_kind g = GPN c -> pc_bobs c = [].
Proof. exact explicit_empty_definition_is_kept. Qed.
