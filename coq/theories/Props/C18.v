(* C18 - command-line values parse to what the syntax says or fail with their own error. *)
From Wh Require Import Prelude Permute PN PyStr Gens Complib Parse PermuteP GensP ParseP.
From Coq Require Import NArith ZArith String.
Open Scope string_scope.

(* For EVERY string each parser either returns a value or raises its own descriptive error - never
   a bare ValueError, AssertionError or anything else (tree after the C18 fixes). *)
Theorem C18_parse_peal_speed_total : forall s, own_or_ok (parse_peal_speed s).
Proof. exact parse_peal_speed_total. Qed.
Theorem C18_parse_call_total : forall s, own_or_ok (parse_call s).
Proof. exact parse_call_total. Qed.
Theorem C18_parse_start_row_total : forall s, own_or_ok (parse_start_row s).
Proof. exact parse_start_row_total. Qed.
Theorem C18_parse_place_notation_total : forall s, own_or_ok (parse_place_notation s).
Proof. exact parse_place_notation_total. Qed.
Theorem C18_parse_arg_total : forall path query, own_or_ok (parse_arg_from path query).
Proof. exact parse_arg_total. Qed.

(* the validator accepts exactly what the converter can convert *)
Theorem C18_valid_pn_iff_convertible : forall s, valid_pn s = is_ok (convert_pn s).
Proof. exact valid_pn_iff_convertible. Qed.
Theorem C18_convert_pn_nonempty : forall s r, convert_pn s = Ok r -> r <> [].
Proof. exact convert_pn_nonempty. Qed.

(* whatever is accepted can be used to ring *)
Theorem C18_accepted_pn_rings : forall s stage pn si,
  parse_place_notation s = Ok (stage, pn) -> exists g, mk_pn_gen stage pn None None si None = Ok g.
Proof. exact accepted_pn_rings. Qed.
Theorem C18_accepted_call_rings : forall s d L,
  L <> 0 -> parse_call s = Ok d -> exists cd, parse_call_dict L d [] = Ok cd.
Proof. exact accepted_call_rings. Qed.
Theorem C18_accepted_start_row_rings : forall s k n,
  parse_start_row s = Ok k -> n <= MAX_BELL ->
  exists bells r, bells_of_ustring s = Ok bells /\ generate_starting_row n (Some (Some bells)) = Ok r.
Proof. exact accepted_start_row_rings. Qed.

(* meaning, on concrete documented forms (the general statements are checked against an independent
   regular-expression reading by the correspondence suite) *)
Example C18_peal_speed_forms :
  parse_peal_speed (s2u "2h58") = Ok 178%Z /\ parse_peal_speed (s2u "3h4m") = Ok 184%Z
  /\ parse_peal_speed (s2u " 184m ") = Ok 184%Z /\ parse_peal_speed (s2u "3h60") = Err EOwn
  /\ parse_peal_speed (s2u "3hh4") = Err EOwn /\ parse_peal_speed (s2u "-2m") = Err EOwn.
Proof. vm_compute. repeat split; reflexivity. Qed.
Example C18_former_defects_now_rejected :
  parse_place_notation [178; 58; 120]%N = Err EOwn                (* "²:x" *)
  /\ parse_place_notation (s2u "6:x1xe") = Err EOwn
  /\ parse_place_notation (s2u "20:x16") = Err EOwn
  /\ parse_call (s2u "zz") = Err EOwn.
Proof. vm_compute. repeat split; reflexivity. Qed.
