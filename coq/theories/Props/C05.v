(* C05 - every touch starts afresh, whatever happened before. *)
From Wh Require Import Prelude Permute PN Gens PermuteP GensP Sys BotP.

(* after ANY history (calls pending, a multi-change call half rung, any position in the course),
   a reset generator is exactly the generator its constructor returned, so the second touch's rows
   are those of a fresh Wheatley given the same later operations *)
Theorem C05_reset_after_any_history_is_fresh : forall g0 ops,
  fresh g0 -> gen_reset (gen_after g0 ops) = g0.
Proof. exact reset_after_any_history_is_fresh. Qed.

Theorem C05_second_touch_rows_equal : forall g0 ops1 ops2,
  fresh g0 -> gen_run (gen_reset (gen_after g0 ops1)) ops2 = gen_run g0 ops2.
Proof. exact second_touch_rows_equal. Qed.

(* The tree as it was BEFORE "fix: clear in-progress call notation ..." violated the property:
   Grandsire Doubles, eight plain rows, Single, one row (the first change of 3.123), reset: the
   next touch starts 12354 instead of 21354.  [gen_reset_old] is the reset of the old tree. *)
Definition c05_witness_ops : list gen_op :=
  map (fun i => OpNext (Nat.even i)) (seq 0 8) ++ [OpSingle; OpNext true].

Theorem C05_refuted_pre_fix :
  exists g0, mk_grandsire 5 None = Ok g0 /\
    gen_run (gen_reset_old (gen_after g0 c05_witness_ops)) [OpNext true]
    <> gen_run g0 [OpNext true].
Proof.
  destruct (mk_grandsire 5 None) as [g0|e] eqn:E; [|vm_compute in E; discriminate].
  exists g0. split; [reflexivity|]. vm_compute in E. inversion E; subst. vm_compute. discriminate.
Qed.

(* and the same witness is harmless now *)
Example C05_witness_fixed :
  exists g0, mk_grandsire 5 None = Ok g0 /\
    gen_run (gen_reset (gen_after g0 c05_witness_ops)) [OpNext true] = gen_run g0 [OpNext true].
Proof.
  destruct (mk_grandsire 5 None) as [g0|e] eqn:E; [|vm_compute in E; discriminate].
  exists g0. split; [reflexivity|]. vm_compute in E. inversion E; subst. vm_compute. reflexivity.
Qed.

(* through the Bot: at the row turnover that starts the method (start counter 0, by Go or up-down-in)
   the first method row, its calls and the generator that rings on are those of the generator AS
   CONSTRUCTED, whatever the session did to it before (ops) *)
Theorem C05_bot_method_start_like_fresh_launch : forall w f w' g0 ops,
  fresh g0 -> b_gen (w_bot w) = gen_after g0 ops ->
  opt_z_is (b_rounds_left (w_bot w)) 0 = true ->
  start_next_row w f = (w', None) ->
  b_ringing (w_bot w') = true -> b_rounds_flag (w_bot w') = false ->
  exists g' r cs,
    gen_next g0 (stroke_of_row (b_row_number (w_bot w'))) = Ok (g', (r, cs))
    /\ b_gen (w_bot w') = g'
    /\ b_row (w_bot w') = pad_to (b_opening_row (w_bot w)) r
    /\ b_calls (w_bot w') = cs.
Proof. exact method_start_like_fresh_launch. Qed.
