(* C17 - tower size vs stage: refuse when too small, add covers when larger. *)
From Wh Require Import Prelude Permute PN Gens Complib Tower Rhythm PyStr Sys GensP BotP.
From Coq Require Import NArith ZArith QArith.
Close Scope Q_scope.

(* the decision rule at Look to, as an iff, for every state: the generator that is about to be rung
   (the queued one if any) has a stage, fits the tower, and the opening row is as long as the tower *)
Theorem C17_gate_iff : forall w,
  check_start_row w && check_bells w (gen_to_ring w) = true <->
  length (b_opening_row (w_bot w)) = N_of w /\ g_stage (gen_to_ring w) <> 0 /\ g_stage (gen_to_ring w) <= N_of w.
Proof. exact gate_iff. Qed.

(* when it refuses, NOTHING changes and nothing is emitted *)
Theorem C17_refused_look_to_is_silent : forall nested w,
  check_start_row w && check_bells w (gen_to_ring w) = false -> on_look_to nested w = (w, None).
Proof. exact refused_look_to_is_silent. Qed.

(* the opening row of a tower of n bells with a custom start row that is a permutation of 1..k has
   max n k bells - so it fits exactly when k <= n *)
Theorem C17_opening_row_length : forall n k r,
  NoDup r -> (forall x, In x r <-> 1 <= x <= k) ->
  length (add_missing (seq1 n) r) = Nat.max n (length r) /\ length r = k.
Proof. exact opening_row_length. Qed.

(* a size change recomputes opening row and rounds for the new size, keeps the current generator,
   and discards the queued generator exactly when it does not fit the new size *)
Theorem C17_size_change_recomputes : forall w w',
  bot_on_size_change w = (w', None) ->
  generate_starting_row (N_of w) (match g_custom (b_gen (w_bot w)) with Some r => Some (Some r) | None => None end)
    = Ok (b_opening_row (w_bot w'))
  /\ rounds (N_of w) = Ok (b_rounds (w_bot w'))
  /\ b_gen (w_bot w') = b_gen (w_bot w)
  /\ b_next_gen (w_bot w') =
       match b_next_gen (w_bot w) with
       | Some g => if negb (g_stage g =? 0) && negb (N_of w <? g_stage g) then Some g else None
       | None => None
       end.
Proof. exact size_change_recomputes. Qed.

(* surplus bells cover in the order of the opening row *)
Theorem C17_covers_in_order : forall w w' g' r cs,
  b_opening_flag (w_bot w) = false -> b_rounds_flag (w_bot w) = false ->
  gen_next (b_gen (w_bot w)) (stroke_of_row (b_row_number (w_bot w))) = Ok (g', (r, cs)) ->
  generate_next_row w = (w', None) ->
  b_row (w_bot w') = if length r <? length (b_opening_row (w_bot w))
                     then r ++ skipn (length r) (b_opening_row (w_bot w)) else r.
Proof. exact covers_in_order. Qed.

(* the surplus bells are exactly the tail of the tower's opening row, which extends the generator's own
   start row: covers ring in order behind the method *)
Theorem C17_opening_row_extends_start_row : forall stage n custom sr op,
  stage <= n ->
  generate_starting_row stage custom = Ok sr -> generate_starting_row n custom = Ok op ->
  exists extra, op = sr ++ extra.
Proof. exact opening_row_extends_start_row. Qed.
