(* C03 - every change is a legal change.  ONLY statements closed by `exact`. *)
From Wh Require Import Prelude Permute PermuteP.

Theorem C03_permute_legal : forall stage pl r,
  stage <= length r -> exists r', permute stage pl r = Ok r' /\ legal stage r r'.
Proof. exact permute_legal. Qed.
