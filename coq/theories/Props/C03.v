(* C03 - every change is a legal change: neighbours swap, nobody jumps, covers stay. *)
From Wh Require Import Prelude Permute PN Gens PermuteP GensP.

(* [legal n r r'] (Proofs/PermuteP.v) : r' is r with disjoint adjacent pairs swapped inside the
   first n places and nothing else moved. *)
Theorem C03_permute_legal : forall stage pl r,
  stage <= length r -> exists r', permute stage pl r = Ok r' /\ legal stage r r'.
Proof. exact permute_legal. Qed.

(* what `legal` means, spelt out: nobody moves more than one place, and a bell that moves does so
   by swapping with its neighbour *)
Theorem C03_nobody_jumps : forall n r r', legal n r r' -> forall i,
    nth_error r' i = nth_error r i
    \/ (nth_error r' i = nth_error r (S i) /\ nth_error r' (S i) = nth_error r i /\ S i < n)
    \/ (exists j, i = S j /\ nth_error r' i = nth_error r j /\ nth_error r' j = nth_error r i /\ i < n).
Proof. exact legal_local. Qed.

(* covers: every position at or beyond the stage holds the same bell before and after *)
Theorem C03_covers_stay : forall n r r', legal n r r' -> forall i, n <= i -> nth_error r' i = nth_error r i.
Proof. exact legal_tail. Qed.

(* along every history of calls, for notation-driven and rule-driven (Dixon's) generators alike,
   every row is a legal change of the one before *)
Theorem C03_gen_changes_legal : forall ops g,
  permuting g -> gen_inv g ->
  Forall (fun p => legal (g_stage g) (fst p) (snd p)) (gen_run_pairs g ops).
Proof. exact gen_changes_legal. Qed.

Example C03_nonvacuous : legal 6 [1;2;3;4;5;6;7;8] [2;1;3;5;4;6;7;8].
Proof. apply legal_swap, legal_keep, legal_swap, legal_stop. Qed.
