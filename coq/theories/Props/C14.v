(* C14 - a hold-up delays everything by the hold-up; time itself is irrelevant. *)
From Wh Require Import Prelude Permute PN Gens Complib Tower Rhythm PyStr Sys RegressP DetP TimingP.
From Coq Require Import NArith ZArith QArith.
From RecordUpdate Require Import RecordSet.
Import RecordSetNotations.
Local Open Scope Q_scope.

(* WaitForUserRhythm hands `time - delay` to its inner rhythm in every inward call: the inner rhythm
   runs on a clock from which all the waiting has been removed *)
Theorem C14_inner_clock_on_bell_ring : forall ws g bell st t,
  rh_on_bell (RWait ws g) bell st t =
  match regr_on_bell_ring g bell st (qsub t (ws_delay ws)) with
  | Ok g' => (RWait (wait_on_bell_ring ws bell st) g', None)
  | Err e => (RWait ws g, Some e)
  end.
Proof. reflexivity. Qed.
Theorem C14_inner_clock_change_setting : forall ws g k v t,
  rh_change_setting (RWait ws g) k v t =
  match regr_change_setting g k v (qsub t (ws_delay ws)) with
  | Ok g' => (RWait ws g', None)
  | Err e => (RWait ws g, Some e)
  end.
Proof. reflexivity. Qed.

(* moving the clock's origin by ANY amount c moves the fitted start by c and leaves the interval
   alone: the regression only ever sees differences of times *)
Theorem C14_regression_translates : forall c d a b a' b',
  calculate_regression d = Some (a, b) ->
  calculate_regression (map (shift_point c) d) = Some (a', b') ->
  a' == a + c /\ b' == b.
Proof. exact regression_translates. Qed.

(* The product regresses RELATIVE to its first datapoint (blow time and real time subtracted, the intercept
   shifted back) so that present-day clock values do not ruin the conditioning of the normal matrix; the
   model regresses on the raw values.  In exact arithmetic the two are the same function, whatever the
   reference point: the centred fit exists iff the raw one does, has the same interval, and its
   intercept moved back by (y0 - b x0) is the raw intercept. *)
Theorem C14_centred_regression_is_the_regression : forall x0 y0 d a' b',
  calculate_regression (map (centre_point x0 y0) d) = Some (a', b') ->
  exists a b, calculate_regression d = Some (a, b) /\ a == y0 + (a' - b' * x0) /\ b == b'.
Proof. exact centred_regression. Qed.
Theorem C14_centred_regression_defined : forall x0 y0 d a b,
  calculate_regression d = Some (a, b) ->
  exists a' b', calculate_regression (map (centre_point x0 y0) d) = Some (a', b').
Proof. exact centred_regression_defined. Qed.

(* the one place where the code looks at an absolute value: `_start_time == 0` means "not set" *)
Example C14_origin_sentinel :
  let r := regr_init 1 0 180 1 4 15 in
  regr_wait_plan (r <| r_start := Some 0 |> <| r_interval := 1 # 3 |>) (-1) 0 0 false = WSleep (1 # 3) BIG.
Proof. vm_compute. reflexivity. Qed.
