(* C12 - Wheatley moves onto a steady human rhythm.  (Exact-rational instance of the model.) *)
From Wh Require Import Prelude Permute PN Gens Rhythm RegressP TimingP.
From Coq Require Import NArith ZArith QArith.
Local Open Scope Q_scope.

(* If every retained observation lies on one line (time = a + b * blow), the weighted regression
   returns EXACTLY that line: any weights, any number of points, any tempo, any offset. *)
Theorem C12_collinear_recovery : forall a b d a' b',
  Forall (on_line a b) d -> calculate_regression d = Some (a', b') -> a' == a /\ b' == b.
Proof. exact collinear_recovery. Qed.
Theorem C12_regression_defined : forall d, ~ det d == 0 -> exists a b, calculate_regression d = Some (a, b).
Proof. exact regression_defined. Qed.

(* inertia 0: Wheatley's line IS the regression's line *)
Theorem C12_inertia_zero_takes_the_new_line : forall new old, lerp new old 0 == new.
Proof. exact lerp_zero. Qed.
(* inertia t: the distance to the humans' line shrinks by exactly the factor t at every retained
   strike, so by t^k after k of them (t <= 1/2: below 2^-k) *)
Theorem C12_geometric_contraction : forall new old t k,
  Nat.iter k (fun cur => lerp new cur t) old - new == t ^ (Z.of_nat k) * (old - new).
Proof. exact lerp_contracts_iter. Qed.
(* if the humans are already on Wheatley's line nothing changes, for EVERY inertia *)
Theorem C12_fixed_point : forall a t, lerp a a t == a.
Proof. exact lerp_same. Qed.
