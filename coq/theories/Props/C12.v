(* C12 - Wheatley moves onto a steady human rhythm.  (Exact-rational instance of the model.) *)
From Wh Require Import Prelude Permute PN Gens Rhythm RegressP DetP LineP TimingP.
From Coq Require Import NArith ZArith QArith.
Local Open Scope Q_scope.

(* If every retained observation lies on one line (time = a + b * blow), the weighted regression
   returns EXACTLY that line: any weights, any number of points, any tempo, any offset. *)
Theorem C12_collinear_recovery : forall a b d a' b',
  Forall (on_line a b) d -> calculate_regression d = Some (a', b') -> a' == a /\ b' == b.
Proof. exact collinear_recovery. Qed.
Theorem C12_regression_defined : forall d, ~ det d == 0 -> exists a b, calculate_regression d = Some (a, b).
Proof. exact regression_defined. Qed.

(* inertia 0: Wheatley's line IS the regression's line *)
Theorem C12_inertia_zero_takes_the_new_line : forall new old, lerp new old 0 == new.
Proof. exact lerp_zero. Qed.
(* inertia t: the distance to the humans' line shrinks by exactly the factor t at every retained
   strike, so by t^k after k of them (t <= 1/2: below 2^-k) *)
Theorem C12_geometric_contraction : forall new old t k,
  Nat.iter k (fun cur => lerp new cur t) old - new == t ^ (Z.of_nat k) * (old - new).
Proof. exact lerp_contracts_iter. Qed.
(* if the humans are already on Wheatley's line nothing changes, for EVERY inertia *)
Theorem C12_fixed_point : forall a t, lerp a a t == a.
Proof. exact lerp_same. Qed.


(* The side condition of C12_regression_defined is met by the product's own data: _add_data_point keeps
   only observations heavier than the rejection threshold; different strikes have different blow times;
   and positive weights on two different blows make the normal matrix non-singular
   (det = sum over pairs of w_i w_j (x_i - x_j)^2 > 0).  So from the second strike heard on, the regression is
   defined, and on collinear data it is the humans' line with no hypothesis left about the matrix. *)
Theorem C12_kept_data_are_heavy : forall r row place t w r',
  add_data_point r row place t w = Ok r' -> Forall heavy (r_data r').
Proof. exact add_data_point_keeps_heavy. Qed.
Theorem C12_different_strikes_different_blows : forall r row1 place1 row2 place2,
  0 <= r_gap r -> (place1 < r_stage r)%nat -> (place2 < r_stage r)%nat ->
  (row1, place1) <> (row2, place2) ->
  ~ index_to_blow_time r row1 place1 == index_to_blow_time r row2 place2.
Proof. exact blow_time_injective. Qed.
Theorem C12_regression_defined_on_two_blows : forall d x1 y1 w1 x2 y2 w2,
  Forall heavy d -> In (x1, y1, w1) d -> In (x2, y2, w2) d -> ~ x1 == x2 ->
  exists a b, calculate_regression d = Some (a, b).
Proof. exact heavy_regression_defined. Qed.
Theorem C12_collinear_recovery_total : forall a b d x1 y1 w1 x2 y2 w2,
  Forall wnonneg d -> In (x1, y1, w1) d -> In (x2, y2, w2) d -> 0 < w1 -> 0 < w2 -> ~ x1 == x2 ->
  Forall (on_line a b) d ->
  exists a' b', calculate_regression d = Some (a', b') /\ a' == a /\ b' == b.
Proof. exact collinear_recovery_total. Qed.
(* the hypotheses are satisfiable: two strikes of weight 1 a blow apart *)
Example C12_total_nonvacuous :
  exists a' b', calculate_regression [(0, 10, 1); (1, 103 # 10, 1)] = Some (a', b') /\ a' == 10 /\ b' == 3 # 10.
Proof.
  apply (collinear_recovery_total 10 (3 # 10) _ 0 10 1 1 (103 # 10) 1).
  - constructor; [cbn; discriminate|constructor; [cbn; discriminate|constructor]].
  - left; reflexivity.
  - right; left; reflexivity.
  - reflexivity.
  - reflexivity.
  - discriminate.
  - constructor; [cbn; reflexivity|constructor; [cbn; reflexivity|constructor]].
Qed.


(* The same, on the model's own `_add_data_point` (exact instance): whenever it runs the regression on data that
   lie on the humans' line (a, b), Wheatley's start and interval move towards (a, b) by EXACTLY the factor
   `inertia` - the one in force for that row - and with inertia 0 they ARE (a, b) from that regression onwards.
   No hypothesis about the matrix: two different blows among the kept data suffice. *)
Theorem C12_one_regression_contracts : forall r row place t w r' a b x1 y1 w1 x2 y2 w2 s,
  r_round r = false ->
  Qeqb (if (0 <? row)%nat then r_pref_inertia r else r_init_inertia r) 1 = false ->
  r_start r = Some s ->
  add_data_point r row place t w = Ok r' ->
  (r_min r <= length (r_data r'))%nat ->
  Forall (on_line a b) (r_data r') ->
  In (x1, y1, w1) (r_data r') -> In (x2, y2, w2) (r_data r') -> ~ x1 == x2 ->
  let i := if (0 <? row)%nat then r_pref_inertia r else r_init_inertia r in
  exists s', r_start r' = Some s' /\ s' - a == i * (s - a) /\ r_interval r' - b == i * (r_interval r - b).
Proof. exact one_regression_contracts. Qed.
Theorem C12_inertia_zero_lands_on_the_line : forall r row place t w r' a b x1 y1 w1 x2 y2 w2 s,
  r_round r = false ->
  (if (0 <? row)%nat then r_pref_inertia r else r_init_inertia r) == 0 ->
  r_start r = Some s ->
  add_data_point r row place t w = Ok r' ->
  (r_min r <= length (r_data r'))%nat ->
  Forall (on_line a b) (r_data r') ->
  In (x1, y1, w1) (r_data r') -> In (x2, y2, w2) (r_data r') -> ~ x1 == x2 ->
  exists s', r_start r' = Some s' /\ s' == a /\ r_interval r' == b.
Proof. exact inertia_zero_lands_on_the_line. Qed.
Example C12_one_regression_nonvacuous :
  match add_data_point demo_regr 1 1 (121 # 10) 1 with
  | Ok r' => (r_min demo_regr <= length (r_data r'))%nat /\ Forall (on_line 10 (3 # 10)) (r_data r')
             /\ r_start r' = Some 10 /\ r_interval r' = 3 # 10
  | Err _ => False
  end.
Proof. exact one_regression_nonvacuous. Qed.
