(* C07 - stop discipline: That's all, Rounds, Stand, stop-at-rounds; bells left at hand. *)
From Wh Require Import Prelude Permute PN Gens Complib Tower Rhythm PyStr Sys GensP BotP SettingsP TurnoverP.
From Coq Require Import NArith ZArith QArith.
Close Scope Q_scope.

(* Ringing stops only at a turnover into a handstroke, and only because a stand was pending or
   stop-at-rounds saw rounds come up outside the opening rows: an even number of rows has been
   begun since Look to, so every bell is left at hand.  ALL control states and inputs. *)
Theorem C07_ringing_stops_only_at_handstroke : forall sar hjr nh ok fits k k' act,
  snr_ctl sar hjr nh ok fits k = Ok (k', act) -> k_ringing k = true -> k_ringing k' = false ->
  nh = true /\ (k_stand k = true \/ (sar = true /\ hjr = true /\ k_opening k = false)).
Proof. exact ringing_stops_only_at_handstroke. Qed.

Theorem C07_stand_at_handstroke : forall sar hjr ok fits k k' act,
  snr_ctl sar hjr true ok fits k = Ok (k', act) -> k_stand k = true ->
  k_ringing k' = false /\ k_stand k' = false.
Proof. exact stand_at_handstroke. Qed.
Theorem C07_stand_waits_for_handstroke : forall sar hjr ok fits k k' act,
  snr_ctl sar hjr false ok fits k = Ok (k', act) -> k_stand k = true ->
  k_ringing k' = k_ringing k /\ k_stand k' = true.
Proof. exact stand_waits_for_handstroke. Qed.

(* That's all: rounds at once if the row in progress was rounds, else exactly one more method row *)
Theorem C07_thats_all_after_rounds : forall sar nh ok fits k k' act,
  snr_ctl sar true nh ok fits k = Ok (k', act) -> k_rows_left k = Some 1%Z ->
  k_rounds k' = true /\ k_rows_left k' = None.
Proof. exact thats_all_after_rounds. Qed.
Theorem C07_thats_all_one_more_row : forall sar nh ok fits k k' act,
  snr_ctl sar false nh ok fits k = Ok (k', act) -> k_rows_left k = Some 1%Z ->
  opt_z_is (k_left k) 0 = false ->
  k_rounds k' = k_rounds k /\ k_rows_left k' = Some 0%Z.
Proof. exact thats_all_one_more_row. Qed.
Theorem C07_thats_all_then_rounds : forall sar hjr nh ok fits k k' act,
  snr_ctl sar hjr nh ok fits k = Ok (k', act) -> k_rows_left k = Some 0%Z ->
  k_rounds k' = true /\ k_rows_left k' = None.
Proof. exact thats_all_then_rounds. Qed.

From Wh Require Import Parse Glue GlueP.
From Coq Require Import ZArith QArith.

(* stop-at-rounds is -s or -H on the command line, and always on in server mode *)
Theorem C07_stop_at_rounds_flag : forall c cfg, console_cfg c = Ok cfg -> bc_sar cfg = (cl_sar c || cl_handbell c).
Proof. exact stop_at_rounds_flag. Qed.

(* what a settings message - any keys, any values, any number of them - can NOT do: the pending Stand next, the
   That's-all countdown, the pending start, the row in progress and the generators are exactly as they were *)
Theorem C07_settings_never_cancel_a_call : forall nested w kvs w' o,
  handle nested w (MSetting kvs) = (w', o) -> same_control w w'.
Proof. exact setting_message_keeps_control. Qed.
Theorem C07_people_never_cancel_a_call : forall nested w m w' o,
  match m with MUserEntered _ _ | MUserList _ | MUserLeft _ | MAssign _ _ => True | _ => False end ->
  handle nested w m = (w', o) -> same_control w w'.
Proof. exact people_messages_keep_control. Qed.

(* the control skeleton of a row turnover can only STOP the ringing: once Stop touch (or a stand) has switched it
   off, no turnover - into a handstroke or a backstroke, whatever else is pending - switches it on again *)
Theorem C07_turnover_never_starts_ringing : forall sar hjr nh ok fits k k' act,
  snr_ctl sar hjr nh ok fits k = Ok (k', act) -> k_ringing k = false -> k_ringing k' = false.
Proof. exact turnover_never_starts_ringing. Qed.
