(* C19 - under Ringing Room's control, changes apply atomically and only between touches. *)
From Wh Require Import Prelude Permute PN Gens Complib Tower Rhythm PyStr Sys GensP BotP RegressP Conc ConcP SettingP TurnoverP.
From Coq Require Import NArith ZArith QArith.
Close Scope Q_scope.

(* a selection only ever writes the QUEUED generator; a malformed one (RowGenParseError or any other
   exception from the parser) leaves the whole state exactly as it was *)
Theorem C19_row_gen_only_queues : forall w j,
  b_gen (w_bot (fst (on_row_gen w j))) = b_gen (w_bot w)
  /\ match json_to_row_generator j with
     | JGen g => b_next_gen (w_bot (fst (on_row_gen w j))) = Some g
     | _ => fst (on_row_gen w j) = w
     end.
Proof. exact row_gen_only_queues. Qed.
(* the row turnover keeps the generator's identity (kind, stage, start row): it is never swapped
   mid-touch *)
Theorem C19_turnover_keeps_generator : forall w f, BotP.same_gen w (fst (start_next_row w f)).
Proof. exact start_next_row_same_gen. Qed.
(* Look to tests the generator that is about to be rung (the queued one if any) - tree after the fix *)
Theorem C19_look_to_gates_on_queued : forall nested w,
  check_start_row w && check_bells w (gen_to_ring w) = false -> on_look_to nested w = (w, None).
Proof. exact refused_look_to_is_silent. Qed.

(* EVERY statement-level interleaving of the selection handler with the size-change handler, with the
   Look-to hand-over, and of all three - for every fit valuation, with or without a generator already
   queued - ends in the state of one of the sequential orders (the finite set of merges that respect
   the lock is enumerated completely inside the kernel) *)
Theorem C19_handlers_linearise : all_configs_linearise = true.
Proof. exact handlers_linearise. Qed.
Theorem C19_selection_never_lost :
  forallb (fun q =>
    forallb selection_survives
      (explore (fits_of true true true) 10 (start q) [mkT (prog_row_gen 3) None; mkT prog_look_to None]))
  [true; false] = true.
Proof. exact selection_never_lost. Qed.
(* the same code without the lock is NOT linearisable: the theorem above is not vacuous *)
Theorem C19_race_without_lock :
  linearisable (fits_of true false true) (start true) [prog_row_gen_nolock 3; prog_size_change_nolock] = false.
Proof. exact handlers_race_without_lock. Qed.

(* a peal-speed change bends the line without a jump: the blow position of the instant of the change
   is the same before and after, and the slope is the new interval (exact-rational instance) *)
Theorem C19_speed_change_is_continuous : forall r p t s r',
  r_start r = Some s -> ~ (r_interval r == 0)%Q -> (0 < p)%Z -> r_round r = false ->
  regr_change_setting r KPealSpeed (VInt p) t = Ok r' ->
  let ni := peal_speed_to_blow_interval (inject_Z p) (r_stage r) in
  r_interval r' = ni /\
  (forall s', r_start r' = Some s' -> ~ (ni == 0)%Q -> ((t - s') / ni == (t - s) / r_interval r)%Q).
Proof. exact speed_change_is_continuous. Qed.

(* Stop touch switches ringing off at once and the main loop then starts no further tick: at most the
   strike of the tick already in progress goes out *)
Theorem C19_stop_touch_stops : forall w, b_ringing (w_bot (on_stop_touch w)) = false.
Proof. exact stop_touch_stops. Qed.
Theorem C19_not_ringing_no_tick : forall fuel w,
  b_ringing (w_bot w) = false -> main_step fuel w PRing = (w, PRingExit, Running).
Proof. exact not_ringing_no_tick. Qed.

(* roll call: emitted on entering the ringing loop, which is entered only when ringing has started *)
Theorem C19_ring_enter_needs_ringing : forall fuel w w' p' o,
  main_step fuel w PIdle = (w', p', o) -> p' = PRingEnter -> b_ringing (w_bot w) = true.
Proof. exact ring_enter_needs_ringing. Qed.
Theorem C19_ring_enter_emits_roll_call : forall fuel w id,
  b_instance (w_bot w) = Some id ->
  fst (fst (main_step fuel w PRingEnter)) = log (log w (OIsRinging true)) (ORollCall id).
Proof. exact ring_enter_emits_roll_call. Qed.

(* Wheatley exits only from the idle loop, in server mode, after more than 300 s without ringing *)
Theorem C19_exit_only_when_idle : forall fuel w p w' p',
  main_step fuel w p = (w', p', Exited) ->
  p = PIdle /\ b_ringing (w_bot w) = false /\ server_mode w' = true
  /\ Qltb (qadd (b_last_activity (w_bot w')) INACTIVITY) (w_now w') = true.
Proof. exact exit_only_when_idle. Qed.

From Wh Require Import Parse Glue GlueP.
From Coq Require Import ZArith QArith.

(* the configuration server mode runs under *)
Theorem C19_server_configuration : forall id,
  server_cfg id = {| bc_udi := true; bc_sar := true; bc_calls := true; bc_wait := true;
                     bc_name := Some uWheatley; bc_instance := id; bc_peal := 180%Z; bc_inertia := 1%Q;
                     bc_initial_inertia := 0%Q; bc_gap := 1%Q; bc_max := 15; bc_min := 4 |}.
Proof. exact server_configuration. Qed.

(* a peal-speed setting that arrives while everybody is still waiting for a human leader to pull off: the new
   speed is adopted, the line stays at infinity (no NaN, no jump), and a human bell's tick keeps polling for the
   pull-off - nothing can be struck before the leader, and the first row is then placed at the NEW speed *)
Theorem C19_speed_change_before_pull_off : forall r p t r',
  r_start r = None -> ~ (r_interval r == 0)%Q -> (0 < p)%Z ->
  regr_change_setting r KPealSpeed (VInt p) t = Ok r' ->
  r_start r' = None
  /\ r_interval r' = peal_speed_to_blow_interval (inject_Z p) (r_stage r)
  /\ r_peal_speed r' = inject_Z p
  /\ r_data r' = r_data r
  /\ (forall now row place, regr_wait_plan r' now row place true = WPollPullOff).
Proof. exact speed_change_before_pull_off. Qed.

(* the control skeleton of a row turnover can only STOP the ringing: once Stop touch (or a stand) has switched it
   off, no turnover - into a handstroke or a backstroke, whatever else is pending - switches it on again *)
Theorem C19_turnover_never_starts_ringing : forall sar hjr nh ok fits k k' act,
  snr_ctl sar hjr nh ok fits k = Ok (k', act) -> k_ringing k = false -> k_ringing k' = false.
Proof. exact turnover_never_starts_ringing. Qed.
