(* C02 - method rows are exactly what the place notation defines. *)
From Wh Require Import Prelude Permute PN Gens PermuteP GensP CallsP FactsP PNP.

(* with no call pending or in progress, the k-th row is the start row transformed by the first k
   changes of the notation read cyclically from the start index: all k, all start indices
   (negative included), any start row, any strokes *)
Theorem C02_kth_row : forall strokes g c,
  g_kind g = GPN c -> pc_method c <> [] -> plain_state g ->
  match spec_rows c (g_stage g) (g_row g) (g_index g) (length strokes) with
  | Ok rows => gen_run g (map OpNext strokes) = (map (fun r => (r, [])) rows, None)
  | Err e => snd (gen_run g (map OpNext strokes)) = Some e
  end.
Proof. exact kth_row. Qed.

(* Plain Hunt is the notation x.1n (n even) / n.1 (n odd): same rows, every n, every length *)
Theorem C02_plain_hunt_is_pn : forall k n s r i,
  gen_run (at_state GPlainHunt n s i r) (map (fun j => OpNext (Nat.even j)) (seq i k))
  = gen_run (at_state (GPN (hunt_cfg n)) n s i r) (map (fun j => OpNext (Nat.even j)) (seq i k)).
Proof. exact plain_hunt_is_pn. Qed.

(* facts of the real methods, for EVERY supported stage (finite domain, bound stated): lead length,
   treble plain-hunts, the plain course comes round after exactly 2n(n-2) / 12n rows and not before,
   all rows distinct *)
Theorem C02_grandsire_facts : forallb grandsire_ok (seq 5 12) = true.
Proof. exact grandsire_facts. Qed.
Theorem C02_stedman_facts : forallb stedman_ok [5; 7; 9; 11; 13; 15] = true.
Proof. exact stedman_facts. Qed.

(* the language: a block is a non-empty sequence of tokens - a cross written x or - with ANY number
   of dots on either side, or a non-empty group of bell symbols 1..9,0,E,T,A-D, two adjacent groups
   separated by one dot - optionally marked '&' or '+'.  convert_pn on the rendering of ANY such
   block gives exactly its changes (palindromic iff marked '&'): every length, every stage. *)
Theorem C02_grammar_single_block : forall b, wf_block b ->
  convert_pn (render_block b) = Ok (block_changes false b).
Proof. exact convert_pn_single. Qed.

(* two or more blocks joined by commas: each palindromic unless marked '+', concatenated in order *)
Theorem C02_grammar_comma_blocks : forall b1 b2 bs, Forall wf_block (b1 :: b2 :: bs) ->
  convert_pn (join_commas (map render_block (b1 :: b2 :: bs)))
  = Ok (concat (map (block_changes true) (b1 :: b2 :: bs))).
Proof. exact convert_pn_commas. Qed.

(* the grammar's reading of a real string, and the hypotheses are satisfiable *)
Example C02_grammar_example :
  let x := RCross false 0 0 in let p := RPlaces in
  join_commas (map render_block [(MNone, [x; p [1;6]; x; p [1;6]; x; p [1;6]]); (MNone, [p [1;2]])])
  = pb_minor_text      (* the string "x16x16x16,12" *)
  /\ convert_pn pb_minor_text
     = Ok [[]; [1;6]; []; [1;6]; []; [1;6]; []; [1;6]; []; [1;6]; []; [1;2]].
Proof. exact pb_minor_grammar. Qed.
