(* C16 - compositions are rung row for row and called call for call. *)
From Wh Require Import Prelude Permute PN Gens Complib Tower Rhythm PyStr Sys GensP BotP ComplibP.
From Coq Require Import NArith ZArith QArith Sorting.Sorted Permutation.
Close Scope Q_scope.

(* the rows a composition generator hands out are exactly the loaded rows in order, then rounds:
   every composition, every length, every position in it *)
Theorem C16_comp_rows_in_order : forall strokes g loaded early ss rd,
  is_complib g loaded early ss -> rounds (g_stage g) = Ok rd ->
  fst (gen_run g (map OpNext strokes)) =
  map (fun i => nth i loaded (rd, [])) (seq (g_index g) (length strokes)).
Proof. exact comp_rows_in_order. Qed.

(* no call taken from a composition is ever "Stand" *)
Theorem C16_never_stand_from_comp : forall s c, In c (calls_of s) -> ustr_eqb c uStand = false.
Proof. exact never_stand_from_comp. Qed.

(* calls attached to the i-th opening row are filed under "n - i rows before the first change" *)
Theorem C16_early_calls_keys : forall n rows i k cs,
  dict_get Z.eqb (early_calls_of n i rows) k = Some cs ->
  exists j r, nth_error rows j = Some (r, cs) /\ cs <> [] /\ k = Z.of_nat (n - (i + j)).
Proof. exact early_calls_of_spec. Qed.

(* a late Go flushes all the missed calls, in the order in which they should have been made *)
Theorem C16_late_go_order : forall l, StronglySorted (fun a b => (fst b <= fst a)%Z) (sort_desc l).
Proof. exact sort_desc_sorted. Qed.
Theorem C16_late_go_all : forall l, Permutation l (sort_desc l).
Proof. exact sort_desc_perm. Qed.

(* with calls switched off, nothing is called - for every list of calls in every state *)
Theorem C16_calls_off_silent : forall w cs, b_call_comps (w_bot w) = false -> make_calls w cs = w.
Proof. exact calls_off_silent. Qed.

(* the row turnover forgets the calls of the row that has just been rung (tree after the fix):
   the calls to be made at the next lead are the early calls of the counter value, else none, unless
   a row is then taken from the generator *)
Example C16_witness_pre_fix_repaired :
  let p := {| pl_stage := 4; pl_rows := [([49;50;51;52]%N, []); ([50;49;52;51]%N, []);
                                          ([49;50;51;52]%N, [84;104;97;116;39;115;32;97;108;108]%N)] |} in
  match mk_complib p with
  | Ok g => fst (gen_run g [OpNext false; OpNext true; OpNext false]) =
            [([2;1;4;3], []); ([1;2;3;4], [uThatsAll]); ([1;2;3;4], [])]
  | Err _ => False
  end.
Proof. vm_compute. reflexivity. Qed.

From Wh Require Import Parse Glue GlueP.
From Coq Require Import ZArith QArith.

(* "when told not to": --no-calls is what switches the calling of compositions off *)
Theorem C16_calls_off_flag : forall c cfg, console_cfg c = Ok cfg -> bc_calls cfg = negb (cl_no_calls c).
Proof. exact calls_off_flag. Qed.
