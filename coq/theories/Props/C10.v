(* C10 - Wheatley always makes progress and its main loop never dies. *)
From Wh Require Import Prelude Permute PN Gens Complib Tower Rhythm PyStr Sys GensP BotP.
From Coq Require Import NArith ZArith QArith.
Close Scope Q_scope.

(* Every exception that can escape a tick - the only way main_loop can die - has one of three
   sources: no bell at the current place of the row, the start-stroke assertion, the row generator. *)
Theorem C10_tick_failure_sources : forall fuel w w' e,
  tick fuel w = (w', Some e) ->
  (nth_error (b_row (w_bot w)) (b_place (w_bot w)) = None /\ e = EIndex)
  \/ (exists w1, snr_args w1 false = Err e)
  \/ (exists g st, gen_next g st = Err e).
Proof. exact tick_failure_sources. Qed.

(* In every reachable state (C06's invariant holds in all of them) the assertion is excluded. *)
Theorem C10_assertion_excluded : forall fuel w w' e,
  Jw w -> tick fuel w = (w', Some e) ->
  (nth_error (b_row (w_bot w)) (b_place (w_bot w)) = None /\ e = EIndex)
  \/ (exists g st, gen_next g st = Err e).
Proof. exact tick_failure_sources_J. Qed.
Theorem C10_invariant_reachable : forall fuel c, Jw (fst (run fuel c)).
Proof. exact J_reachable. Qed.

(* The generator does not fail: place-notation generators with a non-empty notation and plain hunt
   (C01), whenever its row invariant holds. *)
Theorem C10_generator_total : forall g st, total_kind g -> gen_inv g -> exists y, gen_next g st = Ok y.
Proof. exact gen_next_total. Qed.

(* The place stays inside the row: within a row the next tick finds its bell (tree after the fix:
   a row ends at min(len(row), tower size), so also when the tower grows mid-row) *)
Theorem C10_no_turnover_keeps_index : forall w bell uc,
  (Nat.min (length (b_row (w_bot w))) (N_of w) <=? S (b_place (w_bot w))) = false ->
  nth_error (b_row (w_bot (fst (tick_end w bell uc)))) (b_place (w_bot (fst (tick_end w bell uc)))) <> None.
Proof. exact no_turnover_keeps_index. Qed.

(* Progress in waiting mode: the wait for a human bell ends as soon as (the poll after) the bell is
   no longer awaited; there is no other reason to stay in it (C09) - and in keep-going mode a tick
   never sleeps beyond its scheduled instant or 10 ms (C11_wait_plan). *)
Theorem C10_wait_ends_when_rung : forall fuel w bell st acc,
  let w' := fst (wait_poll fuel w bell st acc) in
  w_fuel_out w' = true \/ Qltb (w_horizon w') (w_now w') = true \/
  match w_rhythm w' with
  | RWait ws _ => ws_return ws = true \/ mem_nat bell (ws_exp ws st) = false
  | _ => True
  end.
Proof. exact wait_poll_exit. Qed.

From Wh Require Import Parse Glue GlueP.
From Coq Require Import ZArith QArith.

(* "with keep-going set": -k / --keep-going is what removes the waiting wrapper *)
Theorem C10_keep_going_removes_the_wait : forall c cfg, console_cfg c = Ok cfg -> bc_wait cfg = negb (cl_keep_going c).
Proof. exact waiting_unless_keep_going. Qed.
