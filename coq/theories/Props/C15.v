(* C15 - pull-off: 3 s after Look to, or whenever the human treble actually goes. *)
From Wh Require Import Prelude Permute PN Gens Complib Tower Rhythm PyStr Sys GensP BotP RegressP TimingP SettingP.
From Coq Require Import NArith ZArith QArith.
Close Scope Q_scope.

(* Wheatley rings the first bell of the opening row: the line is anchored at the start time handed
   over by the Bot - which is call_time + 3 (look_to_has_been_called) - with the configured interval *)
Theorem C15_bot_leads_line : forall r stage t r',
  (1 < r_min r)%nat -> (1 < r_max r)%nat ->
  regr_initialise_line r stage false t = Ok r' ->
  r_start r' = Some t /\ r_interval r' = peal_speed_to_blow_interval (r_peal_speed r) stage.
Proof. exact bot_leads_line. Qed.

(* a human rings it: the line is at infinity, ... *)
Theorem C15_human_leads_line : forall r stage t r',
  regr_initialise_line r stage true t = Ok r' ->
  r_start r' = None /\ r_interval r' = peal_speed_to_blow_interval (r_peal_speed r) stage.
Proof. exact human_leads_line. Qed.
(* ... the tick of a human bell polls for the pull-off instead of sleeping towards an instant, ... *)
Theorem C15_human_leads_polls : forall r ct row place,
  r_start r = None -> regr_wait_plan r ct row place true = WPollPullOff.
Proof. exact human_leads_polls. Qed.
(* ... that loop has no time-out: it ends only when the line has left infinity, ... *)
Theorem C15_poll_ends_only_when_anchored : forall fuel w,
  let w' := poll_pull_off fuel w in
  w_fuel_out w' = true \/ Qltb (w_horizon w') (w_now w') = true \/
  match regr_of (w_rhythm w') with Some g => r_start g <> None | None => True end.
Proof. exact poll_pull_off_exit. Qed.
(* ... and ONLY the strike of the bell expected at blow time 0 - the leader - brings it back,
   whatever other humans do before *)
Theorem C15_start_stays_infinite_until_leader : forall r bell st t r',
  r_start r = None -> regr_on_bell_ring r bell st t = Ok r' ->
  match dict_get key_eqb (r_expected r) (bell, st) with
  | None => r_start r' = None
  | Some (row, place) =>
      if Qeqb (index_to_blow_time r row place) 0 then r_start r' <> None else r_start r' = None
  end.
Proof. exact start_stays_infinite_until_leader. Qed.


(* a peal-speed setting that arrives while everybody is still waiting for a human leader to pull off: the new
   speed is adopted, the line stays at infinity (no NaN, no jump), and a human bell's tick keeps polling for the
   pull-off - nothing can be struck before the leader, and the first row is then placed at the NEW speed *)
Theorem C15_speed_change_before_pull_off : forall r p t r',
  r_start r = None -> ~ (r_interval r == 0)%Q -> (0 < p)%Z ->
  regr_change_setting r KPealSpeed (VInt p) t = Ok r' ->
  r_start r' = None
  /\ r_interval r' = peal_speed_to_blow_interval (inject_Z p) (r_stage r)
  /\ r_peal_speed r' = inject_Z p
  /\ r_data r' = r_data r
  /\ (forall now row place, regr_wait_plan r' now row place true = WPollPullOff).
Proof. exact speed_change_before_pull_off. Qed.
