(* C06 - start discipline: rounds until Go, method starts on the right stroke. *)
From Wh Require Import Prelude Permute PN Gens Complib Tower Rhythm PyStr Sys GensP BotP SettingsP.
From Coq Require Import NArith ZArith QArith.
Close Scope Q_scope.

(* Invariant (Proofs/BotP.v): whenever the start counter holds c, row (row_number + 1 + c) is on the
   generator's start stroke.  It holds in EVERY state the closed system can reach - every
   configuration, every timed history of server messages, human strikes and ticks, every rhythm,
   every amount of fuel (granularity H: messages land inside sleeps). *)
Theorem C06_invariant_reachable : forall fuel c, Jw (fst (run fuel c)).
Proof. exact J_reachable. Qed.

(* In every such state the start-stroke assertion of the row turnover (bot.py:416) holds: the
   method can only start on a row of the generator's start stroke. *)
Theorem C06_start_assert_never_fires : forall w,
  Jw w -> exists k act, snr_args w false = Ok (k, act).
Proof. exact start_assert_never_fires. Qed.

(* Go sets the counter so that the method starts on the first row of the start stroke that BEGINS
   AFTER the row in which Go was delivered (1 more opening row if that row is on the start stroke,
   else 0), whatever the placement *)
Theorem C06_go_sets_counter : forall rn sp,
  Jc (Some (if Bool.eqb (Nat.even rn) sp then 1%Z else 0%Z)) rn sp.
Proof. exact go_J. Qed.

(* nothing starts, and the opening row keeps being rung, until the counter reaches 0 *)
Theorem C06_no_start_before_counter_zero : forall sar hjr nh ok fits k k' act,
  snr_ctl sar hjr nh ok fits k = Ok (k', act) -> opt_z_is (k_left k) 0 = false ->
  act = NoStart /\ k_opening k' = k_opening k.
Proof. exact no_start_before_counter_zero. Qed.
Theorem C06_start_when_counter_zero : forall sar hjr nh fits k k' act,
  snr_ctl sar hjr nh true fits k = Ok (k', act) -> opt_z_is (k_left k) 0 = true ->
  act = Start (negb fits) /\ k_opening k' = false /\ k_left k' = None.
Proof. exact start_when_counter_zero. Qed.

(* up-down-in: Look to sets the counter to 2 (handstroke start) / 3 (backstroke start); the first
   row never starts the method *)
Theorem C06_first_row : forall sar hjr fits k (sp udi : bool),
  k_left k = (if negb udi then @None Z else if sp then Some 2%Z else Some 3%Z) ->
  match snr_ctl sar hjr true (Bool.eqb true sp) fits k with
  | Ok (k', act) => Jc (k_left k') 0 sp /\ act = NoStart
  | Err _ => False
  end.
Proof. exact snr_ctl_first. Qed.

(* a Go while the method is being rung changes nothing *)
Theorem C06_go_during_method_is_noop : forall w,
  b_rounds_flag (w_bot w) = false -> b_opening_flag (w_bot w) = false -> on_go w = w.
Proof. exact go_during_method_is_noop. Qed.

From Wh Require Import Parse Glue GlueP.
From Coq Require Import ZArith QArith.

(* "up-down-in mode" is -u or -H on the command line, and always on in server mode *)
Theorem C06_up_down_in_flag : forall c cfg, console_cfg c = Ok cfg -> bc_udi cfg = (cl_udi c || cl_handbell c).
Proof. exact up_down_in_flag. Qed.

(* neither settings nor people coming and going touch the start bookkeeping (counter, flags, row number) *)
Theorem C06_settings_leave_the_start_alone : forall nested w kvs w' o,
  handle nested w (MSetting kvs) = (w', o) -> same_control w w'.
Proof. exact setting_message_keeps_control. Qed.
