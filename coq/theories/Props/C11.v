(* C11 - left alone, Wheatley rings at exactly the configured peal speed and gap. *)
From Wh Require Import Prelude Permute PN Gens Complib Tower Rhythm PyStr Sys RegressP TimingP CallsTimeP.
From Coq Require Import NArith ZArith QArith.
Local Open Scope Q_scope.

(* I = peal minutes * 60 / (2520 * (2N + 1)), every speed, every tower size *)
Theorem C11_blow_interval_formula : forall m n,
  peal_speed_to_blow_interval m n == m * 60 / (2520 * (2 * Qnat n + 1)).
Proof. exact blow_interval_formula. Qed.

(* blow index of place p of row r: r*N + p + floor(r/2)*g *)
Theorem C11_blow_time_formula : forall r row place,
  index_to_blow_time r row place == Qnat row * Qnat (r_stage r) + Qnat place + Qnat (row / 2) * r_gap r.
Proof. exact index_to_blow_time_formula. Qed.

(* when the blow is still ahead, the tick sleeps exactly up to s + I * blow ... *)
Theorem C11_wait_plan_on_time : forall r ct row place uc s,
  r_start r = Some s -> Qeqb s 0 = false ->
  Qltb ct (qadd s (qmul (r_interval r) (index_to_blow_time r row place))) = true ->
  exists m, regr_wait_plan r ct row place uc =
            WSleep (qsub (qadd s (qmul (r_interval r) (index_to_blow_time r row place))) ct) m.
Proof. exact wait_plan_on_time. Qed.
Theorem C11_sleep_lands_on_time : forall ct bt, ct <= bt -> qadd ct (qmax (qsub bt ct) 0) == bt.
Proof. exact sleep_lands_on_time. Qed.

(* ... hence, by induction over ALL blows of a touch of any length: every strike is at exactly its
   scheduled instant whenever consecutive scheduled instants are more than the 10 ms pause apart and
   the first tick begins before the first one.  Timing error never accumulates. *)
Theorem C11_no_accumulation : forall (bt : nat -> Q) (pause : Q),
  (forall k, pause < bt (S k) - bt k) ->
  forall b0, b0 < bt 0%nat -> forall k, strike bt pause b0 k == bt k /\ begin_ bt pause b0 k < bt k.
Proof. exact no_accumulation. Qed.

(* consecutive scheduled instants: one interval apart inside a row; each handstroke lead is opened
   by exactly g extra intervals, a backstroke lead by none *)
Theorem C11_step_in_row : forall r row place,
  index_to_blow_time r row (S place) - index_to_blow_time r row place == 1.
Proof. exact blow_step_in_row. Qed.
Theorem C11_step_turnover : forall r row,
  index_to_blow_time r (S row) 0 - index_to_blow_time r row (r_stage r)
  == (if Nat.even (S row) then r_gap r else 0).
Proof. exact blow_step_turnover. Qed.

(* at the default gap 5040 rows take exactly the requested time *)
Theorem C11_peal_takes_requested_time : forall m n,
  let I := peal_speed_to_blow_interval m n in I * (5040 * Qnat n + 2520 * 1) == m * 60.
Proof. exact peal_takes_requested_time. Qed.

(* the feasibility guard is necessary: a 10-minute peal on 16 bells has I < 10 ms *)
Example C11_guard_is_needed : Qltb (peal_speed_to_blow_interval 10 16) (1 # 100) = true.
Proof. vm_compute. reflexivity. Qed.

From Wh Require Import Parse Glue GlueP.
From Coq Require Import ZArith QArith.

(* "the configured speed and gap": what -S, -G, -I and -X say is what the regression is built with *)
Theorem C11_cli_speed_and_gap : forall c cfg, console_cfg c = Ok cfg ->
  parse_peal_speed (cl_peal c) = Ok (bc_peal cfg) /\ bc_gap cfg = cl_gap c /\ bc_inertia cfg = cl_inertia c
  /\ bc_max cfg = cl_max c /\ bc_min cfg = Nat.min 4 (cl_max c).
Proof. exact speed_and_gap_passed_on. Qed.

(* making the calls of a row - however many it carries - takes no time and touches neither the rhythm nor the
   Bot: the blow that follows is waited for from the same instant and on the same line *)
Theorem C11_calls_take_no_time : forall cs w,
  w_now (make_calls w cs) = w_now w /\ w_rhythm (make_calls w cs) = w_rhythm w /\ w_bot (make_calls w cs) = w_bot w
  /\ w_tower (make_calls w cs) = w_tower w.
Proof. exact make_calls_take_no_time. Qed.
