(* C01 - every row Wheatley rings is a complete row.  ONLY statements closed by `exact`. *)
From Wh Require Import Prelude Permute PermuteP.
From Coq Require Import Permutation.

Theorem C01_permute_ok : forall stage pl r,
  stage <= length r ->
  exists r', permute stage pl r = Ok r' /\ Permutation r r' /\ length r' = length r.
Proof. exact permute_ok. Qed.
