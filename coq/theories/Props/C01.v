(* C01 - every row Wheatley rings is a complete row.  ONLY statements closed by `exact`. *)
From Wh Require Import Prelude Permute PN Gens Complib Tower Rhythm PyStr Sys PermuteP GensP BotP ResizeP.
From Coq Require Import Permutation.

(* one change, ALL stages, place lists (sorted or not, in range or not) and rows *)
Theorem C01_permute_ok : forall stage pl r,
  stage <= length r ->
  exists r', permute stage pl r = Ok r' /\ Permutation r r' /\ length r' = length r.
Proof. exact permute_ok. Qed.

(* the only way permute can fail is IndexError on a row shorter than the stage *)
Theorem C01_permute_error_only_short_row : forall stage pl r e,
  permute stage pl r = Err e -> e = EIndex /\ length r < stage.
Proof. exact permute_never_other_error. Qed.

(* opening rows: no bell twice, every tower bell present *)
Theorem C01_starting_row_ok : forall n custom r,
  generate_starting_row n custom = Ok r ->
  NoDup r /\ (forall b, 1 <= b <= n -> In b r) /\ n <= length r.
Proof. exact starting_row_ok. Qed.

(* every row returned along EVERY history of Bob / Single / Reset / Next operations, by a
   place-notation, plain-hunt or Dixonoid generator, is a permutation of the start row *)
Theorem C01_gen_rows_perm : forall ops g,
  permuting g -> gen_inv g ->
  Forall (fun rc => Permutation (fst rc) (g_start_row g)) (fst (gen_run g ops)).
Proof. exact gen_run_rows_perm. Qed.

(* the constructors establish the hypotheses of the previous theorem *)
Theorem C01_pn_constructor : forall stage m b s si custom g,
  mk_pn_gen stage m b s si custom = Ok g -> gen_inv g /\ permuting g.
Proof. exact mk_pn_gen_inv. Qed.
Theorem C01_plain_hunt_constructor : forall stage custom g,
  mk_plain_hunt stage custom = Ok g -> gen_inv g /\ permuting g /\ total_kind g.
Proof. exact mk_plain_hunt_inv. Qed.
Theorem C01_dixon_constructor : forall stage p b s custom g,
  mk_dixon stage p b s custom = Ok g -> gen_inv g /\ permuting g.
Proof. exact mk_dixon_inv. Qed.

(* and generation never fails: a place-notation generator (non-empty notation) or plain hunt *)
Theorem C01_gen_next_total : forall g st,
  total_kind g -> gen_inv g -> exists y, gen_next g st = Ok y.
Proof. exact gen_next_total. Qed.

(* cover bells: a method row (a permutation of the generator's start row) padded with the tail of the
   Bot's opening row - exactly what generate_next_row does - is a permutation of the opening row, i.e.
   a complete row of the tower, for every stage <= tower size and every custom start row *)
Theorem C01_cover_padding_is_complete_row : forall stage n custom sr op r,
  stage <= n ->
  generate_starting_row stage custom = Ok sr -> generate_starting_row n custom = Ok op ->
  Permutation r sr ->
  Permutation (if length r <? length op then r ++ skipn (length r) op else r) op.
Proof. exact cover_padding_is_complete_row. Qed.

(* ... and across a size change DURING a touch: whatever the Bot rings next after `_on_size_change` (opening
   row, closing rounds, or a method row with its covers) is a complete row of the NEW tower, as long as the
   method still fits it.  `started`: the generator's start row is the one computed from its stage and custom
   row, which every constructor establishes. *)
Theorem C01_rows_complete_after_size_change : forall w w1 w2,
  started (b_gen (w_bot w)) -> permuting (b_gen (w_bot w)) -> gen_inv (b_gen (w_bot w)) ->
  g_stage (b_gen (w_bot w)) <= N_of w ->
  bot_on_size_change w = (w1, None) ->
  generate_next_row w1 = (w2, None) ->
  complete_row (N_of w) (b_row (w_bot w2)).
Proof. exact rows_complete_after_size_change. Qed.
Theorem C01_pn_constructor_started : forall stage m b s si custom g,
  mk_pn_gen stage m b s si custom = Ok g -> started g.
Proof. exact mk_pn_gen_started. Qed.
Theorem C01_plain_hunt_constructor_started : forall stage custom g, mk_plain_hunt stage custom = Ok g -> started g.
Proof. exact mk_plain_hunt_started. Qed.
Theorem C01_dixon_constructor_started : forall stage p b s custom g, mk_dixon stage p b s custom = Ok g -> started g.
Proof. exact mk_dixon_started. Qed.
Example C01_resize_nonvacuous :
  exists g, mk_plain_hunt 6 None = Ok g /\ started g /\ permuting g /\ gen_inv g /\ g_stage g <= 8.
Proof. exact resize_hypotheses_nonvacuous. Qed.

(* non-vacuity: the hypotheses hold of Grandsire Triples, and a history with a Single produces rows *)
Example C01_nonvacuous :
  exists g, mk_grandsire 7 None = Ok g /\ gen_inv g /\ permuting g.
Proof.
  destruct (mk_grandsire 7 None) as [g|e] eqn:E; [|vm_compute in E; discriminate].
  exists g. split; [reflexivity|].
  unfold mk_grandsire in E.
  destruct (grandsire_notation 7) as [nt|]; [|discriminate]. cbn [bind Nat.eqb] in E.
  exact (mk_pn_gen_inv _ _ _ _ _ _ _ E).
Qed.
Example C01_nonvacuous_rows :
  match mk_grandsire 7 None with
  | Ok g => length (fst (gen_run g [OpNext true; OpSingle; OpNext false; OpNext true])) = 3
  | Err _ => False
  end.
Proof. vm_compute. reflexivity. Qed.
