(* C08 - Wheatley strikes exactly its own bells: once per row, in order, right stroke. *)
From Wh Require Import Prelude Permute PN Gens Complib Tower TowerSpec TowerP Rhythm PyStr Sys GensP BotP.
From Coq Require Import NArith ZArith QArith.
Close Scope Q_scope.

(* The bell and the ownership a tick acts on are sampled when the tick begins ("at the moment of
   its turn"); the rest of the tick runs after the wait with those two values. *)
Theorem C08_tick_samples_at_begin : forall fuel w,
  tick fuel w =
  match nth_error (b_row (w_bot w)) (b_place (w_bot w)) with
  | None => (w, Some EIndex)
  | Some bell =>
      let uc := negb (tw_assigned_to (w_tower w) bell (b_name (w_bot w))) in
      tick_end (rhythm_wait fuel (log w (RWaitFor (w_now w) bell (b_row_number (w_bot w)) (b_place (w_bot w)) uc
                                             (stroke_of_row (b_row_number (w_bot w)))))
                            bell (b_row_number (w_bot w)) (b_place (w_bot w)) uc
                            (stroke_of_row (b_row_number (w_bot w)))) bell uc
  end.
Proof. exact tick_samples_at_begin. Qed.

(* The complete rule for every state: the tick strikes exactly when that bell was Wheatley's and the
   tower's stroke of it equals the stroke of the row in progress; the strike is for that very bell,
   on that very stroke (which therefore agrees with the tower's view), and nothing else is struck:
   never a bell sampled as someone else's, never two strikes in one tick. *)
Theorem C08_tick_end_strikes : forall w bell uc,
  obells (fst (tick_end w bell uc)) =
  match (if uc then None else tw_get_stroke (w_tower w) bell) with
  | Some s => if Bool.eqb s (stroke_of_row (b_row_number (w_bot w))) then (bell, s) :: obells w else obells w
  | None => obells w
  end.
Proof. exact tick_end_strikes. Qed.

(* ownership itself is what the message history says (C20) *)
Theorem C08_ownership_rule : forall h b name,
  tw_assigned_to (view h) b name = spec_is_wheatleys (rev h) b name.
Proof. exact ownership_matches_history. Qed.

(* within a row the place advances by exactly one per tick, the row being unchanged: with C01 (the
   row is a permutation) no bell gets two turns in one row, and turns come in row order *)
Theorem C08_tick_end_advances : forall w bell uc,
  let w' := fst (tick_end w bell uc) in
  (Nat.min (length (b_row (w_bot w))) (N_of w) <=? S (b_place (w_bot w))) = false ->
  b_place (w_bot w') = S (b_place (w_bot w)) /\ b_row_number (w_bot w') = b_row_number (w_bot w)
  /\ b_row (w_bot w') = b_row (w_bot w).
Proof. exact tick_end_advances. Qed.

(* nothing but a tick ever strikes: the row turnover emits no strike *)
Theorem C08_turnover_never_strikes : forall w f, obells (fst (start_next_row w f)) = obells w.
Proof. exact obells_start_next_row. Qed.

From Wh Require Import Parse Glue GlueP.
From Coq Require Import ZArith QArith.

(* "the bells assigned to the configured name": --name reaches the Bot unchanged; the console has no instance id *)
Theorem C08_name_passed_on : forall c cfg, console_cfg c = Ok cfg -> bc_name cfg = cl_name c /\ bc_instance cfg = None.
Proof. exact name_passed_on. Qed.
