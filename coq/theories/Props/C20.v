(* C20 - Wheatley's picture of the tower always matches the message history. *)
From Wh Require Import Prelude Permute PN Gens Tower TowerSpec TowerP PageParser PageP Sys BotP.
From Coq Require Import NArith ZArith.

(* For EVERY history of s_bell_rung / s_global_state / s_user_entered / s_set_userlist / s_user_left /
   s_assign_user / s_size_change messages (well formed or not), the view kept in dictionaries equals
   the dictionary-free, backward-looking reading of the history: strokes (hence size), the name of
   every user id, the holder of every bell. *)
Theorem C20_view_refines_spec : forall h,
  tw_bells (view h) = spec_bells (rev h)
  /\ (forall u, dict_get Z.eqb (tw_names (view h)) u = spec_name (rev h) u)
  /\ (forall b, dict_get Nat.eqb (tw_assigned (view h)) b = spec_holder (rev h) b)
  /\ keys_nodup Nat.eqb (tw_assigned (view h)).
Proof. exact view_refines_spec. Qed.

Theorem C20_size_matches_history : forall h, tw_size (view h) = length (spec_bells (rev h)).
Proof. exact size_matches_history. Qed.

(* what decides which bells Wheatley strikes *)
Theorem C20_ownership_matches_history : forall h b name,
  tw_assigned_to (view h) b name = spec_is_wheatleys (rev h) b name.
Proof. exact ownership_matches_history. Qed.

(* the closed-system model updates its view by exactly this fold, whatever else the handler does *)
Theorem C20_system_view_is_the_fold : forall nested w m tm,
  tmsg_of m = Some tm -> w_tower (fst (handle nested w m)) = tower_step (w_tower w) tm.
Proof. exact handle_tower. Qed.

(* the socket server is the one named in the tower page *)
Theorem C20_load_balancing_url_spec : forall pre sep u post,
  find_sub uSERVER_IP (pre ++ uSERVER_IP ++ sep ++ u ++ cQUOTE :: post) = Some (length pre) ->
  length sep = 3 -> ~ In cQUOTE u ->
  load_balancing_url (pre ++ uSERVER_IP ++ sep ++ u ++ cQUOTE :: post) = Ok u.
Proof. exact load_balancing_url_spec. Qed.
Theorem C20_no_server_ip_is_tower_not_found : forall html,
  find_sub uSERVER_IP html = None -> load_balancing_url html = Err EOwn.
Proof. exact no_server_ip_is_tower_not_found. Qed.

Example C20_nonvacuous :
  let h := [TGlobal [true; true; true; true]; TUserEntered 7 [65]%N; TAssign 3 7; TSizeChange 2; TSizeChange 4] in
  spec_holder (rev h) 3 = None /\ dict_get Nat.eqb (tw_assigned (view h)) 3 = None.
Proof. vm_compute. auto. Qed.
