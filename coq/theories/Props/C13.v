(* C13 - inertia 1 ignores the band; a gross blunder never drags the rhythm. *)
From Wh Require Import Prelude Permute PN Gens Rhythm RegressP TimingP.
From Coq Require Import NArith ZArith QArith.
Local Open Scope Q_scope.

(* with preferred inertia 1, a data point of any row after the first leaves the line untouched:
   for every state, every dataset, every strike time and weight *)
Theorem C13_inertia1_line_frozen : forall r row place t w r',
  (0 < row)%nat -> Qeqb (r_pref_inertia r) 1 = true ->
  add_data_point r row place t w = Ok r' ->
  r_start r' = r_start r /\ r_interval r' = r_interval r.
Proof. exact inertia1_line_frozen. Qed.

(* a strike whose weight is at most the rejection threshold leaves the retained dataset exactly as
   it was (it is appended and filtered out at once) *)
Theorem C13_low_weight_point_is_filtered : forall (d : list datapoint) bt t w,
  Qle_bool w WEIGHT_REJECTION_THRESHOLD = true ->
  filter (fun p : datapoint => Qltb WEIGHT_REJECTION_THRESHOLD (snd p)) (d ++ [(bt, t, w)])
  = filter (fun p : datapoint => Qltb WEIGHT_REJECTION_THRESHOLD (snd p)) d.
Proof. exact low_weight_point_is_filtered. Qed.
(* three places off is enough (exp(-9) < 0.001), 2.6 places is not *)
Theorem C13_three_places_is_rejected : Qle_bool (exp_neg 9) WEIGHT_REJECTION_THRESHOLD = true.
Proof. exact exp_neg_9_below_threshold. Qed.
Theorem C13_two_point_six_is_kept : Qltb WEIGHT_REJECTION_THRESHOLD (exp_neg (169 # 25)) = true.
Proof. exact exp_neg_6_76_above_threshold. Qed.
(* and a regression over data on the current line returns the current line (C12), so re-fitting
   after the blunder has been dropped changes nothing *)
Theorem C13_refit_on_own_line : forall a b d a' b' t,
  Forall (on_line a b) d -> calculate_regression d = Some (a', b') ->
  lerp a' a t == a /\ lerp b' b t == b.
Proof.
  intros a b d a' b' t H1 H2. destruct (collinear_recovery a b d a' b' H1 H2) as [Ea Eb].
  split; [rewrite lerp_eq, Ea | rewrite lerp_eq, Eb]; ring.
Qed.
