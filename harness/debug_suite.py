#!/venv/bin/python
"""Developer tool: run one suite, print disagreements and (for system suites) the model's view."""
import os, random, sys, json
HERE = os.path.dirname(os.path.abspath(__file__))
sys.path.insert(0, HERE); sys.path.insert(0, os.path.join(HERE, "suites"))
import common as C
C.setup_impl_path()
import importlib
modname, clsname = sys.argv[1].split(".")
tier = sys.argv[2] if len(sys.argv) > 2 else "quick"
limit = int(sys.argv[3]) if len(sys.argv) > 3 else 10**9
mod = importlib.import_module("suites." + modname)
suite = getattr(mod, clsname)()
rng = random.Random(os.environ.get("VERIF_SEED", "0"))
cases, outs, terms = [], [], []
for c in suite.cases(rng, tier):
    if len(cases) >= limit: break
    o = suite.run_impl(c); cases.append(c); outs.append(o); terms.append(suite.to_coq(c, o))
print(len(cases), "cases")
if getattr(suite, "classify", False):
    bad, skipped = C.run_cases_classify(suite.imports, suite.case_type, suite.chk, terms, shard=suite.shard, tag="dbg")
else:
    bad, skipped = C.run_cases(suite.imports, suite.case_type, suite.chk, terms, shard=suite.shard, tag="dbg"), []
print("bad", bad[:20], len(bad), "skipped", len(skipped))
for name in dir(suite):
    if name.startswith("oracle_"):
        v = [(i, suite.__getattribute__(name)(c, o)) for i, (c, o) in enumerate(zip(cases, outs))]
        v = [x for x in v if x[1]]
        print(name, len(v), v[:3])
for i in bad[:1] + skipped[:1]:
    print("=== case", i, json.dumps(cases[i])[:3000])
    print("--- impl", json.dumps(outs[i])[:6000])
    if getattr(suite, "classify", False):
        print(C.coq_eval(suite.imports, [f"model_view {terms[i]}"], tag="dbgview")[-8000:])
C.cleanup()
