"""Shared machinery: paths, Coq build, in-kernel evaluation of cases, Print Assumptions, evidence,
known findings, verdicts."""
import fcntl
import hashlib
import json
import os
import re
import shutil
import subprocess
import sys
import time
from concurrent.futures import ThreadPoolExecutor

VERIF = os.path.dirname(os.path.dirname(os.path.abspath(__file__)))
REPO = os.environ.get("WHEATLEY_REPO", "/repo")
COQ = os.path.join(VERIF, "coq")
THEORIES = os.path.join(COQ, "theories")
WORK = os.path.join(VERIF, ".work", str(os.getpid()))
EVIDENCE = os.environ.get("VERIF_EVIDENCE_DIR") or os.path.join(VERIF, "evidence")
REPLAYS = os.path.join(EVIDENCE, "replays")
JOBS = int(os.environ.get("VERIF_JOBS", "16"))

COQ_TIMEOUT = 600


class Broken(Exception):
    """Our own machinery failed (not a statement about /repo)."""


def setup_impl_path():
    """Make `import wheatley` resolve to /repo's working tree, with the socketio stub."""
    stubs = os.path.join(VERIF, "harness", "stubs")
    for p in (stubs, REPO):
        if p in sys.path:
            sys.path.remove(p)
    sys.path.insert(0, stubs)
    sys.path.insert(0, REPO)
    for name in list(sys.modules):
        if name == "wheatley" or name.startswith("wheatley."):
            del sys.modules[name]
    import logging
    logging.disable(logging.CRITICAL)


def workdir():
    os.makedirs(WORK, exist_ok=True)
    return WORK


def cleanup():
    shutil.rmtree(WORK, ignore_errors=True)
    try:
        os.rmdir(os.path.join(VERIF, ".work"))
    except OSError:
        pass


# ------------------------------------------------------------------ hygiene + build

FORBIDDEN = re.compile(
    r"\b(Admitted|admit|Axiom|Axioms|Parameter|Parameters|Conjecture|Admit Obligations)\b"
    r"|Unset Guard|bypass_check|type-in-type|impredicative-set|Unset Positivity|Unset Universe"
)


def v_files():
    out = []
    for root, _, files in os.walk(THEORIES):
        for f in sorted(files):
            if f.endswith(".v"):
                out.append(os.path.join(root, f))
    return sorted(out)


def strip_comments(text):
    out, depth, i = [], 0, 0
    while i < len(text):
        if text.startswith("(*", i):
            depth += 1
            i += 2
        elif text.startswith("*)", i) and depth:
            depth -= 1
            i += 2
        else:
            if not depth:
                out.append(text[i])
            i += 1
    return "".join(out)


def hygiene():
    """No Admitted/admit/Axiom/Parameter/... anywhere; Variable/Hypothesis only inside Sections."""
    problems = []
    for path in v_files():
        text = strip_comments(open(path).read())
        for m in FORBIDDEN.finditer(text):
            problems.append(f"{os.path.relpath(path, VERIF)}: forbidden `{m.group(0)}`")
        depth = 0
        for line in text.splitlines():
            s = line.strip()
            if re.match(r"Section\b", s):
                depth += 1
            elif re.match(r"End\b", s) and depth:
                depth -= 1
            elif re.match(r"(Variable|Variables|Hypothesis|Hypotheses|Context)\b", s) and depth == 0:
                problems.append(f"{os.path.relpath(path, VERIF)}: `{s[:40]}` outside a Section")
    return problems


def build():
    """Full .vo build of coq/ (shared between concurrently started checks by a file lock)."""
    lock = open(os.path.join(VERIF, ".build.lock"), "w")
    fcntl.flock(lock, fcntl.LOCK_EX)
    try:
        t0 = time.time()
        if not os.path.exists(os.path.join(COQ, "Makefile")) or os.path.getmtime(
            os.path.join(COQ, "Makefile")
        ) < os.path.getmtime(os.path.join(COQ, "_CoqProject")):
            subprocess.run(
                ["coq_makefile", "-f", "_CoqProject", "-o", "Makefile"], cwd=COQ, check=True,
                stdout=subprocess.DEVNULL, stderr=subprocess.DEVNULL,
            )
        p = subprocess.run(
            ["timeout", "3000", "make", f"-j{JOBS}"], cwd=COQ, stdout=subprocess.PIPE,
            stderr=subprocess.STDOUT, text=True,
        )
        return p.returncode == 0, p.stdout, time.time() - t0
    finally:
        fcntl.flock(lock, fcntl.LOCK_UN)
        lock.close()


# ------------------------------------------------------------------ proof obligations

THM_RE = re.compile(r"^\s*(Theorem|Lemma|Corollary|Example|Fact|Proposition|Remark)\s+([A-Za-z0-9_']+)", re.M)
REQ_RE = re.compile(r"^\s*From\s+Wh\s+Require\s+(?:Import|Export)\s+([^.]*)\.", re.M)


def module_path(name):
    for root, _, files in os.walk(THEORIES):
        if name + ".v" in files:
            return os.path.join(root, name + ".v")
    return None


def closure(mod):
    seen, todo = [], [mod]
    while todo:
        m = todo.pop()
        if m in seen:
            continue
        path = module_path(m)
        if path is None:
            continue
        seen.append(m)
        text = strip_comments(open(path).read())
        for r in REQ_RE.finditer(text):
            todo.extend(r.group(1).split())
    return seen


def obligations(prop_id):
    """(theorems of Props/<id>.v, all statements in its Wh dependency closure, all built?)"""
    mods = closure(prop_id)
    thms, total, built = [], 0, True
    for m in mods:
        path = module_path(m)
        text = strip_comments(open(path).read())
        names = [x.group(2) for x in THM_RE.finditer(text)]
        total += len(names)
        if m == prop_id:
            thms = [x.group(2) for x in THM_RE.finditer(text) if x.group(1) == "Theorem"]
        vo = path[:-2] + ".vo"
        if not os.path.exists(vo) or os.path.getmtime(vo) < os.path.getmtime(path):
            built = False
    return thms, total, built, mods


def print_assumptions(prop_id, thms):
    """Run Print Assumptions on each property theorem; returns {thm: [axiom lines]} ([] = closed)."""
    if not thms:
        return {}
    d = workdir()
    path = os.path.join(d, f"pa_{prop_id}.v")
    with open(path, "w") as f:
        f.write(f"From Wh Require Import {prop_id}.\n")
        for t in thms:
            f.write(f'Goal True. idtac "@@{t}". Abort.\nPrint Assumptions {t}.\n')
    p = subprocess.run(
        ["timeout", str(COQ_TIMEOUT), "coqc", "-Q", THEORIES, "Wh", path],
        stdout=subprocess.PIPE, stderr=subprocess.STDOUT, text=True, cwd=d,
    )
    if p.returncode != 0:
        raise Broken(f"Print Assumptions failed for {prop_id}:\n{p.stdout[-2000:]}")
    out = {}
    cur = None
    for line in p.stdout.splitlines():
        if line.startswith("@@"):
            cur = line[2:].strip()
            out[cur] = []
        elif cur is not None and line.strip() and "Closed under the global context" not in line \
                and not line.startswith("Axioms:"):
            out[cur].append(line.strip())
    return out


# ------------------------------------------------------------------ in-kernel evaluation of cases

BAD_RE = re.compile(r"=\s*\[(.*?)\]\s*:\s*list nat", re.S)


def _run_shard(args):
    idx, path = args
    p = subprocess.run(
        ["timeout", str(COQ_TIMEOUT), "coqc", "-Q", THEORIES, "Wh", path],
        stdout=subprocess.PIPE, stderr=subprocess.STDOUT, text=True, cwd=os.path.dirname(path),
    )
    return idx, p.returncode, p.stdout


def run_cases(imports, case_type, chk, terms, shard=300, tag="cases"):
    """Ask the kernel on which of `terms` (Gallina terms of type case_type, each embedding the
    implementation's observed output) the checker `chk` - which runs the MODEL - returns false.
    Returns the sorted list of disagreeing indices."""
    d = workdir()
    jobs = []
    for k in range(0, len(terms), shard):
        path = os.path.join(d, f"{tag}_{k // shard}.v")
        with open(path, "w") as f:
            f.write(imports + "\n")
            f.write("Set Printing Width 1000000.\nSet Printing Depth 1000000.\n")
            f.write(f"Definition cases : list ({case_type}) := [\n")
            f.write(";\n".join(terms[k:k + shard]))
            f.write("\n].\n")
            f.write(f"Eval vm_compute in (bad_indices {chk} cases).\n")
        jobs.append((k, path))
    bad = []
    with ThreadPoolExecutor(max_workers=JOBS) as ex:
        for k, rc, out in ex.map(_run_shard, jobs):
            m = BAD_RE.search(out)
            if rc != 0 or not m:
                raise Broken(f"coqc failed on {tag}_{k // shard}.v (rc={rc}):\n{out[-3000:]}")
            body = m.group(1).strip()
            if body:
                bad.extend(k + int(x) for x in body.split(";"))
    for _, path in jobs:
        for ext in (".v", ".vo", ".vok", ".vos", ".glob"):
            try:
                os.remove(path[:-2] + ext)
            except OSError:
                pass
        try:
            os.remove(os.path.join(os.path.dirname(path), "." + os.path.basename(path)[:-2] + ".aux"))
        except OSError:
            pass
    return sorted(bad)


PAIR_RE = re.compile(r"=\s*\(\s*\[(.*?)\]\s*,\s*\[(.*?)\]\s*\)\s*:\s*list nat \* list nat", re.S)


def run_cases_classify(imports, case_type, chk, terms, shard=20, tag="sys"):
    """Like run_cases, for checkers returning 0 (agree) / 1 (disagree) / 2 (skipped: knife edge or
    outside the model).  Returns (disagreeing indices, skipped indices)."""
    d = workdir()
    jobs = []
    for k in range(0, len(terms), shard):
        path = os.path.join(d, f"{tag}_{k // shard}.v")
        with open(path, "w") as f:
            f.write(imports + "\n")
            f.write("Set Printing Width 1000000.\nSet Printing Depth 1000000.\n")
            f.write(f"Definition cases : list ({case_type}) := [\n")
            f.write(";\n".join(terms[k:k + shard]))
            f.write("\n].\n")
            f.write(f"Eval vm_compute in (classify {chk} cases).\n")
        jobs.append((k, path))
    bad, skipped = [], []
    with ThreadPoolExecutor(max_workers=JOBS) as ex:
        for k, rc, out in ex.map(_run_shard, jobs):
            m = PAIR_RE.search(out)
            if rc != 0 or not m:
                raise Broken(f"coqc failed on {tag}_{k // shard}.v (rc={rc}):\n{out[-3000:]}")
            for grp, dest in ((m.group(1), bad), (m.group(2), skipped)):
                body = grp.strip()
                if body:
                    dest.extend(k + int(x) for x in body.split(";"))
    if not os.environ.get("VERIF_KEEP"):
        for _, path in jobs:
            for ext in (".v", ".vo", ".vok", ".vos", ".glob"):
                try:
                    os.remove(path[:-2] + ext)
                except OSError:
                    pass
    return sorted(bad), sorted(skipped)


def coq_eval(imports, exprs, tag="eval"):
    """Evaluate expressions in the kernel and return coqc's raw output (diagnostics only)."""
    d = workdir()
    path = os.path.join(d, f"{tag}.v")
    with open(path, "w") as f:
        f.write(imports + "\nSet Printing Width 200.\n")
        for e in exprs:
            f.write(f"Eval vm_compute in ({e}).\n")
    p = subprocess.run(
        ["timeout", str(COQ_TIMEOUT), "coqc", "-Q", THEORIES, "Wh", path],
        stdout=subprocess.PIPE, stderr=subprocess.STDOUT, text=True, cwd=d,
    )
    return p.stdout


# ------------------------------------------------------------------ known findings

def load_known_findings():
    path = os.path.join(VERIF, "known_findings.json")
    if not os.path.exists(path):
        return {"findings": [], "fixed": []}
    return json.load(open(path))


def write_replay(prop_id, payload):
    os.makedirs(REPLAYS, exist_ok=True)
    blob = json.dumps(payload, sort_keys=True, default=str)
    h = hashlib.sha1(blob.encode()).hexdigest()[:12]
    path = os.path.join(REPLAYS, f"{prop_id}-{h}.json")
    with open(path, "w") as f:
        json.dump(payload, f, indent=1, sort_keys=True, default=str)
    return path


def write_evidence(prop_id, ev):
    os.makedirs(EVIDENCE, exist_ok=True)
    path = os.path.join(EVIDENCE, f"{prop_id}.json")
    tmp = path + f".tmp{os.getpid()}"
    with open(tmp, "w") as f:
        json.dump(ev, f, indent=1, default=str)
    os.replace(tmp, path)
    return path
