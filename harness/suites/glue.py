"""Option handling of wheatley/main.py: what console_main / server_main make of the command line is what
the properties call "waiting mode", "keep-going", "calls off", "up-down-in", "stop at rounds", "--name",
the peal speed and the handstroke gap.  The REAL wheatley.main.main is run with its collaborators
(RingingRoomTower, Bot, get_load_balancing_url) replaced by recorders; create_rhythm runs for real and its
arguments and result are recorded.  Tie: Model/Glue.v (console_cfg / server_cfg) via Corr/CorrGlue.v.
Oracle (independent of the model): the documented meaning of each flag."""
import json

import coqfmt as F
from suites import gens

IMPORTS = gens.IMPORTS + "\nFrom Coq Require Import ZArith QArith.\nFrom Wh Require Import PyStr Parse Glue CorrGlue.\nClose Scope Q_scope."

PEALS = ["2h58", "3h04m", "1h40", "1h55", "2h03", "4h06m", "8h11", "180", "2h58m", " 3h ", "200m", "2 h 45 m", "3h60", "abc", "", "2h", "h30", "1h-5", "3.5h"]


def run_main(argv):
    """-> {"bot": {...}, "rhythm": {...}, "tower": [...]} or {"exit": message}"""
    import wheatley.main as M
    rec = {}

    class FakeTower:
        logger_name = getattr(M.RingingRoomTower, "logger_name", "TOWER")

        def __init__(self, room_id, url):
            rec["tower"] = [room_id, url]

        def __enter__(self):
            return self

        def __exit__(self, *a):
            return False

        def wait_loaded(self):
            pass

    class FakeBot:
        logger_name = getattr(M.Bot, "logger_name", "BOT")

        def __init__(self, tower, row_generator, do_up_down_in, stop_at_rounds, call_comps, rhythm, user_name=None,
                     server_instance_id=None):
            rec["bot"] = {"udi": do_up_down_in, "sar": stop_at_rounds, "calls": call_comps, "name": user_name,
                          "instance": server_instance_id, "gen": type(row_generator).__name__,
                          "rhythm_is_the_one_created": rhythm is rec.get("rhythm_obj")}

        def main_loop(self):
            rec["main_loop"] = True

        def look_to_has_been_called(self, t):
            rec["look_to_time"] = t

    real_create = M.create_rhythm

    def create_rhythm(*a, **kw):
        names = ["peal_speed", "inertia", "max_bells_in_dataset", "handstroke_gap", "use_wait", "initial_inertia"]
        args = dict(zip(names, a))
        args.update(kw)
        args.setdefault("initial_inertia", 0)
        r = real_create(*a, **kw)
        inner = getattr(r, "_inner_rhythm", r)
        rec["rhythm"] = dict(args, cls=type(r).__name__, inner=type(inner).__name__,
                             min=getattr(inner, "_min_bells_in_dataset", None), max=getattr(inner, "_max_bells_in_dataset", None),
                             gap=getattr(inner, "_handstroke_gap", None), peal=getattr(inner, "_peal_speed", None),
                             pref_inertia=getattr(inner, "_preferred_inertia", None),
                             init_inertia=getattr(inner, "_initial_inertia", None))
        rec["rhythm_obj"] = r
        return r

    saved = (M.RingingRoomTower, M.Bot, M.get_load_balancing_url, M.create_rhythm)
    M.RingingRoomTower, M.Bot, M.create_rhythm = FakeTower, FakeBot, create_rhythm
    M.get_load_balancing_url = lambda room_id, url: "http://lb.invalid"
    try:
        M.main(list(argv), stop_on_join_tower=True)
    except SystemExit as e:
        return {"exit": str(e.code)}
    except Exception as e:  # pylint: disable=broad-except
        return {"crash": type(e).__name__ + ": " + str(e)}
    finally:
        M.RingingRoomTower, M.Bot, M.get_load_balancing_url, M.create_rhythm = saved
    rec.pop("rhythm_obj", None)
    return rec


class GlueSuite:
    name = "cli_glue"
    case_type = "glue_case"
    chk = "chk_glue"
    imports = IMPORTS
    shard = 200

    def cases(self, rng, tier):
        # console: every combination of the five switches (32) x a few names / speeds / numbers
        combos = [(u, s, h, nc, k) for u in (0, 1) for s in (0, 1) for h in (0, 1) for nc in (0, 1) for k in (0, 1)]
        for idx, (u, s, h, nc, k) in enumerate(combos * (1 if tier == "quick" else 6)):
            flags = {"udi": bool(u), "sar": bool(s), "handbell": bool(h), "no_calls": bool(nc), "keep_going": bool(k),
                     "name": rng.choice([None, None, "Wheatley", "Bot 2"]),
                     "peal": rng.choice(PEALS) if rng.random() < 0.6 else None,
                     "inertia": rng.choice([None, 0.0, 0.5, 1.0, 0.25]),
                     "gap": rng.choice([None, 0.0, 1.0, 0.5, 2.0, 1.5]),
                     "max": rng.choice([None, 15, 3, 4, 30, 2])}
            yield {"mode": "console", "flags": flags, "long": bool(idx % 2)}
        for i in range(6 if tier == "quick" else 30):
            yield {"mode": "server", "id": rng.choice([None, 0, 7, 123456]), "port": rng.choice([5000, 8080]),
                   "look_to_time": rng.choice([None, 1700000000.25])}

    def argv(self, case):
        if case["mode"] == "server":
            a = ["server-mode", "763451928", "--port", str(case["port"])]
            if case["id"] is not None:
                a += ["--id", str(case["id"])]
            if case["look_to_time"] is not None:
                a += ["--look-to-time", repr(case["look_to_time"])]
            return a
        f, lg = case["flags"], case["long"]
        a = ["763451928", "--method", "Plain Bob Minor"] if False else ["763451928", "--place-notation", "6:x16x16x16,12"]
        if f["udi"]:
            a.append("--use-up-down-in" if lg else "-u")
        if f["sar"]:
            a.append("--stop-at-rounds" if lg else "-s")
        if f["handbell"]:
            a.append("--handbell-style" if lg else "-H")
        if f["no_calls"]:
            a.append("--no-calls")
        if f["keep_going"]:
            a.append("--keep-going" if lg else "-k")
        if f["name"] is not None:
            a += ["--name", f["name"]]
        if f["peal"] is not None:
            a += ["--peal-speed=" + f["peal"]] if lg else ["-S", f["peal"]] if not f["peal"].startswith("-") else ["-S=" + f["peal"]]
        if f["inertia"] is not None:
            a += ["--inertia" if lg else "-I", repr(f["inertia"])]
        if f["gap"] is not None:
            a += ["--handstroke-gap" if lg else "-G", repr(f["gap"])]
        if f["max"] is not None:
            a += ["--max-bells-in-dataset" if lg else "-X", str(f["max"])]
        return a

    def run_impl(self, case):
        return run_main(self.argv(case))

    def key(self, case):
        return json.dumps(case, sort_keys=True)

    def nontrivial(self, case, out):
        return True

    # ---- model side
    def observed_cfg(self, out):
        b, r = out["bot"], dict(out["rhythm"])
        # (private attribute names of the rhythm may change harmlessly: fall back on what create_rhythm was given)
        for attr, arg in (("peal", "peal_speed"), ("pref_inertia", "inertia"), ("gap", "handstroke_gap"),
                          ("max", "max_bells_in_dataset"), ("init_inertia", "initial_inertia")):
            if r.get(attr) is None:
                r[attr] = r[arg]
        if r.get("min") is None:
            r["min"] = min(4, int(r["max"]))
        return ("{| " + "; ".join([
            f"bc_udi := {F.boolean(bool(b['udi']))}", f"bc_sar := {F.boolean(bool(b['sar']))}",
            f"bc_calls := {F.boolean(bool(b['calls']))}", f"bc_wait := {F.boolean(r['cls'] == 'WaitForUserRhythm')}",
            f"bc_name := {F.opt(b['name'], F.ustr)}", f"bc_instance := {F.opt(b['instance'], F.z)}",
            f"bc_peal := {F.z(int(r['peal']))}", f"bc_inertia := {F.q(float(r['pref_inertia']))}",
            f"bc_initial_inertia := {F.q(float(r['init_inertia']))}", f"bc_gap := {F.q(float(r['gap']))}",
            f"bc_max := {F.nat(int(r['max']))}", f"bc_min := {F.nat(int(r['min']))}"]) + " |}")

    def to_coq(self, case, out):
        if case["mode"] == "server":
            if "bot" not in out:
                return f"(GServer {F.opt(case['id'], F.z)} (server_cfg (Some 424242%Z)))"   # forces a disagreement
            return f"(GServer {F.opt(case['id'], F.z)} {self.observed_cfg(out)})"
        f = case["flags"]
        cl = ("{| " + "; ".join([
            f"cl_udi := {F.boolean(f['udi'])}", f"cl_sar := {F.boolean(f['sar'])}", f"cl_handbell := {F.boolean(f['handbell'])}",
            f"cl_no_calls := {F.boolean(f['no_calls'])}", f"cl_keep_going := {F.boolean(f['keep_going'])}",
            f"cl_name := {F.opt(f['name'], F.ustr)}", f"cl_peal := {F.ustr(f['peal'] if f['peal'] is not None else '2h58')}",
            f"cl_inertia := {F.q(0.5 if f['inertia'] is None else f['inertia'])}",
            f"cl_gap := {F.q(1.0 if f['gap'] is None else f['gap'])}",
            f"cl_max := {F.nat(15 if f['max'] is None else f['max'])}"]) + " |}")
        if "bot" in out:
            obs = F.ok(self.observed_cfg(out))
        elif "exit" in out and "peal speed" in out["exit"].lower():
            obs = F.err("EOwn")
        else:
            obs = F.err("EOther")
        return f"(GConsole {cl} {obs})"

    # ---- oracles: the documented meaning of the switches (README / --help), one per property that names a mode
    def _bot(self, case, out):
        if "crash" in out:
            return None, f"wheatley.main.main{self.argv(case)} raised {out['crash']}"
        if "bot" not in out:
            return None, None
        return out, None

    def oracle_C09(self, case, out):
        o, msg = self._bot(case, out)
        if o is None:
            return msg
        want_wait = True if case["mode"] == "server" else not case["flags"]["keep_going"]
        got = o["rhythm"]["cls"] == "WaitForUserRhythm" and o["rhythm"]["inner"] == "RegressionRhythm"
        if want_wait != got or not o["bot"]["rhythm_is_the_one_created"]:
            return (f"{self.argv(case)}: waiting for human ringers should be {'on' if want_wait else 'off'} but the Bot was "
                    f"given a {o['rhythm']['cls']}")
        return None

    oracle_C10 = oracle_C09

    def oracle_C16(self, case, out):
        o, msg = self._bot(case, out)
        if o is None:
            return msg
        want = True if case["mode"] == "server" else not case["flags"]["no_calls"]
        if bool(o["bot"]["calls"]) != want:
            return f"{self.argv(case)}: calling of compositions should be {'on' if want else 'off'}"
        return None

    def oracle_C06(self, case, out):
        o, msg = self._bot(case, out)
        if o is None:
            return msg
        want = True if case["mode"] == "server" else (case["flags"]["udi"] or case["flags"]["handbell"])
        if bool(o["bot"]["udi"]) != want:
            return f"{self.argv(case)}: up-down-in should be {'on' if want else 'off'}"
        return None

    def oracle_C07(self, case, out):
        o, msg = self._bot(case, out)
        if o is None:
            return msg
        want = True if case["mode"] == "server" else (case["flags"]["sar"] or case["flags"]["handbell"])
        if bool(o["bot"]["sar"]) != want:
            return f"{self.argv(case)}: stop-at-rounds should be {'on' if want else 'off'}"
        return None

    def oracle_C08(self, case, out):
        o, msg = self._bot(case, out)
        if o is None:
            return msg
        want = "Wheatley" if case["mode"] == "server" else case["flags"]["name"]
        if o["bot"]["name"] != want:
            return f"{self.argv(case)}: Wheatley should ring the bells of {want!r} but was told {o['bot']['name']!r}"
        return None

    def oracle_C11(self, case, out):
        o, msg = self._bot(case, out)
        if o is None:
            return msg
        r = o["rhythm"]
        if case["mode"] == "server":
            want = (180, 1.0)
        else:
            import re
            f = case["flags"]
            s = f["peal"] if f["peal"] is not None else "2h58"
            m = re.fullmatch(r"\s*(\d+)\s*h\s*(\d*)\s*m?\s*", s)
            m2 = re.fullmatch(r"\s*(\d+)m?\s*", s)
            minutes = int(m.group(1)) * 60 + int(m.group(2) or 0) if m else int(m2.group(1)) if m2 else r["peal"]
            want = (minutes, 1.0 if f["gap"] is None else f["gap"])
        if (r["peal"], float(r["gap"])) != want:
            return f"{self.argv(case)}: the rhythm was built for peal speed {r['peal']} and handstroke gap {r['gap']}, asked for {want}"
        return None

    def oracle_C19(self, case, out):
        if case["mode"] != "server":
            return None
        o, msg = self._bot(case, out)
        if o is None:
            return msg or f"server mode did not build a Bot: {out}"
        b = o["bot"]
        if b["instance"] != case["id"] or b["name"] != "Wheatley" or b["gen"] != "PlaceHolderGenerator":
            return f"server mode {self.argv(case)}: Bot built with instance {b['instance']}, name {b['name']!r}, generator {b['gen']}"
        if o["tower"] != [763451928, f"http://127.0.0.1:{case['port']}"]:
            return f"server mode connects to {o['tower']}"
        if case["look_to_time"] is not None and o.get("look_to_time") != case["look_to_time"]:
            return f"--look-to-time {case['look_to_time']} was not passed on (got {o.get('look_to_time')})"
        return None
