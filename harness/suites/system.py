"""Whole-system correspondence suites: the real Bot/Tower/rhythms under harness/sim.py against
Model/Sys.v, plus model-independent oracles for the Bot-level properties."""
import json
from fractions import Fraction

import coqfmt as F
import sim
from suites import gens

IMPORTS = ("From Wh Require Import Prelude Permute PN Gens Complib Tower Rhythm PyStr Sys CorrGens CorrSys.\n"
           "From Coq Require Import NArith ZArith QArith.\nClose Scope Q_scope.\nOpen Scope nat_scope.")

D001 = Fraction(0.01)   # the double 0.01, exactly
D01 = Fraction(0.1)

CALLS = ["Look to", "Go", "Bob", "Single", "That's all", "Rounds", "Stand next"]

SKEYS = {"use_up_down_in": "KUpDownIn", "stop_at_rounds": "KStopAtRounds", "call_composition": "KCallComp",
         "sensitivity": "KSensitivity", "inertia": "KInertia", "peal_speed": "KPealSpeed"}


def fstr(x):
    return str(Fraction(x))


# ----------------------------------------------------------------------------- Coq rendering
def sval_coq(v):
    if v is None:
        return "VNull"
    if isinstance(v, bool):
        return f"(VBool {F.boolean(v)})"
    if isinstance(v, int):
        return f"(VInt {F.z(v)})"
    if isinstance(v, float):
        return f"(VNum {F.q(v)})"
    if isinstance(v, str):
        return f"(VStr {F.ustr(v)})"
    raise ValueError(v)


def jcall_coq(j, name):
    if name not in j:
        return "JCAbsent"
    v = j[name]
    if not isinstance(v, dict):
        return "JCNotDict"
    return "(JCDict " + F.lst(F.pair(F.ustr(k), F.ustr(x)) for k, x in v.items()) + ")"


def rowgen_coq(j, http):
    if "type" not in j:
        return "RGNoType"
    if j["type"] == "method":
        stage = F.opt(j["stage"], sval_coq) if "stage" in j else "None"
        if "stage" in j and j["stage"] is None:
            stage = "(Some VNull)"
        notation = F.opt(j.get("notation"), F.ustr) if "notation" in j else "None"
        return f"(RGMethod {stage} {notation} {jcall_coq(j, 'bob')} {jcall_coq(j, 'single')})"
    if j["type"] == "composition":
        payload = "None" if http is None else f"(Some {gens.payload_coq(http)})"
        return f"(RGComp {F.boolean('url' in j)} {payload})"
    return "RGOtherType"


def event_coq(ev):
    k = ev[0]
    if k == "ring":
        return f"(QRing {ev[1]})"
    if k == "size":
        return f"(QSize {ev[1]})"
    if k == "global":
        return "(QGlobal " + F.lst(F.boolean(b) for b in ev[1]) + ")"
    if k == "call":
        return f"(QMsg (MCall {F.ustr(ev[1])}))"
    if k == "assign":
        return f"(QMsg (MAssign {ev[1]} {F.z(ev[2])}))"
    if k == "user_entered":
        return f"(QMsg (MUserEntered {F.z(ev[1])} {F.ustr(ev[2])}))"
    if k == "userlist":
        return "(QMsg (MUserList " + F.lst(F.pair(F.z(i), F.ustr(n)) for i, n in ev[1]) + "))"
    if k == "user_left":
        return f"(QMsg (MUserLeft {F.z(ev[1])}))"
    if k == "setting":
        return "(QMsg (MSetting " + F.lst(F.pair(SKEYS.get(a, "KOther"), sval_coq(b)) for a, b in ev[1]) + "))"
    if k == "row_gen":
        return f"(QMsg (MRowGen {rowgen_coq(ev[1], ev[2] if len(ev) > 2 else None)}))"
    if k == "stop_touch":
        return "(QMsg MStopTouch)"
    raise ValueError(k)


def rhythm_coq(r):
    if r["kind"] == "scripted":
        return "(RScripted " + F.lst(F.q(Fraction(d)) for d in r["durs"]) + ")"
    mx = r.get("max", 15)
    reg = (f"(regr_init {F.q(r['inertia'])} {F.q(r.get('initial_inertia', 0))} {F.q(r['peal_speed'])} "
           f"{F.q(r['gap'])} {min(4, mx)} {mx})")
    if r["kind"] == "wait":
        return f"(RWait wait_init {reg})"
    return f"(RRegr {reg})"


def fnum(x):
    """A float / Fraction-string / int logged by the simulator, as an exact Q literal."""
    if isinstance(x, str):
        return F.q(Fraction(x))
    return F.q(x)


def out_coq(item):
    k = item[0]
    a = item[1:]
    if k == "join":
        return "OJoin"
    if k == "request_state":
        return "ORequestState"
    if k == "bell":
        return f"(OBell {a[0]} {F.boolean(a[1])})"
    if k == "call":
        return f"(OCall {F.ustr(a[0])})"
    if k == "is_ringing":
        return f"(OIsRinging {F.boolean(a[0])})"
    if k == "roll_call":
        return f"(ORollCall {F.z(a[0])})"
    if k == "r_return":
        return "RReturn"
    if k == "r_init":
        return f"(RInit {a[0]} {F.boolean(a[1])} {fnum(a[2])} {a[3]})"
    if k == "r_expect":
        return f"(RExpect {a[0]} {a[1]} {a[2]} {F.boolean(a[3])})"
    if k == "r_on_bell":
        return f"(ROnBell {a[0]} {F.boolean(a[1])} {fnum(a[2])})"
    if k == "r_wait":
        return f"(RWaitFor {fnum(a[0])} {a[1]} {a[2]} {a[3]} {F.boolean(a[4])} {F.boolean(a[5])})"
    if k == "r_setting":
        return f"(RSetting {SKEYS.get(a[0], 'KOther')} {fnum(a[1])})"
    if k == "handler_exn":
        return f"(OHandlerExn {a[0]})"
    raise ValueError(item)


def scenario_coq(sc, out, fuel, tol, min_margin):
    gen = "None" if sc["gen"]["kind"] == "placeholder" else f"(Some {gens.spec_coq(sc['gen'])})"
    events = F.lst(F.pair(F.q(Fraction(t)), event_coq(ev)) for t, ev in sc["events"])
    if "ctor_err" in out:
        trace, outcome, ctor = "[]", "None", out["ctor_err"]
    else:
        trace = F.lst(F.pair(F.q(Fraction(it[0])), out_coq(it[1:])) for it in out["trace"])
        oc = out["outcome"]
        outcome = {"stopped": "(Some IStopped)", "exited": "(Some IExited)"}.get(oc[0]) or f"(Some (ICrashed {oc[1]}))"
        ctor = "EOther"
    lt = sc.get("look_to_time")
    # fuel as a product so that no large nat numeral is parsed
    return (f"(mkCase {gen} {F.boolean(sc['udi'])} {F.boolean(sc['stop_at_rounds'])} {F.boolean(sc['call_comps'])} "
            f"{F.opt(sc.get('name'), F.ustr)} {F.opt(sc.get('instance'), F.z)} {rhythm_coq(sc['rhythm'])} "
            f"{F.q(Fraction(sc.get('delta', 0)))} {F.q(Fraction(sc['horizon']))} {events} "
            f"{F.opt(lt, F.q)} {F.q(Fraction(sc.get('origin', 0)))} ({fuel // 100} * 100) {F.q(tol)} {F.q(min_margin)} {trace} {outcome} {ctor})")


# ----------------------------------------------------------------------------- timing helpers
class Schedule:
    """Where the ticks of a scripted-rhythm run fall, so that generators can place a message in
    the wait of a chosen tick or in the 10 ms pause after it."""

    def __init__(self, look_to, dur):
        self.look_to = Fraction(look_to)
        self.dur = Fraction(dur)
        # wait_loaded: one sleep(0.1); then idle polls of 0.01 until Look to has been delivered
        t = D01
        while t < self.look_to:
            t += D001
        self.start = t

    def wait(self, j, f=Fraction(1, 2)):
        """a time inside the wait of tick j (0-based since Look to)"""
        return self.start + j * (self.dur + D001) + self.dur * Fraction(f)

    def pause(self, j, f=Fraction(1, 2)):
        """a time inside the 10 ms pause after tick j"""
        return self.start + j * (self.dur + D001) + self.dur + D001 * Fraction(f)

    def end_of(self, nticks):
        return self.start + nticks * (self.dur + D001)


def ev(t, *item):
    return [fstr(t), list(item)]


def sorted_events(evs):
    return sorted(evs, key=lambda e: Fraction(e[0]))


# ----------------------------------------------------------------------------- trace helpers
def strikes(out):
    return [(Fraction(it[0]), it[2], it[3]) for it in out["trace"] if it[1] == "bell"]


def calls_made(out):
    return [(Fraction(it[0]), it[2]) for it in out["trace"] if it[1] == "call"]


def rows_from_waits(out, n_bells):
    """The rows the Bot rang or waited for, reconstructed from the r_wait log (bell per place)."""
    rows = {}
    order = []
    for it in out["trace"]:
        if it[1] == "r_wait":
            _, _, _t, bell, row, place, uc, hand = it
            key = (row, len([1 for (r, _) in order if r == row and False]))
            if place == 0:
                order.append((row, []))
            if order:
                order[-1][1].append(bell)
    return order


class SystemSuite:
    """Base: subclasses provide scenarios(rng, tier)."""
    case_type = "sys_case"
    chk = "chk_sys"
    imports = IMPORTS
    shard = 8
    classify = True
    tol = Fraction(1, 10 ** 6)
    min_margin = Fraction(1, 10 ** 8)
    fuel = 20000

    def cases(self, rng, tier):
        yield from self.scenarios(rng, tier)

    def run_impl(self, case):
        return sim.run_scenario(case, gens.build_impl_generator)

    def to_coq(self, case, out):
        return scenario_coq(case, out, self.fuel, self.tol, self.min_margin)

    def key(self, case):
        return json.dumps(case, sort_keys=True, default=str)

    def nontrivial(self, case, out):
        return "trace" in out and sum(1 for it in out["trace"] if it[1] == "bell") >= 4


# ----------------------------------------------------------------------------- generic random sessions
def random_names(rng):
    return rng.choice([None, None, "Wheatley", "Bot"])


def random_session(rng, *, rhythm_dur=Fraction(1, 8), server=False):
    spec = gens.random_spec(rng)
    stage = spec.get("stage") or spec["payload"]["stage"]
    n = min(16, max(1, stage + rng.choice([0, 0, 0, 1, 2, 4, -1])))
    if rng.random() < 0.1:
        n = rng.randint(4, 16)
    name = random_names(rng)
    look_to = Fraction(rng.randint(12, 40), 100) + Fraction(1, 1000)
    sch = Schedule(look_to, rhythm_dur)
    nticks = rng.choice([2, 4, 8, 12]) * n
    events = [ev(0, "global", [True] * n)]
    # users and assignments before the touch
    users = [(11, "Alice"), (12, "Bob B"), (13, name or "Carol")]
    if rng.random() < 0.7:
        events.append(ev(Fraction(5, 100), "userlist", [list(u) for u in users[:2]]))
        events.append(ev(Fraction(6, 100), "user_entered", users[2][0], users[2][1]))
        for b in rng.sample(range(1, n + 1), rng.randint(0, n)):
            events.append(ev(Fraction(7, 100) + Fraction(b, 10000), "assign", b, rng.choice([11, 12, 13])))
    events.append(ev(look_to, "call", "Look to"))
    # calls and churn during the touch
    for _ in range(rng.randint(0, 8)):
        j = rng.randrange(nticks)
        t = sch.wait(j, Fraction(rng.randint(1, 96), 97)) if rng.random() < 0.8 else sch.pause(j, Fraction(rng.randint(3, 94), 97))
        r = rng.random()
        if r < 0.55:
            events.append(ev(t, "call", rng.choice(CALLS[1:] + ["Go", "Go", "That's all", "Bob", "Single"])))
        elif r < 0.7:
            events.append(ev(t, "assign", rng.randint(1, n), rng.choice([0, 11, 12, 13])))
        elif r < 0.78:
            events.append(ev(t, "user_left", rng.choice([11, 12, 13])))
        elif r < 0.9:
            events.append(ev(t, "ring", rng.randint(1, n)))
        elif r < 0.95:
            events.append(ev(t, "call", "Look to"))
        else:
            events.append(ev(t, "size", min(16, max(1, n + rng.choice([-2, -1, 1, 2])))))
    if not server and rng.random() < 0.2:
        events.append(ev(sch.wait(0, Fraction(1, 3)), "call", "Go"))
    horizon = sch.end_of(nticks) + Fraction(1, 3000)
    sc = {"gen": spec, "udi": rng.random() < 0.3, "stop_at_rounds": rng.random() < 0.3,
          "call_comps": rng.random() < 0.8, "name": name, "instance": None,
          "rhythm": {"kind": "scripted", "durs": [fstr(rhythm_dur)] * (nticks + 50)},
          "delta": fstr(rng.choice([0, 0, Fraction(1, 1000), Fraction(1, 20)])), "horizon": fstr(horizon),
          "events": sorted_events(events)}
    return sc


class RandomSessionSuite(SystemSuite):
    name = "bot_sessions"

    def oracle_C10(self, case, out):
        if "trace" in out and out["outcome"][0] == "crashed":
            return f"Wheatley's main loop was killed by {out['outcome'][2]} at {out['outcome'][3]}"
        return None

    def scenarios(self, rng, tier):
        for _ in range(150 if tier == "quick" else 1500):
            yield random_session(rng)


# ----------------------------------------------------------------------------- sessions with the real rhythms
def blow_interval(peal_minutes, n):
    return Fraction(peal_minutes) * 60 / 2520 / (2 * n + 1)


def probe_rows(spec, n, nrows, udi=True, go_row=None, custom_events=()):
    """Rows (lists of bell numbers) Wheatley will ring when it owns every bell: obtained by running
    the implementation once under the scripted rhythm.  Used only to script the simulated humans."""
    dur = Fraction(1, 8)
    look_to = Fraction(151, 1000)
    sch = Schedule(look_to, dur)
    events = [ev(0, "global", [True] * n), ev(look_to, "call", "Look to")]
    if go_row is not None:
        events.append(ev(sch.wait(go_row * n, Fraction(1, 3)), "call", "Go"))
    events += list(custom_events)
    sc = {"gen": spec, "udi": udi, "stop_at_rounds": False, "call_comps": False, "name": None, "instance": None,
          "rhythm": {"kind": "scripted", "durs": [fstr(dur)] * (nrows * n + 5)}, "delta": "0",
          "horizon": fstr(sch.end_of(nrows * n) + Fraction(1, 3000)), "events": sorted_events(events)}
    out = sim.run_scenario(sc, gens.build_impl_generator)
    rows = []
    for it in out.get("trace", []):
        if it[1] == "r_wait":
            bell, row, place = it[3], it[4], it[5]
            while len(rows) <= row:
                rows.append([])
            rows[row].append(bell)
    return [r for r in rows if len(r) == n]


def human_events(rng, rows, humans, n, start, interval, gap, *, ratio=1.0, offset=0.0, jitter=0.0, uid=11,
                 late=None, skip_prob=0.0, double_prob=0.0):
    """Strikes of the human-held bells on their own steady line (open loop)."""
    evs = []
    hi = Fraction(interval) * Fraction(ratio)
    for r, row in enumerate(rows):
        for p, bell in enumerate(row):
            if bell not in humans:
                continue
            if rng.random() < skip_prob:
                continue
            blow = r * n + p + (r // 2) * Fraction(gap)
            t = Fraction(start) + Fraction(offset) + hi * blow
            if jitter:
                t += Fraction(rng.uniform(-jitter, jitter)) * hi
            if late and (r, p) in late:
                t += Fraction(late[(r, p)])
            t += Fraction(rng.randint(1, 999), 10 ** 7)   # keep off every grid
            evs.append(ev(t, "ring", bell))
            if rng.random() < double_prob:
                evs.append(ev(t + hi / 3, "ring", bell))
    return evs


def rhythm_session(rng, kind, *, n=None, nrows=None):
    n = n or rng.choice([4, 5, 6, 8, 8, 10, 12])
    stage = n - rng.choice([0, 0, 1]) if n > 4 else n
    spec = rng.choice([
        {"kind": "plain_hunt", "stage": stage, "custom": None},
        {"kind": "pn", "stage": stage, "method": rng.choice(["x1", "x1x1,2", "3,1." + gens.BELL_NAMES[stage - 1]]) if stage % 2 == 0 else "3.1",
         "bob": None, "single": None, "start_index": 0, "custom": None},
    ])
    nrows = nrows or rng.choice([4, 6, 10, 16])
    rows = probe_rows(spec, n, nrows)
    humans = set(rng.sample(range(1, n + 1), rng.randint(0, n - 1)))
    peal = rng.choice([150, 178, 180, 200, 240])
    gap = rng.choice([1.0, 1.0, 0.0, 0.5, 2.0])
    look_to = Fraction(rng.randint(15, 60), 100) + Fraction(1, 1000)
    iv = blow_interval(peal, n)
    start = look_to + 3
    evs = [ev(0, "global", [True] * n), ev(Fraction(3, 100), "user_entered", 11, "Alice")]
    for b in sorted(humans):
        evs.append(ev(Fraction(5, 100) + Fraction(b, 10000), "assign", b, 11))
    evs.append(ev(look_to, "call", "Look to"))
    late = {}
    if kind == "wait" and rng.random() < 0.5 and humans:
        r = rng.randrange(len(rows))
        hp = [p for p, b in enumerate(rows[r]) if b in humans]
        if hp:
            late[(r, rng.choice(hp))] = Fraction(rng.choice([3, 13, 250, 1200]), 1000) + Fraction(1, 7919)
    evs += human_events(rng, rows, humans, n, start, iv, gap, ratio=rng.choice([1.0, 1.0, 0.97, 1.04]),
                        offset=rng.choice([0.0, 0.0, 0.05, -0.03]), jitter=rng.choice([0.0, 0.1, 0.3]),
                        late=late, skip_prob=rng.choice([0, 0, 0.02]), double_prob=rng.choice([0, 0, 0.03]))
    horizon = start + iv * (nrows * n + nrows // 2 * Fraction(gap)) + Fraction(1, 3000)
    rh = {"kind": kind, "inertia": rng.choice([0.0, 0.3, 0.5, 0.5, 1.0]), "peal_speed": peal, "gap": gap,
          "max": rng.choice([15, 15, 8, 30]), "initial_inertia": 0}
    return {"gen": spec, "udi": True, "stop_at_rounds": False, "call_comps": True, "name": None, "instance": None,
            "rhythm": rh, "delta": fstr(rng.choice([0, Fraction(1, 1000), Fraction(3, 100)])), "horizon": fstr(horizon),
            "events": sorted_events(evs)}


class RhythmSessionSuite(SystemSuite):
    name = "rhythm_sessions"
    fuel = 60000
    coq_cap = {"quick": 40}

    def scenarios(self, rng, tier):
        for i in range(60 if tier == "quick" else 600):
            yield rhythm_session(rng, "regression" if i % 2 else "wait")


# ============================================================================= C06 / C07: start and stop discipline
def rows_rung(out):
    """[(row_number, [bells...], first_wait_time)] in the order the Bot began them (a new entry
    whenever a wait for place 0 is logged)."""
    rows = []
    last_place = None
    for it in out.get("trace", []):
        if it[1] == "r_wait":
            bell, row, place = it[3], it[4], it[5]
            # a new entry also when the row number changes or the place does not advance (a row that is not begun at
            # its first place must not be glued to the one before it)
            if place == 0 or not rows or rows[-1][0] != row or last_place is None or place <= last_place:
                rows.append([row, [], Fraction(it[0])])
            rows[-1][1].append(bell)
            last_place = place
    return rows


def touch_spec(n_rows, sp_hand, udi, stop_at_rounds, calls, is_rounds_row, method_len=None):
    """Row-level reading of C06/C07 (DESIGN.md 3, TouchSpec), written without counters:
    returns a list of kinds 'O' (opening row), ('M', k) (k-th method row), 'R' (rounds) for the rows
    rung from Look to; the list ends where ringing stops.  `calls` = [(row in progress, call)] in
    delivery order; `is_rounds_row(kind)` tells whether a row of that kind equals rounds."""
    kinds = []
    m = None                       # row at which the (next) method start is due
    if udi:
        m = 2 if sp_hand else 3
    k = None                       # next method row index, None when not in the method
    thats_all_at = None
    ta_idle_row = None
    stand = False
    to_rounds_from = None          # rows >= this are rounds
    to_opening_from = None
    for i in range(n_rows):
        # calls delivered while row i-1 was in progress have taken effect by now
        if i > 0:
            for (r, c) in calls:
                if r != i - 1:
                    continue
                in_method = kinds[i - 1] != "O" and kinds[i - 1] != "R" and to_opening_from is None
                if c == "Go" and not in_method:
                    if thats_all_at is not None or ta_idle_row == i - 1:
                        return None      # Go right after a That's all in rounds: same corner as below
                    g = i - 1
                    m = g + 1 if ((g + 1) % 2 == 0) == sp_hand else g + 2
                elif c == "That's all":
                    if not in_method and m is not None:
                        # That's all while a start is pending: an order-sensitive corner the property's
                        # text does not settle (the model covers it; this oracle abstains)
                        return None
                    if not in_method:
                        # rounds / the opening row is being rung anyway: nothing to come back to.  (If somebody says Go
                        # later in this very row, the two calls meet at the turnover: not settled by the property's text.)
                        ta_idle_row = i - 1
                        continue
                    thats_all_at = i - 1
                elif c == "Stand next":
                    stand = True
                elif c == "Rounds":
                    to_opening_from = i
        prev = kinds[i - 1] if i else None
        prev_is_rounds = prev is not None and is_rounds_row(prev)
        # stop-at-rounds: rounds came up after the method started
        # (a Rounds call puts Wheatley back on the opening row: that is not "rounds coming up")
        if stop_at_rounds and prev is not None and prev != "O" and prev_is_rounds \
                and not (to_opening_from is not None and i >= to_opening_from):
            stand = True
        if stand and i % 2 == 0:
            break                  # stops before this handstroke
        if m is not None and i == m:
            k = 0
            m = None
            to_rounds_from = None
            to_opening_from = None
            thats_all_at = None
        if thats_all_at is not None:
            if prev_is_rounds or i >= thats_all_at + 2:
                to_rounds_from = i if to_rounds_from is None else to_rounds_from
                thats_all_at = None
                k = None
        if to_opening_from is not None and i >= to_opening_from:
            kinds.append("O")
        elif k is not None:
            kinds.append(("M", k))
            k += 1
        elif to_rounds_from is not None and i >= to_rounds_from:
            kinds.append("R")
        else:
            kinds.append("O")
    return kinds


class StartStopSuite(SystemSuite):
    """Exhaustive placement of Go / That's all / Rounds / Stand next over the first rows of a
    touch, both start strokes, up-down-in and stop-at-rounds on and off, towers with covers."""
    name = "start_stop"
    fuel = 20000
    coq_cap = {"quick": 400}

    def __init__(self, which="both"):
        self.which = which

    def make(self, rng, *, stage, n, start_index, udi, sar, placements, nrows, custom=None, method="x1x1x1,2",
             stray_go=False, relook_row=None, relook_mid=None, settings=None, extra=None):
        dur = Fraction(1, 8)
        look_to = Fraction(131, 1000)
        sch = Schedule(look_to, dur)
        evs = [ev(0, "global", [True] * n), ev(look_to, "call", "Look to")]
        if settings is not None:
            # server mode (Wheatley rings the bells of the user called "Wheatley"; settings arrive over the socket)
            evs.append(ev(Fraction(11, 1000), "user_entered", 1, "Wheatley"))
            for b in range(1, n + 1):
                evs.append(ev(Fraction(12, 1000) + Fraction(b, 100000), "assign", b, 1))
            for (row, place, in_pause, payload) in settings:
                j = row * n + place
                t = sch.pause(j, Fraction(rng.randint(20, 80), 101)) if in_pause else sch.wait(j, Fraction(rng.randint(5, 95), 101))
                evs.append(ev(t, "setting", payload))
            for (row, place, kind, payload) in (extra or []):
                evs.append(ev(sch.wait(row * n + place, Fraction(rng.randint(5, 95), 101)), kind, payload))
        if stray_go:       # a Go nobody should remember: delivered while Wheatley is idle
            evs.append(ev(Fraction(57, 1000), "call", "Go"))
        if relook_row is not None:   # a fresh Look to right after a whole pull has been completed
            evs.append(ev(sch.pause(relook_row * n + n - 1, Fraction(1, 2)), "call", "Look to"))
        if relook_mid is not None:   # ... or while the tick for the first place of a handstroke row is asleep
            evs.append(ev(sch.wait(relook_mid * n, Fraction(1, 2)), "call", "Look to"))
        calls = []
        for (row, place, in_pause, call) in placements:
            j = row * n + place
            t = sch.pause(j, Fraction(rng.randint(20, 80), 101)) if in_pause else sch.wait(j, Fraction(rng.randint(5, 95), 101))
            evs.append(ev(t, "call", call))
            calls.append((t, (j + 1) // n if in_pause else row, call))
        calls = [(r, c) for (_t, r, c) in sorted(calls)]      # delivery order
        spec = {"kind": "pn", "stage": stage, "method": method, "bob": None, "single": None,
                "start_index": start_index, "custom": custom}
        return {"gen": spec, "udi": udi, "stop_at_rounds": sar, "call_comps": True,
                "name": None if settings is None else "Wheatley", "instance": None if settings is None else 7,
                "rhythm": {"kind": "scripted", "durs": [fstr(dur)] * (nrows * n + 8)}, "delta": "0",
                "horizon": fstr(sch.end_of(nrows * n) + Fraction(1, 3000)), "events": sorted_events(evs),
                "oracle": {"calls": calls, "nrows": nrows, "n": n, "relook_row": relook_row, "relook_mid": relook_mid,
                           "relook_time": None if relook_mid is None else fstr(sch.wait(relook_mid * n, Fraction(1, 2)))}}

    def scenarios(self, rng, tier):
        nrows = 12
        configs = []
        for stage, n in ((4, 4), (4, 5), (6, 6), (5, 8)):
            for start_index in (0, 1, -1, 2):
                for udi in (False, True):
                    for sar in (False, True):
                        configs.append((stage, n, start_index, udi, sar))
        if tier == "quick":
            configs = [c for i, c in enumerate(configs) if i % 2 == (rng.random() < 0.5)]
        for (stage, n, si, udi, sar) in configs:
            method = "x1x1,2" if stage % 2 == 0 else "3.1"
            mk = lambda pl: self.make(rng, stage=stage, n=n, start_index=si, udi=udi, sar=sar, placements=pl,
                                      nrows=nrows, method=method)  # noqa: E731
            yield mk([])
            rows = range(0, 7)
            for g in rows:                                   # one Go anywhere in the first rows
                place = rng.randrange(n)
                yield mk([(g, place, rng.random() < 0.3, "Go")])
            for g in range(0, 4):                            # Go, then a stop call
                for t in range(g, 9):
                    for c in ("That's all", "Stand next", "Rounds"):
                        if rng.random() < (0.35 if tier == "quick" else 1.0):
                            yield mk([(g, rng.randrange(n), False, "Go"), (t, rng.randrange(n), rng.random() < 0.3, c)])
            for _k in range(3 if tier == "quick" else 8):     # That's all and Stand next in the same whole pull, either order
                g = rng.randint(0, 1)
                t = rng.randint(g + 3, 8)
                first, second = rng.choice([("That's all", "Stand next"), ("Stand next", "That's all")])
                yield mk([(g, rng.randrange(n), False, "Go"), (t, 0, False, first), (t + rng.choice([0, 0, 1]), n - 1, False, second)])
            yield self.make(rng, stage=stage, n=n, start_index=si, udi=udi, sar=sar, placements=[], nrows=nrows,
                            method=method, stray_go=True)
            for g in (0, 1):                                 # false start: Go, then Look to again
                for r in (1, 3):
                    if r >= g:
                        yield self.make(rng, stage=stage, n=n, start_index=si, udi=udi, sar=False, nrows=nrows,
                                        placements=[(g, rng.randrange(n), False, "Go")], method=method, relook_row=r)
            if not udi and si % 2 == 0:                      # Look to again just as a handstroke row is about to begin
                yield self.make(rng, stage=stage, n=n, start_index=si, udi=udi, sar=False, nrows=nrows,
                                placements=[(0, 0, False, "Go")], method=method, relook_mid=4)
            for g in range(0, 3):                            # repeated / superfluous Go; Go after That's all
                g2 = rng.randint(g + 1, 8)
                yield mk([(g, 0, False, "Go"), (g2, rng.randrange(n), False, "Go")])
                t = rng.randint(g + 2, 5)
                yield mk([(g, 0, False, "Go"), (t, 1, False, "That's all"), (rng.randint(t + 2, 9), 0, False, "Go")])
        # a lead of ODD length with start indices outside [0, lead length): the stroke of the start is
        # the parity of the start index AS CONFIGURED (reducing it mod the lead length flips it)
        for (stage, n) in ((5, 5), (5, 6)):
            for si in (-1, -2, -3, 3, 4, 5, -7):
                for udi in (False, True):
                    mk = lambda pl: self.make(rng, stage=stage, n=n, start_index=si, udi=udi, sar=False, placements=pl,
                                              nrows=nrows, method="3.1.5")  # noqa: E731
                    yield mk([])
                    for g in (rng.randint(0, 1), rng.randint(2, 4)):
                        yield mk([(g, rng.randrange(n), rng.random() < 0.3, "Go")])
        # stop-at-rounds with a course of ODD length (3.1.5 on five: nine rows): rounds comes up at handstroke for a
        # handstroke start, so the stand is due a whole row later, before the NEXT handstroke
        for (stage, n) in ((5, 5), (5, 6)):
            for si in (0, 1, 3):
                for udi in (False, True):
                    for g in (0, 1, 2):
                        pl = [] if udi else [(g, rng.randrange(n), False, "Go")]
                        yield self.make(rng, stage=stage, n=n, start_index=si, udi=udi, sar=True, placements=pl,
                                        nrows=22, method="3.1.5")
        # server mode: the settings panel re-sends the settings IN FORCE (stop-at-rounds as it already is, the speed as it
        # already is) somewhere after a stop call and before the stroke at which that call takes effect: it changes nothing
        for (stage, n) in ((4, 4), (6, 6), (5, 8)):
            method = "x1x1,2" if stage % 2 == 0 else "3.1"
            for si in (0, 1):
                for sar in (False, True):
                    for _k in range(3 if tier == "quick" else 12):
                        g = rng.randint(0, 2)
                        t = rng.randint(g + 2, 8)
                        call = rng.choice(["Stand next", "Stand next", "That's all"])
                        p_call = rng.randrange(n - 1)
                        same_row = rng.random() < 0.5
                        payload = rng.choice([[["stop_at_rounds", sar]], [["stop_at_rounds", "true" if sar else "false"]],
                                              [["peal_speed", 180], ["stop_at_rounds", sar], ["use_up_down_in", False]]])
                        st = [(t, rng.randint(p_call + 1, n - 1), False, payload)] if same_row else \
                             [(t + 1, rng.randrange(n), rng.random() < 0.3, payload)]
                        yield self.make(rng, stage=stage, n=n, start_index=si, udi=False, sar=sar, nrows=nrows, method=method,
                                        placements=[(g, rng.randrange(n), False, "Go"), (t, p_call, False, call)], settings=st)
        # That's all while the opening rounds are still being rung and nobody has said Go yet (stop-at-rounds on and off):
        # it means nothing - rounds go on, a later Go starts the method as usual, nothing stands by itself
        for (stage, n) in ((4, 4), (6, 6), (4, 5)):
            for si in (0, 1):
                for sar in (False, True):
                    for t0 in (0, 1, 2):
                        if rng.random() < (0.5 if tier == "quick" else 1.0):
                            g = t0 + rng.randint(2, 4)
                            yield self.make(rng, stage=stage, n=n, start_index=si, udi=False, sar=sar, nrows=nrows + 8,
                                            method="x1x1,2" if stage % 2 == 0 else "3.1",
                                            placements=[(t0, rng.randrange(n), False, "That's all"), (g, rng.randrange(n), False, "Go")])
        # the touch COMES ROUND (plain hunt on four: eight changes), That's all is called in the row before rounds or in
        # the rounds row itself, and a second Go is called in the closing rounds: the method starts again
        for n in (4, 5):
            for si in (0, 1):
                for udi in (False, True):
                    for ta in range(7, 13):
                        for go2 in range(ta + 1, ta + 5):
                            if rng.random() < (0.3 if tier == "quick" else 1.0):
                                pl = ([] if udi else [(rng.randint(0, 1), rng.randrange(n), False, "Go")]) + \
                                     [(ta, rng.randrange(n), False, "That's all"), (go2, rng.randrange(n), rng.random() < 0.3, "Go")]
                                yield self.make(rng, stage=4, n=n, start_index=si, udi=udi, sar=False, placements=pl,
                                                nrows=22, method="x1x1x1x1")
        # custom start rows and up-down-in with a backstroke start
        for _ in range(10 if tier == "quick" else 60):
            stage = rng.choice([4, 6])
            n = stage + rng.choice([0, 1, 2])
            k = rng.randint(2, n)
            row = list(gens.BELL_NAMES[:k])
            rng.shuffle(row)
            yield self.make(rng, stage=stage, n=n, start_index=rng.choice([0, 1]), udi=rng.random() < 0.5,
                            sar=rng.random() < 0.5, placements=[(rng.randint(0, 4), 0, False, "Go"),
                                                                (rng.randint(4, 8), 1, False, rng.choice(["That's all", "Stand next"]))],
                            nrows=nrows, custom="".join(row), method="x1x1,2")

    def key(self, case):
        c = dict(case)
        return json.dumps(c, sort_keys=True, default=str)

    def to_coq(self, case, out):
        c = {k: v for k, v in case.items() if k != "oracle"}
        return scenario_coq(c, out, self.fuel, self.tol, self.min_margin)

    def run_impl(self, case):
        c = {k: v for k, v in case.items() if k != "oracle"}
        return sim.run_scenario(c, gens.build_impl_generator)

    # ---- oracle shared by C06 and C07
    def _check(self, case, out):
        if "trace" not in out:
            return None
        orc = case["oracle"]
        n = orc["n"]
        spec = case["gen"]
        stage = spec["stage"]
        custom = spec["custom"]
        if custom is not None and len(custom) > n:
            return None
        opening = [gens.BELL_NAMES.index(c) + 1 for c in custom] if custom else []
        opening += [b for b in range(1, n + 1) if b not in opening]
        rounds = list(range(1, n + 1))
        sp_hand = spec["start_index"] % 2 == 0
        # method rows from the textbook reading of the notation
        from suites.gens import textbook_change, apply_change
        pn = {"x1x1,2": [[], [1], [], [1], [], [1], [], [2]], "3.1": [[3], [1]], "3.1.5": [[3], [1], [5]],
              "x1x1x1x1": [[], [1]] * 4}[spec["method"]]
        start_row = opening[:max(stage, len(custom or ""))] if custom else rounds[:stage]
        mrows, row = [], list(start_row)
        for i in range(orc["nrows"] + 2):
            src = textbook_change(stage, pn[(i + spec["start_index"]) % len(pn)])
            row = apply_change(src, row)
            mrows.append(row + opening[len(row):])

        def row_of(kind):
            if kind == "O":
                return opening
            if kind == "R":
                return rounds
            return mrows[kind[1]]

        if orc.get("relook_mid") is not None:
            # all bells are at hand; after the new Look to the first bell struck must lead the opening row
            t2 = Fraction(orc["relook_time"])
            later = [b for (t, b, _h) in strikes(out) if t > t2]
            if later and later[0] != opening[0]:
                return (f"Look to while the tick of row {orc['relook_mid']} place 0 was asleep: the next bell struck was "
                        f"{later[0]}, the opening row starts with {opening[0]}")
            return None
        got = [(r, bells) for (r, bells, _t) in rows_rung(out) if len(bells) == n]
        calls, nrows_spec = orc["calls"], orc["nrows"]
        if orc.get("relook_row") is not None:
            # the second Look to begins a new touch: only that touch is judged here, and the calls of
            # the first one must have been forgotten
            k = orc["relook_row"] + 1
            if len(got) <= k or got[k][0] != 0:
                return f"the second Look to (after row {orc['relook_row']}) did not start a new touch at row 0"
            got = got[k:]
            calls = [(r - k, c) for (r, c) in calls if r >= k]
            nrows_spec = len(got)
        kinds = touch_spec(nrows_spec, sp_hand, case["udi"], case["stop_at_rounds"], calls,
                           lambda kd: row_of(kd) == rounds)
        if kinds is None:
            return None
        if out["outcome"][0] == "crashed":
            return f"main loop died: {out['outcome'][1:3]}"
        for i, kd in enumerate(kinds):
            if i >= len(got):
                if i < nrows_spec - 1:
                    return f"row {i} expected {kd} but ringing had stopped"
                break
            if got[i][1] != row_of(kd):
                return f"row {i}: expected {kd} = {row_of(kd)}, rang {got[i][1]} (kinds {kinds})"
            if got[i][0] != i:
                return f"row {i} carried row number {got[i][0]}"
        if len(kinds) < nrows_spec and len(got) > len(kinds):
            return f"rang {len(got)} rows but should have stopped after {len(kinds)} (kinds {kinds})"
        # strokes alternate from handstroke and each bell ends at hand when ringing stopped
        st = strikes(out)
        if len(kinds) < nrows_spec and orc.get("relook_row") is None:
            per_bell = {}
            for (_t, b, _h) in st:
                per_bell[b] = per_bell.get(b, 0) + 1
            odd = [b for b, c in per_bell.items() if c % 2]
            if odd:
                return f"bells {odd} were struck an odd number of times before standing"
        return None

    def oracle_C06(self, case, out):
        return self._check(case, out)

    def finding_class(self, pid, case, out, msg):
        if case["oracle"].get("relook_mid") is not None and pid in ("C01", "C06"):
            return "look-to-during-tick"
        return None

    def oracle_C10(self, case, out):
        if "trace" in out and out["outcome"][0] == "crashed":
            return f"Wheatley's main loop was killed by {out['outcome'][2]} at {out['outcome'][3]}"
        return None

    def oracle_C07(self, case, out):
        if case["oracle"].get("relook_mid") is not None:
            return None          # a start-discipline case (C06)
        return self._check(case, out)

    def oracle_C01(self, case, out):
        if "trace" not in out:
            return None
        n = case["oracle"]["n"]
        rows = rows_rung(out)
        for i, (r, bells, _t) in enumerate(rows):
            cut_short = i == len(rows) - 1 or rows[i + 1][0] == 0      # the session ended / a new Look to interrupted it
            if cut_short and len(bells) < n and len(set(bells)) == len(bells):
                continue
            if sorted(bells) != list(range(1, n + 1)):
                return f"row {r} = {bells} is not a complete row of the tower"
        return None

    def oracle_C03(self, case, out):
        """Whatever the calls: a row either follows the one before by a legal change (no bell moves more than one
        place, covers stay), or it is rounds / the opening row (That's all, Rounds, a new touch)."""
        if "trace" not in out or case["oracle"].get("relook_mid") is not None:
            return None          # (the mid-tick Look to is a start-discipline case: C01/C06, findings F4/F5)
        n = case["oracle"]["n"]
        spec = case["gen"]
        custom = spec.get("custom")
        if custom is not None and len(custom) > n:
            return None
        opening = [gens.BELL_NAMES.index(c) + 1 for c in custom] if custom else []
        opening += [b for b in range(1, n + 1) if b not in opening]
        rounds = list(range(1, n + 1))
        rows = [b for (_r, b, _t) in rows_rung(out) if len(b) == n]
        for i in range(1, len(rows)):
            a, b = rows[i - 1], rows[i]
            if b in (rounds, opening) or sorted(b) != rounds or sorted(a) != rounds:
                continue
            moved = [x for x in rounds if abs(a.index(x) - b.index(x)) > 1]
            if moved:
                return (f"row {i} = {b} follows {a}: bell(s) {moved} move more than one place although the row is "
                        f"neither rounds nor the opening row")
        return None


# ============================================================================= C05 at Bot level
class SecondTouchSuite(StartStopSuite):
    """C05 through the whole Bot: a first touch with Bob/Single calls is cut short (That's all, or a
    fresh Look to) anywhere - with a call still pending, in the middle of a multi-change call, deep
    in the course - and the method is started again by Go.  Every method start must be followed by
    the rows a fresh generator gives, given only the calls made after that start."""
    name = "second_touch"
    coq_cap = {"quick": 150}
    METHODS = {
        "x16x16x16,12": (6, [[], [1, 6], [], [1, 6], [], [1, 6], [], [1, 6], [], [1, 6], [], [1, 2]]),
        "5.1.5.1.5,125": (5, [[5], [1], [5], [1], [5], [1], [5], [1], [5], [1, 2, 5]]),
        "x1x1,2": (4, [[], [1], [], [1], [], [1], [], [2]]),
    }
    CALLDEFS = {     # name -> (definition as passed to the generator, the same as place sets)
        6: [(None, None), ({"0": "14"}, {0: [[1, 4]]}), ({"0": "1234.16.1234"}, {0: [[1, 2, 3, 4], [1, 6], [1, 2, 3, 4]]}),
            ({"-3": "14.36"}, {-3: [[1, 4], [3, 6]]}), ({"0": "x"}, {0: [[]]})],
        5: [(None, None), ({"0": "145"}, {0: [[1, 4, 5]]}), ({"0": "123.1.345"}, {0: [[1, 2, 3], [1], [3, 4, 5]]})],
        4: [(None, None), ({"0": "14"}, {0: [[1, 4]]}), ({"3": "1234.14"}, {3: [[1, 2, 3, 4], [1, 4]]})],
    }

    def scenarios(self, rng, tier):
        for _ in range(150 if tier == "quick" else 1500):
            method = rng.choice(list(self.METHODS))
            stage, expanded = self.METHODS[method]
            L = len(expanded)
            n = stage + rng.choice([0, 0, 1])
            si = rng.choice([0, 0, 1, -1, 2, 5, -4])
            bob = rng.choice(self.CALLDEFS[stage])
            single = rng.choice(self.CALLDEFS[stage])
            # (up-down-in: the method starts by itself, nobody says Go - neither in the first touch nor after a new Look to)
            udi = rng.random() < 0.35
            g = rng.randint(0, 2)
            pl = [] if udi else [(g, rng.randrange(n), False, "Go")]
            r1 = g + 2 + rng.randint(0, L + 2)
            c1 = rng.choice(["Bob", "Single"])
            pl.append((r1, rng.randrange(n), rng.random() < 0.2, c1))
            t = r1 + rng.randint(0, L + 1)
            relook = None
            if rng.random() < (0.3 if udi else 0.7):
                pl.append((t, rng.randrange(n), False, "That's all"))
                g2 = t + rng.randint(2, 5)
                pl.append((g2, rng.randrange(n), False, "Go"))
            else:
                relook = t if t % 2 == 1 else t + 1
                g2 = relook + 1 + rng.randint(0, 2)
                if not udi:
                    pl.append((g2, rng.randrange(n), False, "Go"))
            if rng.random() < 0.6:
                pl.append((g2 + 2 + rng.randint(0, L), rng.randrange(n), False, rng.choice(["Bob", "Single"])))
            nrows = g2 + 2 * L + 6
            case = self.make(rng, stage=stage, n=n, start_index=si, udi=udi, sar=False, placements=pl, nrows=nrows,
                             method=method, relook_row=relook)
            case["gen"]["bob"], case["gen"]["single"] = bob[0], single[0]
            case["oracle"]["defs"] = {"bob": None if bob[1] is None else {str(k): v for k, v in bob[1].items()},
                                      "single": None if single[1] is None else {str(k): v for k, v in single[1].items()}}
            yield case
        for _ in range(20 if tier == "quick" else 200):
            yield self.rounds_midlead(rng)
        for _ in range(20 if tier == "quick" else 200):
            # server mode: while the touch is being rung somebody chooses the method for the NEXT touch; the Bob or Single
            # called afterwards belongs to the touch in progress
            method = rng.choice(list(self.METHODS))
            stage, expanded = self.METHODS[method]
            L = len(expanded)
            n = stage + rng.choice([0, 1])
            bob = rng.choice(self.CALLDEFS[stage])
            single = rng.choice(self.CALLDEFS[stage])
            g = rng.randint(0, 1)
            rq = g + 2 + rng.randint(0, L)
            rc = rq + 1 + rng.randint(0, L)
            pl = [(g, rng.randrange(n), False, "Go"), (rc, rng.randrange(n), False, rng.choice(["Bob", "Single"]))]
            queued = {"type": "method", "stage": rng.choice([4, 6, stage]), "notation": "x1"}
            case = self.make(rng, stage=stage, n=n, start_index=rng.choice([0, 0, 2]), udi=False, sar=False, placements=pl,
                             nrows=rc + 2 * L + 4, method=method, settings=[], extra=[(rq, rng.randrange(n), "row_gen", queued)])
            case["gen"]["bob"], case["gen"]["single"] = bob[0], single[0]
            case["oracle"]["defs"] = {"bob": None if bob[1] is None else {str(k): v for k, v in bob[1].items()},
                                      "single": None if single[1] is None else {str(k): v for k, v in single[1].items()}}
            yield case

    def rounds_midlead(self, rng):
        """Plain Bob Minor from a start row chosen so that ROUNDS comes up as a row of the method in the middle of a
        lead; somebody says Go (again) while that row is being rung.  Go during the method means nothing."""
        method = "x16x16x16,12"
        stage, expanded = self.METHODS[method]
        n = stage + rng.choice([0, 1])
        si = rng.choice([0, 0, 2, -4])
        k = rng.choice([3, 4, 5, 7, 9, 14, 17])          # rounds is the k-th method row (1-based), never at a lead end
        src = list(range(stage))
        for i in range(k):
            c = gens.textbook_change(stage, expanded[(i + si) % len(expanded)])
            src = [src[j] for j in c]
        start = [0] * stage
        for i in range(stage):
            start[src[i]] = i + 1                        # after k changes the bell in place src[i] is in place i
        custom = "".join(gens.BELL_NAMES[b - 1] for b in start)
        g = rng.randint(0, 1)
        m = g + 1 if ((g + 1) % 2 == 0) == (si % 2 == 0) else g + 2
        pl = [(g, rng.randrange(n), False, "Go"), (m + k - 1, rng.randrange(n), rng.random() < 0.2, "Go")]
        case = self.make(rng, stage=stage, n=n, start_index=si, udi=False, sar=False, placements=pl, nrows=m + k + 8,
                         method=method, custom=custom)
        case["oracle"]["defs"] = {"bob": None, "single": None}
        return case

    def oracle_C06(self, case, out):
        if case["gen"]["method"] not in ("x1x1,2", "3.1", "3.1.5"):
            return None if case["gen"].get("custom") is None else self._check_custom_go(case, out)
        if any(c in ("Bob", "Single") for (_r, c) in case["oracle"]["calls"]) or case["gen"].get("bob") or case["gen"].get("single"):
            return None       # (the row-level reading of C06 knows the plain course only; these are judged under C05)
        return StartStopSuite.oracle_C06(self, case, out)

    def oracle_C04(self, case, out):
        """calls made during a touch act on that touch, at the positions its method defines (row by row against the
        reference interpreter given the calls of the session)"""
        return self.oracle_C05(case, out)

    def _check_custom_go(self, case, out):
        """the rounds-mid-lead sessions: the second Go must change nothing, i.e. the method simply carries on"""
        msg = self.oracle_C03(case, out)
        return msg and "a Go during the method restarted it: " + msg

    def oracle_C05(self, case, out):
        if "trace" not in out or case["gen"].get("custom") is not None:
            return None
        orc = case["oracle"]
        n = orc["n"]
        spec = case["gen"]
        stage, expanded = self.METHODS[spec["method"]]
        L = len(expanded)
        rounds = list(range(1, n + 1))
        si = spec["start_index"]
        defs = {}
        for kind, dflt in (("bob", [[1, 4]]), ("single", [[1, 2, 3, 4]])):
            d = orc["defs"][kind]
            defs[kind] = {(0 - 1) % L: dflt} if d is None else {(int(k) - 1) % L: v for k, v in d.items()}
        got = [(r, bells) for (r, bells, _t) in rows_rung(out) if len(bells) == n]
        calls = orc["calls"]
        if orc.get("relook_row") is not None:
            # the first touch (judged up to the second Look to), then the second
            k = orc["relook_row"] + 1
            touches = [(got[:k], [(r, c) for (r, c) in calls if r < k]),
                       (got[k:], [(r - k, c) for (r, c) in calls if r >= k])]
        else:
            touches = [(got, calls)]
        for ti, (rows, cs) in enumerate(touches):
            ctl = [(r, c) for (r, c) in cs if c not in ("Bob", "Single")]
            kinds = touch_spec(len(rows), si % 2 == 0, case["udi"], False, ctl, lambda kd: False)
            if kinds is None:
                return None
            # (is_rounds_row is only consulted for That's all: "rounds came up" - answered below from the rows themselves)
            i = 0
            while i < len(kinds):
                if kinds[i] != ("M", 0):
                    i += 1
                    continue
                j = i
                while j < len(kinds) and kinds[j] not in ("O", "R"):
                    j += 1
                # method rows i .. j-1 ; row i+q (q>=1) sees the calls delivered during rows i .. i+q-1
                history = []
                for q in range(j - i):
                    if q > 0:
                        history += [c.lower() for (r, c) in cs if r == i + q - 1 and c in ("Bob", "Single")]
                    history.append("next")
                want = gens.reference_rows(stage, rounds[:stage], expanded, defs["bob"], defs["single"], si, history)
                if want is None:
                    return None
                for q in range(j - i):
                    if i + q >= len(rows):
                        break
                    w = want[q] + rounds[stage:]
                    if rows[i + q][1] == rounds and w != rounds:
                        break      # That's all took effect early because rounds... (not this property's business)
                    if rows[i + q][1] != w:
                        return (f"touch {ti + 1}: the method started at row {i}; its row {q} was {rows[i + q][1]} but a fresh "
                                f"Wheatley given only the calls made after that start rings {w} "
                                f"(calls so far in the session: {cs})")
                i = j
        return None


# ============================================================================= C17: tower size vs stage
class GateSuite(SystemSuite):
    """Stage x tower-size grid, custom start rows shorter/equal/longer than the tower, size-change
    sequences between touches, queued generators in server mode."""
    name = "size_gate"
    fuel = 20000
    coq_cap = {"quick": 300}

    def make(self, rng, *, spec, n0, sizes, custom_len_ok=True, server=False, queued=None, queue_pos=0,
             first_touch=True):
        dur = Fraction(1, 8)
        t = Fraction(131, 1000)
        evs = [ev(0, "global", [True] * n0)]
        n = n0
        if server:      # in server mode Wheatley rings the bells assigned to the user called "Wheatley"
            evs.append(ev(Fraction(11, 1000), "user_entered", 1, "Wheatley"))
            for b in range(1, 17):
                evs.append(ev(Fraction(12, 1000) + Fraction(b, 100000), "assign", b, 1))
        if server and queued is not None and queue_pos == 0:
            evs.append(ev(Fraction(61, 1000), "row_gen", queued))
        if first_touch:
            evs.append(ev(t, "call", "Look to"))
            evs.append(ev(t + Fraction(1, 50), "call", "Stand next"))
            # the touch (if it starts) lasts two rows of n ticks
            t = t + 2 * n * (dur + D001) + Fraction(37, 100)
        for i, m in enumerate(sizes):
            evs.append(ev(t, "size", m))
            t += Fraction(7, 100)
            n = m
            if server and queued is not None and queue_pos == i + 1:
                evs.append(ev(t, "row_gen", queued))
                t += Fraction(3, 100)
        look2 = t + Fraction(1, 1000)
        evs.append(ev(look2, "call", "Look to"))
        horizon = look2 + 4 * n * (dur + D001) + Fraction(1, 7)
        return {"gen": spec, "udi": True, "stop_at_rounds": False, "call_comps": True,
                "name": "Wheatley" if server else None, "instance": 7 if server else None,
                "rhythm": {"kind": "scripted", "durs": [fstr(dur)] * 400}, "delta": "0",
                "horizon": fstr(horizon), "events": sorted_events(evs),
                "oracle": {"final_n": n, "look2": fstr(look2), "sizes": [n0] + list(sizes), "queued": queued,
                           "queue_pos": queue_pos, "server": server, "first_touch": first_touch}}

    def scenarios(self, rng, tier):
        stages = range(1, 17)
        towers = range(4, 17)
        grid = [(s, n) for s in stages for n in towers]
        if tier == "quick":
            grid = [g for i, g in enumerate(grid) if i % 3 == rng.randrange(3)]
        for stage, n in grid:                       # plain grid, no custom row: one touch
            spec = {"kind": "plain_hunt", "stage": stage, "custom": None}
            yield self.make(rng, spec=spec, n0=n, sizes=[], first_touch=False)
        for _ in range(120 if tier == "quick" else 1200):   # custom start rows; size sequences
            stage = rng.randint(2, 12)
            k = rng.choice([rng.randint(1, stage), stage, rng.randint(stage, 16)])
            row = list(gens.BELL_NAMES[:k])
            rng.shuffle(row)
            spec = {"kind": rng.choice(["plain_hunt", "pn"]), "stage": stage, "custom": "".join(row)}
            if spec["kind"] == "pn":
                spec.update({"method": "x1" if stage % 2 == 0 else "3.1", "bob": None, "single": None, "start_index": 0})
            n0 = rng.randint(4, 16)
            sizes = [rng.randint(4, 16) for _ in range(rng.randint(0, 3))]
            yield self.make(rng, spec=spec, n0=n0, sizes=sizes, first_touch=rng.random() < 0.7)
        for _ in range(40 if tier == "quick" else 300):     # a custom start row that happens to BE rounds (or rounds with
            stage = rng.randint(2, 10)                      # one swap), as long as or longer than the tower
            k = rng.randint(stage, 16)
            row = list(gens.BELL_NAMES[:k])
            if rng.random() < 0.3 and k >= 2:
                i = rng.randrange(k - 1)
                row[i], row[i + 1] = row[i + 1], row[i]
            spec = {"kind": "plain_hunt", "stage": stage, "custom": "".join(row)}
            n0 = max(4, min(16, k + rng.choice([-3, -2, -1, -1, 0, 1])))
            sizes = [max(4, min(16, k + rng.choice([-2, -1, 0, 1, 2]))) for _ in range(rng.randint(0, 2))]
            yield self.make(rng, spec=spec, n0=n0, sizes=sizes, first_touch=rng.random() < 0.7)
        for _ in range(60 if tier == "quick" else 600):     # server mode: queued generators of every stage
            n0 = rng.randint(4, 12)
            sizes = [rng.randint(4, 12) for _ in range(rng.randint(0, 3))]
            s2 = rng.randint(2, 12)
            queued = {"type": "method", "stage": s2, "notation": "x1" if s2 % 2 == 0 else "3.1"}
            first = {"kind": "pn", "stage": rng.randint(2, 8), "method": "x1", "bob": None, "single": None,
                     "start_index": 0, "custom": None} if rng.random() < 0.7 else {"kind": "placeholder"}
            yield self.make(rng, spec=first, n0=n0, sizes=sizes, server=True, queued=queued,
                            queue_pos=rng.randint(0, len(sizes)), first_touch=rng.random() < 0.6)

    def to_coq(self, case, out):
        c = {k: v for k, v in case.items() if k != "oracle"}
        return scenario_coq(c, out, self.fuel, self.tol, self.min_margin)

    def run_impl(self, case):
        c = {k: v for k, v in case.items() if k != "oracle"}
        return sim.run_scenario(c, gens.build_impl_generator)

    def oracle_C17(self, case, out):
        if "trace" not in out:
            return None
        orc = case["oracle"]
        n = orc["final_n"]
        look2 = Fraction(orc["look2"])
        spec = case["gen"]
        # which generator is to be rung at the last Look to, and does it fit?  (read off the history:
        # a selection waits for the next Look to that can ring it; an EFFECTIVE size change to fewer
        # bells than it needs discards it; a generator that has been rung stays until replaced)
        def fits(g, size):
            return g[0] != 0 and g[0] <= size and (g[1] is None or len(g[1]) <= size)
        current = (spec.get("stage", 0), spec.get("custom"))
        queued = None
        q = (orc["queued"]["stage"], None) if orc["server"] and orc["queued"] is not None else None
        size = orc["sizes"][0]
        if q is not None and orc["queue_pos"] == 0:
            queued = q
        if orc["first_touch"]:
            g = queued or current
            if fits(g, size):
                current, queued = g, None
        for i, m in enumerate(orc["sizes"][1:]):
            if m != size:
                size = m
                if queued is not None and queued[0] > size:
                    queued = None
            if q is not None and orc["queue_pos"] == i + 1:
                queued = q
        stage, custom = queued or current
        rows = [(r, b, t) for (r, b, t) in rows_rung(out) if t >= look2]
        struck = [s for s in strikes(out) if s[0] >= look2]
        fits = stage != 0 and stage <= n and (custom is None or len(custom) <= n)
        struck = struck or rows      # "rings" = begins rows at all (it may own no bell)
        if not fits:
            if struck or rows:
                return (f"rang at Look to although the tower has {n} bells and the method needs {stage}"
                        f"{'' if custom is None else ' / start row ' + custom}")
            return None
        if not struck:
            return f"rang nothing at Look to although stage {stage} / start row {custom} fit a tower of {n}"
        opening = [gens.BELL_NAMES.index(c) + 1 for c in custom] if custom else []
        opening += [b for b in range(1, n + 1) if b not in opening]
        full = [b for (_r, b, _t) in rows if len(b) == n]
        for i, bells in enumerate(full):
            if i < 2 and bells != opening:
                return f"opening row {i} was {bells}, expected {opening} for a tower of {n}"
            keep = stage         # (also the bells a long custom start row puts beyond the stage: they are covers too)
            if bells[keep:] != opening[keep:]:
                return f"row {i}: covers {bells[keep:]} are not the surplus bells in order {opening[keep:]}"
            if sorted(bells) != list(range(1, n + 1)):
                return f"row {i} is not a complete row of the {n}-bell tower"
        inits = [it for it in out["trace"] if it[1] == "r_init" and Fraction(it[0]) >= look2]
        if inits and inits[-1][2] != n:
            return f"the rhythm was initialised for {inits[-1][2]} bells, the tower has {n}"
        return None

    def oracle_C19(self, case, out):
        """a selection is applied exactly at the next Look to that can ring it (server-mode cases)"""
        return self.oracle_C17(case, out) if case["oracle"]["server"] and "trace" in out else None

    def oracle_C03(self, case, out):
        """covers: bells beyond the generator's rows keep the same last places in every row"""
        return self.oracle_C17(case, out) if "trace" in out else None

    def oracle_C01(self, case, out):
        return StartStopSuite.oracle_C01(self, {"oracle": {"n": case["oracle"]["final_n"]}}, {"trace": [it for it in out.get("trace", []) if Fraction(it[0]) >= Fraction(case["oracle"]["look2"])]}) if "trace" in out else None


# ============================================================================= C08: ownership
def ground_truth(events, name):
    """The server's own bookkeeping, independent of Wheatley: returns f(bell, time) -> is the bell
    Wheatley's responsibility, from the assignment / user messages delivered up to and including
    `time` (users are announced before they are assigned in the generated histories)."""
    timeline = []
    assigned, names, size = {}, {}, 0
    for t, e in sorted(((Fraction(t), e) for t, e in events), key=lambda x: x[0]):
        k = e[0]
        if k == "global":
            size = len(e[1])
        elif k == "size":
            if e[1] != size:
                size = e[1]
                assigned = {b: u for b, u in assigned.items() if b <= size}
        elif k == "user_entered":
            names[e[1]] = e[2]
        elif k == "userlist":
            for i, n in e[1]:
                names[i] = n
        elif k == "user_left":
            assigned = {b: u for b, u in assigned.items() if u != e[1]}
        elif k == "assign":
            if e[2]:
                assigned[e[1]] = e[2]
            else:
                assigned.pop(e[1], None)
        else:
            continue
        timeline.append((t, dict(assigned), dict(names)))

    def owned(bell, time):
        a, nm = {}, {}
        for (t, aa, nn) in timeline:
            if t <= time:
                a, nm = aa, nn
        u = a.get(bell)
        if u is None:
            return name is None
        return nm.get(u) == name
    return owned


def ownership_session(rng):
    n = rng.randint(4, 12)
    stage = rng.randint(max(2, n - 2), n)
    spec = rng.choice([{"kind": "plain_hunt", "stage": stage, "custom": None},
                       {"kind": "pn", "stage": stage, "method": "x1" if stage % 2 == 0 else "3.1", "bob": None,
                        "single": None, "start_index": 0, "custom": None}])
    name = rng.choice([None, None, "Wheatley", "Alice"])
    dur = Fraction(1, 8)
    look_to = Fraction(rng.randint(25, 40), 100) + Fraction(1, 1000)
    sch = Schedule(look_to, dur)
    nrows = rng.choice([4, 6, 8])
    users = [(11, "Alice"), (12, "Bob"), (13, "Wheatley"), (14, "Alice")]
    if name is not None and rng.random() < 0.4:
        # somebody else whose name differs from the configured one only in case or in blanks: not Wheatley's bells
        users[1] = (12, rng.choice([name.lower(), name.upper(), " " + name, name + " ", name.swapcase()]))
    evs = [ev(0, "global", [True] * n)]
    if rng.random() < 0.5:
        evs.append(ev(Fraction(3, 100), "userlist", [list(u) for u in users]))
    else:
        for i, u in enumerate(users):
            evs.append(ev(Fraction(3, 100) + Fraction(i, 1000), "user_entered", u[0], u[1]))
    for b in rng.sample(range(1, n + 1), rng.randint(0, n)):
        evs.append(ev(Fraction(10, 100) + Fraction(b, 10000), "assign", b, rng.choice([11, 12, 13, 14])))
    evs.append(ev(look_to, "call", "Look to"))
    nticks = nrows * n
    for _ in range(rng.randint(0, 10)):     # churn at arbitrary instants, also inside waits
        j = rng.randrange(nticks)
        t = sch.wait(j, Fraction(rng.randint(1, 96), 97)) if rng.random() < 0.7 else sch.pause(j, Fraction(rng.randint(3, 94), 97))
        r = rng.random()
        if r < 0.6:
            evs.append(ev(t, "assign", rng.randint(1, n), rng.choice([0, 0, 11, 12, 13, 14])))
        elif r < 0.75:
            evs.append(ev(t, "user_left", rng.choice([11, 12, 13, 14])))
        elif r < 0.85:
            evs.append(ev(t, "user_entered", rng.choice([11, 12, 15]), rng.choice(["Alice", "Bob", "Zed"])))
        else:
            evs.append(ev(t, "ring", rng.randint(1, n)))      # a human pulls a rope, maybe Wheatley's
    return {"gen": spec, "udi": True, "stop_at_rounds": False, "call_comps": True, "name": name, "instance": None,
            "rhythm": {"kind": "scripted", "durs": [fstr(dur)] * (nticks + 20)},
            "delta": fstr(rng.choice([0, 0, Fraction(1, 1000)])),
            "horizon": fstr(sch.end_of(nticks) + Fraction(1, 3000)), "events": sorted_events(evs)}


class OwnershipSuite(SystemSuite):
    name = "ownership"
    coq_cap = {"quick": 150}

    def scenarios(self, rng, tier):
        for _ in range(300 if tier == "quick" else 3000):
            yield ownership_session(rng)

    def oracle_C08(self, case, out):
        if "trace" not in out:
            return None
        owned = ground_truth(case["events"], case.get("name"))
        human_rings = [(Fraction(t), e[1]) for t, e in case["events"] if e[0] == "ring"]
        delta = Fraction(case.get("delta", 0))
        cur = None          # the tick in progress: (begin time, bell, row, place)
        struck_this_tick = 0
        per_row = {}
        for it in out["trace"]:
            t = Fraction(it[0])
            if it[1] == "r_wait":
                cur = (t, it[3], it[4], it[5])
                struck_this_tick = 0
            elif it[1] == "r_init":
                per_row = {}
            elif it[1] == "bell":
                bell, hand = it[2], it[3]
                if cur is None:
                    return f"strike of bell {bell} outside any tick"
                tb, b0, row, place = cur
                if bell != b0:
                    return f"row {row} place {place}: it was bell {b0}'s turn but bell {bell} was struck"
                if not owned(bell, tb):
                    return f"row {row}: struck bell {bell}, which was someone else's when its turn came"
                if hand != (row % 2 == 0):
                    return f"row {row}: bell {bell} struck at {'hand' if hand else 'back'}"
                struck_this_tick += 1
                if struck_this_tick > 1 or per_row.get((row, bell)):
                    return f"bell {bell} struck twice for row {row}"
                per_row[(row, bell)] = place
        # the server refuses a strike only if a human pulled that rope while Wheatley's view was stale
        for (t, bell, hand) in out.get("rejected", []):
            t = Fraction(t)
            if not any(b == bell and 0 <= t - tr <= delta for (tr, b) in human_rings):
                return f"the server rejected Wheatley's strike of bell {bell} at {float(t):.3f}s"
        # completeness: an owned bell whose rope nobody else touched is struck in every row
        touched = {b for (_t, b) in human_rings}
        waits = [(Fraction(it[0]), it[3], it[4], it[5]) for it in out["trace"] if it[1] == "r_wait"]
        stamps = {}
        for it in out["trace"]:
            if it[1] == "bell":
                stamps.setdefault(it[2], []).append(Fraction(it[0]))
        horizon = Fraction(case["horizon"])
        ever_foreign = set()     # a bell somebody else held at one of its turns may be out of step
        for (tb, bell, row, place) in waits[:-1]:
            if not owned(bell, tb):
                ever_foreign.add(bell)
            if bell in touched or bell in ever_foreign:
                continue
            if not any(tb <= ts for ts in stamps.get(bell, [])) and tb + Fraction(1, 4) < horizon:
                return f"row {row}: bell {bell} was Wheatley's and in step but was not struck"
        return None

    oracle_C01 = lambda self, case, out: None  # noqa: E731


# ============================================================================= C16: compositions
def comp_payload(rng):
    stage = rng.randint(4, 12)
    rounds = gens.BELL_NAMES[:stage]
    n0 = rng.choice([1, 1, 2, 2, 3])
    early_pool = ["", "", "Go Original", "Single", "Bob", "Go Erin; Single", "Stand", " Bob ;Stand", "Bob; Stand", " Stand"]
    rows = [[rounds, rng.choice(early_pool), 0] for _ in range(n0)]
    cur = list(rounds)
    nrows = rng.randint(1, 14)
    pool = ["", "", "", "Bob", "Single", "Go Plain Bob", "Bob; Single", "Stand", "Plain Bob;Stand", "s", "Bob; Stand", "Stand ; Single",
            "Stand "]
    for i in range(nrows):
        for k in range(i % 2, stage - 1, 2):
            cur[k], cur[k + 1] = cur[k + 1], cur[k]
        if "".join(cur) == rounds:
            cur[0], cur[1] = cur[1], cur[0]
        rows.append(["".join(cur), rng.choice(pool), rng.randint(0, 7)])
    if rng.random() < 0.6:
        rows.append([rounds, rng.choice(["That's all", "That's all", "", "That's all;Stand", "That's all; Stand"]), 0])
    return {"stage": stage, "title": "T", "rows": rows}


class CompositionSuite(SystemSuite):
    name = "compositions"
    coq_cap = {"quick": 200}

    def scenarios(self, rng, tier):
        for _ in range(300 if tier == "quick" else 3000):
            p = comp_payload(rng)
            stage = p["stage"]
            n = min(16, stage + rng.choice([0, 0, 1, 2]))
            udi = rng.random() < 0.3
            dur = Fraction(1, 8)
            look_to = Fraction(131, 1000)
            sch = Schedule(look_to, dur)
            nrows = len(p["rows"]) + 9
            evs = [ev(0, "global", [True] * n), ev(look_to, "call", "Look to")]
            humans = []
            if rng.random() < 0.4:
                # some bells (often the treble) are in human hands: the calls of a row are Wheatley's to make whoever
                # leads it.  (The scripted rhythm does not wait for anybody, so the humans need not ring.)
                humans = sorted(set(rng.sample(range(1, n + 1), rng.randint(1, max(1, n // 2))) + ([1] if rng.random() < 0.5 else [])))
                evs.append(ev(Fraction(3, 100), "user_entered", 11, "Alice"))
                for b in humans:
                    evs.append(ev(Fraction(5, 100) + Fraction(b, 10000), "assign", b, 11))

            def place_go(base_row):
                g = (rng.randint(0, 6), rng.randrange(n), rng.random() < 0.25)
                j = g[0] * n + g[1]
                jj = base_row * n + j
                t = sch.pause(jj, Fraction(rng.randint(20, 80), 101)) if g[2] else sch.wait(jj, Fraction(rng.randint(5, 95), 101))
                evs.append(ev(t, "call", "Go"))
                return ((j + 1) // n if g[2] else g[0], fstr(t))
            go = None if udi else place_go(0)
            # the SAME composition rung a second time: a fresh Look to in the pause after the last blow
            # of a whole pull of the first touch (anywhere: in its rounds, in the composition, after it)
            relook, go2, total = None, None, nrows
            if rng.random() < 0.4:
                r = 2 * rng.randint(1, max(1, (nrows - 1) // 2)) - 1
                if go is None or r > go[0]:
                    t2 = sch.pause(r * n + n - 1, Fraction(1, 2))
                    evs.append(ev(t2, "call", "Look to"))
                    relook = (r, fstr(t2))
                    go2 = None if udi else place_go(r + 1)
                    total = r + 1 + nrows
            yield {"gen": {"kind": "complib", "payload": p}, "udi": udi, "stop_at_rounds": False,
                   "call_comps": rng.random() < 0.8, "name": None, "instance": None,
                   "rhythm": {"kind": "scripted", "durs": [fstr(dur)] * (total * n + 8)},
                   "delta": fstr(rng.choice([0, Fraction(1, 1000)])),
                   "horizon": fstr(sch.end_of(total * n) + Fraction(1, 3000)), "events": sorted_events(evs),
                   "oracle": {"n": n, "go": go, "relook": relook, "go2": go2, "humans": humans}}

    def to_coq(self, case, out):
        c = {k: v for k, v in case.items() if k != "oracle"}
        return scenario_coq(c, out, self.fuel, self.tol, self.min_margin)

    def run_impl(self, case):
        c = {k: v for k, v in case.items() if k != "oracle"}
        return sim.run_scenario(c, gens.build_impl_generator)

    def oracle_C10(self, case, out):
        """a composition rung to its end and beyond - whether or not anybody says That's all - never kills the loop"""
        if "trace" in out and out["outcome"][0] == "crashed":
            return f"Wheatley's main loop was killed by {out['outcome'][2]} at {out['outcome'][3]} while ringing a composition"
        return None

    def oracle_C16(self, case, out):
        if "trace" not in out:
            return None
        n = case["oracle"]["n"]
        got = [(r, bells, t) for (r, bells, t) in rows_rung(out) if len(bells) == n]
        made = calls_made(out)
        st = strikes(out)
        relook = case["oracle"].get("relook")
        if relook is None:
            return self.one_touch(case, got, made, st, case["oracle"]["go"], "")
        t2 = Fraction(relook[1])
        msg = self.one_touch(case, [x for x in got if x[2] < t2], [x for x in made if x[0] < t2],
                             [x for x in st if x[0] < t2], case["oracle"]["go"], "first touch: ")
        if msg:
            return msg
        return self.one_touch(case, [x for x in got if x[2] > t2], [x for x in made if x[0] > t2],
                              [x for x in st if x[0] > t2], case["oracle"]["go2"],
                              f"second touch of the same composition (Look to again after row {relook[0]}): ")

    def oracle_C05(self, case, out):
        """the same composition rung again after a new Look to (also after it had been rung right through to its end
        and beyond): the second touch is the composition from its first row, like a fresh Wheatley's"""
        if case["oracle"].get("relook") is None:
            return None
        msg = self.oracle_C16(case, out)
        return msg if msg and msg.startswith("second touch") else None

    def one_touch(self, case, got, made, st, go, label):
        p = case["gen"]["payload"]
        n = case["oracle"]["n"]
        stage = p["stage"]
        rounds = list(range(1, n + 1))
        first = p["rows"][0][0]
        n0 = 0
        while p["rows"][n0][0] == first:
            n0 += 1
        sp_hand = n0 % 2 == 0

        def clean(s):
            return [c for c in (x.strip() for x in s.split(";")) if c != "Stand"] if s != "" else []
        comp = [([gens.BELL_NAMES.index(ch) + 1 for ch in r[0]] + rounds[stage:], clean(r[1])) for r in p["rows"][n0:]]
        early = {n0 - i: clean(p["rows"][i][1]) for i in range(n0) if clean(p["rows"][i][1])}
        # when does the composition start?
        if case["udi"]:
            m, g, rl = (2 if sp_hand else 3), None, None
        else:
            g = go[0]
            m = g + 1 if ((g + 1) % 2 == 0) == sp_hand else g + 2
            rl = m - g - 1          # rows of rounds still to come after the row of the Go
        for i, (r, bells, _t) in enumerate(got):
            if i < m:
                want = rounds
            elif i - m < len(comp):
                want = comp[i - m][0]
            else:
                want = rounds
            if bells != want:
                return label + f"row {i}: rang {bells}, the composition says {want} (first change at row {m})"
        # calls: text, order and position
        if not case["call_comps"]:
            return label + "calls were made although calling is switched off" if made else None
        if any(c == "Stand" for _t, c in made):
            return label + "Wheatley called 'Stand'"
        expected = []        # (row index or 'go', call)
        for j in sorted(early, reverse=True):
            row = m - j
            if case["udi"] or row > g:
                if row >= 0:
                    expected += [(row, c) for c in early[j]]
            else:
                expected += [("go", c) for c in early[j]]
        for k, (_bells, cs) in enumerate(comp):
            expected += [(m + k, c) for c in cs]
        DUR = Fraction(1, 8)        # the scripted rhythm: every blow takes this long
        horizon = Fraction(case["horizon"])
        n_started = len(got)
        if got and got[-1][2] + DUR > horizon:
            n_started -= 1          # the last row was begun but its first blow is not over yet
        expected = [(w, c) for (w, c) in expected if (w == "go" and g < len(got)) or (w != "go" and w < n_started)]
        if [c for _w, c in expected] != [c for _t, c in made]:
            return label + f"calls made {[c for _t, c in made]} but the composition says {[c for _w, c in expected]}"
        lead_times = {i: t for i, (_r, _b, t) in enumerate(got)}
        for (where, c), (t, _c) in zip(expected, made):
            if where == "go":
                if t != Fraction(go[1]):
                    return label + f"missed call {c!r} was not made at once when Go came late"
            else:
                # at the lead of that row: the instant at which the row's first blow is due, whoever rings that bell
                if t != lead_times[where] + DUR:
                    return label + f"call {c!r} of row {where} was not made as that row's first bell struck"
        return None

    def oracle_C01(self, case, out):
        return StartStopSuite.oracle_C01(self, case, out)


class QueuedStartSuite(CompositionSuite):
    """Server mode: a composition is selected between two touches and starts on the OTHER stroke than what was
    rung before (handstroke-start method, then a composition with 1 or 3 opening rounds; or the reverse).
    The up-down-in count of opening rows belongs to the generator that is about to be rung."""
    name = "queued_start"
    coq_cap = {"quick": 60}

    def scenarios(self, rng, tier):
        for _ in range(60 if tier == "quick" else 600):
            p = comp_payload(rng)
            stage = p["stage"]
            n = min(16, stage + rng.choice([0, 0, 1]))
            dur = Fraction(1, 8)
            look_to = Fraction(131, 1000)
            sch = Schedule(look_to, dur)
            evs = [ev(0, "global", [True] * n), ev(Fraction(11, 1000), "user_entered", 1, "Wheatley")]
            for b in range(1, n + 1):
                evs.append(ev(Fraction(12, 1000) + Fraction(b, 100000), "assign", b, 1))
            first = rng.choice(["method", "comp"])
            p1 = comp_payload(rng)
            p1["stage"] = stage
            if first == "method" or len(p1["rows"][0][0]) != stage:
                first = "method"
                evs.append(ev(Fraction(8, 100), "row_gen", {"type": "method", "stage": stage, "notation": "x1"}))
            else:
                evs.append(ev(Fraction(8, 100), "row_gen", {"type": "composition", "url": "7001"}, p1))
            evs.append(ev(look_to, "call", "Look to"))
            evs.append(ev(sch.wait(2 * n + 1, Fraction(1, 3)), "call", "Stand next"))
            t_end = sch.end_of(4 * n)
            evs.append(ev(t_end + Fraction(3, 10) + Fraction(1, 977), "row_gen", {"type": "composition", "url": "7002"}, p))
            look2 = t_end + Fraction(1, 2) + Fraction(1, 991)
            evs.append(ev(look2, "call", "Look to"))
            nrows = len(p["rows"]) + 7
            horizon = look2 + (nrows * n) * (dur + Fraction(1, 100)) + Fraction(1, 3000)
            sc = {"gen": {"kind": "placeholder"}, "udi": True, "stop_at_rounds": False, "call_comps": True,
                  "name": "Wheatley", "instance": 5,
                  "rhythm": {"kind": "scripted", "durs": [fstr(dur)] * ((nrows + 6) * n + 8)},
                  "delta": fstr(rng.choice([0, Fraction(1, 1000)])), "horizon": fstr(horizon), "events": sorted_events(evs)}
            yield {"scenario": sc, "gen": {"kind": "complib", "payload": p}, "udi": True, "call_comps": True,
                   "horizon": fstr(horizon), "oracle": {"n": n, "look2": fstr(look2), "first": first, "humans": []}}

    def to_coq(self, case, out):
        return scenario_coq(case["scenario"], out, self.fuel, self.tol, self.min_margin)

    def run_impl(self, case):
        return sim.run_scenario(case["scenario"], gens.build_impl_generator)

    def oracle_C06(self, case, out):
        if "trace" not in out:
            return None
        if out["outcome"][0] == "crashed":
            return f"main loop died: {out['outcome'][1:3]} (composition selected between two touches, up-down-in)"
        n = case["oracle"]["n"]
        t2 = Fraction(case["oracle"]["look2"])
        got = [(r, bells, t) for (r, bells, t) in rows_rung(out) if len(bells) == n and t > t2]
        made = [x for x in calls_made(out) if x[0] > t2]
        st = [x for x in strikes(out) if x[0] > t2]
        if not got:
            return "the composition selected before the second Look to was not rung at all"
        return self.one_touch(case, got, made, st, None, "second touch (composition selected after a "
                              + case["oracle"]["first"] + "): ")

    oracle_C16 = oracle_C06
    oracle_C19 = oracle_C06

    def oracle_C01(self, case, out):
        return None


# ============================================================================= C09: never ahead of a human
def wait_session(rng, tier):
    n = rng.choice([4, 5, 6, 6, 8])
    spec = {"kind": "plain_hunt", "stage": n - rng.choice([0, 0, 1]), "custom": None}
    nrows = rng.choice([4, 6, 8])
    rows = probe_rows(spec, n, nrows)
    humans = set(rng.sample(range(1, n + 1), rng.randint(1, n - 1)))
    peal = rng.choice([150, 180, 200])
    gap = 1.0
    look_to = Fraction(rng.randint(15, 40), 100) + Fraction(1, 1000)
    iv = blow_interval(peal, n)
    start = look_to + 3
    evs = [ev(0, "global", [True] * n), ev(Fraction(3, 100), "user_entered", 11, "Alice")]
    for b in sorted(humans):
        evs.append(ev(Fraction(5, 100) + Fraction(b, 10000), "assign", b, 11))
    evs.append(ev(look_to, "call", "Look to"))
    shift = Fraction(0)          # humans follow the band: later blows move with earlier hold-ups (roughly)
    skipped = False
    long_done = False
    stand_called = False
    for r, row in enumerate(rows):
        for p, bell in enumerate(row):
            if bell not in humans:
                continue
            blow = r * n + p + (r // 2) * Fraction(gap)
            t = start + shift + iv * blow
            k = rng.random()
            if k < 0.55:
                t += iv * Fraction(rng.randint(-20, 20), 100)                  # roughly on time
            elif k < 0.75:
                late = Fraction(rng.choice([3, 13, 250, 900, 2500]), 1000)     # late by ms .. seconds
                if late > 2 and not stand_called and rng.random() < 0.5:
                    # somebody calls Stand next while Wheatley is being held up: it takes effect at the next handstroke,
                    # until then nobody may be overtaken
                    evs.append(ev(t + late / 2, "call", "Stand next"))
                    stand_called = True
                if not long_done and rng.random() < 0.04:
                    late = Fraction(rng.choice([330, 400]))                     # ... or by minutes (once per session)
                    long_done = True
                t += late
                shift += late
            elif k < 0.85:
                skipped = True        # (early / ahead / doubled blows may legitimately leave Wheatley waiting at the end)
                t -= iv * Fraction(rng.randint(50, 250), 100)                  # early within / before the row
            elif k < 0.92:
                skipped = True
                t -= iv * n                                                    # a whole row ahead
            elif k < 0.97:
                skipped = True
                evs.append(ev(t + iv / 5 + Fraction(rng.randint(1, 99), 10 ** 6), "ring", bell))   # doubled
            else:
                skipped = True
                continue                                                       # never rings: Wheatley must wait
            t = max(t, look_to + Fraction(1, 50))
            evs.append(ev(t + Fraction(rng.randint(1, 999), 10 ** 7), "ring", bell))
    horizon = start + shift + iv * (nrows * n + nrows // 2) + Fraction(1, 3000)
    rh = {"kind": "wait", "inertia": rng.choice([0.5, 1.0, 0.0]), "peal_speed": peal, "gap": gap, "max": 15,
          "initial_inertia": 0}
    sc = {"gen": spec, "udi": True, "stop_at_rounds": False, "call_comps": True, "name": None, "instance": None,
          "rhythm": rh, "delta": fstr(rng.choice([0, Fraction(1, 1000)])), "horizon": fstr(horizon),
          "events": sorted_events(evs), "oracle": {"humans": sorted(humans), "n": n, "nrows": nrows,
                                                   "all_rung": not skipped and not stand_called}}
    if long_done:
        sc["oracle_only"] = True       # tens of thousands of polls: judged on the implementation's trace only
    return sc


def wait_session_two(rng):
    """Two touches in waiting mode.  After the first has stood a human pulls one more (stray) blow, the bells are set
    at hand again, and in the second touch that same human is seconds late at the opening handstroke."""
    n = rng.choice([5, 6, 8])
    spec = {"kind": "plain_hunt", "stage": n, "custom": None}
    humans = set(rng.sample(range(2, n + 1), rng.randint(1, n - 2)))
    peal = rng.choice([150, 180])
    iv = blow_interval(peal, n)
    look1 = Fraction(211, 1000)
    evs = [ev(0, "global", [True] * n), ev(Fraction(3, 100), "user_entered", 11, "Alice")]
    for b in sorted(humans):
        evs.append(ev(Fraction(5, 100) + Fraction(b, 10000), "assign", b, 11))
    evs.append(ev(look1, "call", "Look to"))
    rows = probe_rows(spec, n, 4)
    for r, row in enumerate(rows):
        for p, bell in enumerate(row):
            if bell in humans:
                evs.append(ev(look1 + 3 + iv * (r * n + p + r // 2) - Fraction(5, 1000) + Fraction(rng.randint(1, 999), 10 ** 7), "ring", bell))
    evs.append(ev(look1 + 3 + iv * (2 * n + 2), "call", "Stand next"))
    t_end = look1 + 3 + iv * (4 * n + 2)
    stray = rng.choice(sorted(humans))
    strays = [stray] if rng.random() < 0.7 else sorted(humans)
    for k, b in enumerate(strays):
        evs.append(ev(t_end + Fraction(1, 2) + Fraction(k, 50), "ring", b))
    evs.append(ev(t_end + 1, "global", [True] * n))
    look2 = t_end + Fraction(3, 2) + Fraction(1, 1000)
    evs.append(ev(look2, "call", "Look to"))
    late = Fraction(rng.choice([700, 2500, 6000]), 1000)
    shift = Fraction(0)
    for r, row in enumerate(probe_rows(spec, n, 3)):
        for p, bell in enumerate(row):
            if bell in humans:
                t = look2 + 3 + shift + iv * (r * n + p + r // 2) - Fraction(5, 1000)
                if r == 0 and bell == stray:
                    t += late
                    shift += late
                evs.append(ev(t + Fraction(rng.randint(1, 999), 10 ** 7), "ring", bell))
    horizon = look2 + 3 + shift + iv * (3 * n + 1) + Fraction(1, 3000)
    rh = {"kind": "wait", "inertia": 1.0, "peal_speed": peal, "gap": 1.0, "max": 15, "initial_inertia": 1.0}
    return {"gen": spec, "udi": True, "stop_at_rounds": False, "call_comps": True, "name": None, "instance": None,
            "rhythm": rh, "delta": fstr(rng.choice([0, Fraction(1, 1000)])), "horizon": fstr(horizon),
            "events": sorted_events(evs), "oracle": {"humans": sorted(humans), "n": n, "look2": fstr(look2)}}


def wait_session_long_hold(rng):
    """A punctual band on many bells; once, somebody is late by several seconds - dozens of places on the line Wheatley is
    ringing to - and then everybody carries on in step.  Every blow is rung: the touch is completed."""
    n = rng.choice([8, 10, 12])
    spec = {"kind": "plain_hunt", "stage": n, "custom": None}
    nrows = 6
    rows = probe_rows(spec, n, nrows)
    humans = set(rng.sample(range(2, n + 1), rng.randint(1, 3)))
    peal = rng.choice([150, 180])
    iv = blow_interval(peal, n)
    look_to = Fraction(rng.randint(15, 40), 100) + Fraction(1, 1000)
    start = look_to + 3
    evs = [ev(0, "global", [True] * n), ev(Fraction(3, 100), "user_entered", 11, "Alice")]
    for b in sorted(humans):
        evs.append(ev(Fraction(5, 100) + Fraction(b, 10000), "assign", b, 11))
    evs.append(ev(look_to, "call", "Look to"))
    r_late = rng.randint(1, 3)
    b_late = rng.choice(sorted(humans))
    late = Fraction(rng.choice([7, 9, 12]))
    shift = Fraction(0)
    for r, row in enumerate(rows):
        for p, bell in enumerate(row):
            if bell not in humans:
                continue
            t = start + shift + iv * (r * n + p + (r // 2)) - Fraction(5, 1000)
            if r == r_late and bell == b_late:
                t += late
                shift += late
            evs.append(ev(t + Fraction(rng.randint(1, 999), 10 ** 7), "ring", bell))
    horizon = start + shift + iv * (nrows * n + nrows // 2) + Fraction(1, 2) + Fraction(1, 3000)
    rh = {"kind": "wait", "inertia": rng.choice([0.5, 0.0]), "peal_speed": peal, "gap": 1.0, "max": 15, "initial_inertia": 0}
    return {"gen": spec, "udi": True, "stop_at_rounds": False, "call_comps": True, "name": None, "instance": None,
            "rhythm": rh, "delta": fstr(rng.choice([0, Fraction(1, 1000)])), "horizon": fstr(horizon),
            "events": sorted_events(evs), "oracle": {"humans": sorted(humans), "n": n, "nrows": nrows, "all_rung": True}}


def wait_session_up_wrong(rng):
    """A human's bell has been left at BACKSTROKE when Look to is called (a stray blow after the last touch, nobody set
    the bells at hand).  The human pulls twice for the opening handstroke - the first pull only brings the bell back to
    hand - and then rings in step but late, so that Wheatley has to hold up for every one of that bell's blows."""
    n = rng.choice([4, 5, 6, 8])
    spec = {"kind": "plain_hunt", "stage": n, "custom": None}
    nrows = rng.choice([5, 6, 8])
    rows = probe_rows(spec, n, nrows)
    h = rng.randint(2, n)
    others = set(rng.sample([b for b in range(2, n + 1) if b != h], rng.randint(0, max(0, n - 3))))
    humans = {h} | others
    peal = rng.choice([150, 180])
    iv = blow_interval(peal, n)
    look_to = Fraction(rng.randint(15, 40), 100) + Fraction(1, 1000)
    start = look_to + 3
    state = [True] * n
    state[h - 1] = False
    evs = [ev(0, "global", state), ev(Fraction(3, 100), "user_entered", 11, "Alice")]
    for b in sorted(humans):
        evs.append(ev(Fraction(5, 100) + Fraction(b, 10000), "assign", b, 11))
    evs.append(ev(look_to, "call", "Look to"))
    shift = Fraction(0)
    for r, row in enumerate(rows):
        for p, bell in enumerate(row):
            if bell not in humans:
                continue
            t = start + shift + iv * (r * n + p + (r // 2))
            if bell == h:
                if r == 0:
                    evs.append(ev(t - Fraction(rng.randint(200, 400), 1000), "ring", bell))    # the pull that sets the bell
                late = Fraction(rng.choice([300, 700, 1500]), 1000) + Fraction(rng.randint(1, 99), 10 ** 5)
                t += late
                shift += late
            else:
                t -= Fraction(5, 1000)
            evs.append(ev(t + Fraction(rng.randint(1, 999), 10 ** 7), "ring", bell))
    horizon = start + shift + iv * (nrows * n + nrows // 2) + Fraction(1, 3000)
    rh = {"kind": "wait", "inertia": 1.0, "peal_speed": peal, "gap": 1.0, "max": 15, "initial_inertia": 1.0}
    return {"gen": spec, "udi": True, "stop_at_rounds": False, "call_comps": True, "name": None, "instance": None,
            "rhythm": rh, "delta": fstr(rng.choice([0, Fraction(1, 1000)])), "horizon": fstr(horizon),
            "events": sorted_events(evs), "oracle": {"humans": sorted(humans), "n": n, "extra": {str(h): 1}}}


class WaitSuite(SystemSuite):
    name = "wait_for_humans"
    fuel = 80000
    coq_cap = {"quick": 60, "thorough": 600}

    def scenarios(self, rng, tier):
        for _ in range(200 if tier == "quick" else 2000):
            yield wait_session(rng, tier)
        for _ in range(30 if tier == "quick" else 300):
            yield wait_session_two(rng)
        for _ in range(24 if tier == "quick" else 240):
            yield wait_session_up_wrong(rng)
        for _ in range(12 if tier == "quick" else 120):
            yield wait_session_long_hold(rng)

    def to_coq(self, case, out):
        c = {k: v for k, v in case.items() if k not in ("oracle", "oracle_only")}
        return scenario_coq(c, out, self.fuel, self.tol, self.min_margin)

    def run_impl(self, case):
        c = {k: v for k, v in case.items() if k not in ("oracle", "oracle_only")}
        return sim.run_scenario(c, gens.build_impl_generator)

    def oracle_C09(self, case, out):
        if "trace" not in out:
            return None
        humans = set(case["oracle"]["humans"])
        all_rings = sorted((Fraction(t), e[1]) for t, e in case["events"] if e[0] == "ring")
        look2 = Fraction(case["oracle"]["look2"]) if case["oracle"].get("look2") else None
        for (lo, hi) in ([(Fraction(-1), look2), (look2, Fraction(10 ** 12))] if look2 is not None else [(Fraction(-1), Fraction(10 ** 12))]):
            msg = self._never_ahead(out, humans, [(t, b) for (t, b) in all_rings if lo <= t < hi], lo, hi,
                                    {int(k): v for k, v in case["oracle"].get("extra", {}).items()})
            if msg:
                return ("second touch: " if look2 is not None and lo == look2 else "") + msg
        return None

    @staticmethod
    def _never_ahead(out, humans, rings, lo, hi, extra=None):
        """strike counts within one touch (its rows are numbered from 0 and only blows struck in it count); `extra`: pulls
        of a bell that only brought it back to handstroke and are no blow of any row"""
        for h, k in (extra or {}).items():          # (the first k pulls of h are not blows)
            idx = [i for i, (_t, b) in enumerate(rings) if b == h][:k]
            rings = [x for i, x in enumerate(rings) if i not in idx]
        place_of = {}
        for it in out["trace"]:
            if it[1] == "r_wait" and lo <= Fraction(it[0]) < hi:
                place_of[(it[4], it[3])] = it[5]          # (row, bell) -> place
        cur = None
        for it in out["trace"]:
            if not lo <= Fraction(it[0]) < hi:
                continue
            if it[1] == "r_wait":
                cur = (it[4], it[5])
            elif it[1] == "bell" and cur is not None:
                t = Fraction(it[0])
                row, place = cur
                for h in humans:
                    cnt = sum(1 for (tr, b) in rings if b == h and tr <= t)
                    need = row + 1 if place_of.get((row, h), 10 ** 6) < place else row
                    if cnt < need:
                        return (f"Wheatley struck bell {it[2]} at place {place} of row {row} ({float(t):.3f}s) but human bell "
                                f"{h} had rung only {cnt} time(s), {need} needed")
        return None

    def oracle_C10(self, case, out):
        if "trace" in out and out["outcome"][0] == "crashed":
            return f"main loop died: {out['outcome'][1:3]}"
        orc = case["oracle"]
        if "trace" in out and orc.get("all_rung"):
            # every human rang every blow (however late): by the end of the session Wheatley has completed the rows
            n = orc["n"]
            done = [b for (_r, b, _t) in rows_rung(out) if len(b) == n]
            if len(done) < orc["nrows"] - 1:
                return (f"every human rang every one of their blows, yet only {len(done)} of {orc['nrows']} rows were completed "
                        f"by the end of the session: Wheatley is waiting for a blow that has been struck")
        return None


# ============================================================================= C01/C17: resized DURING a touch
class ResizeSuite(SystemSuite):
    """The tower is resized while a touch is being rung - never below the stage - and the touch goes on: method rows,
    That's all, closing rounds.  Every row BEGUN after the change has one place for each bell of the new tower, the
    bells beyond the stage covering in order."""
    name = "resize_mid_touch"
    coq_cap = {"quick": 60, "thorough": 400}

    def scenarios(self, rng, tier):
        for _ in range(90 if tier == "quick" else 900):
            stage = rng.randint(3, 10)
            n0 = min(16, stage + rng.choice([0, 0, 1, 2]))
            n1 = min(16, max(stage, n0 + rng.choice([-2, -1, 1, 2, 3])))
            if n1 == n0:
                n1 = n0 + 1
            spec = {"kind": "plain_hunt", "stage": stage, "custom": None}
            dur = Fraction(1, 8)
            look_to = Fraction(rng.randint(12, 40), 100) + Fraction(1, 1000)
            sch = Schedule(look_to, dur)
            udi = rng.random() < 0.6
            evs = [ev(0, "global", [True] * n0), ev(look_to, "call", "Look to")]
            if not udi:
                evs.append(ev(sch.wait(rng.randrange(n0), Fraction(1, 3)), "call", "Go"))
            j_size = rng.randint(1, 5) * n0 + rng.randrange(n0)
            t_size = sch.wait(j_size, Fraction(rng.randint(1, 96), 97)) if rng.random() < 0.7 else sch.pause(j_size, Fraction(rng.randint(3, 94), 97))
            evs.append(ev(t_size, "size", n1))
            closing = rng.choice(["thats_all", "thats_all", "none", "rounds"])
            j_call = j_size + rng.randint(1, 3 * n1)
            if closing == "thats_all":
                evs.append(ev(sch.wait(j_call, Fraction(1, 3)), "call", "That's all"))
            elif closing == "rounds":
                evs.append(ev(sch.wait(j_call, Fraction(1, 3)), "call", "Rounds"))
            horizon = sch.end_of(j_call + 5 * n1) + Fraction(1, 3000)
            yield {"gen": spec, "udi": udi, "stop_at_rounds": False, "call_comps": True, "name": None, "instance": None,
                   "rhythm": {"kind": "scripted", "durs": [fstr(dur)] * 600}, "delta": "0", "horizon": fstr(horizon),
                   "events": sorted_events(evs),
                   "oracle": {"n0": n0, "n1": n1, "stage": stage, "t_size": fstr(t_size), "closing": closing}}

    def _rows(self, case, out):
        """(row number, bells, size of the tower) for every row GENERATED after the change and for every row finished before
        it.  A row is generated when the last bell of the row before it has been dealt with - before the pause that follows
        - so it counts as generated after the change only if the change arrived before the wait for that last bell began;
        the row in progress, or already generated, at the change is left out."""
        if "trace" not in out:
            return
        o = case["oracle"]
        ts = Fraction(o["t_size"])
        rows = []            # [row number, bells, time of its first wait, time of its last wait]
        last_place = None
        for it in out["trace"]:
            if it[1] == "r_wait":
                bell, row, place = it[3], it[4], it[5]
                if place == 0 or not rows or rows[-1][0] != row or last_place is None or place <= last_place:
                    rows.append([row, [], Fraction(it[0]), None])
                rows[-1][1].append(bell)
                rows[-1][3] = Fraction(it[0])
                last_place = place
        for i, (r, bells, t0, _tl) in enumerate(rows[:-1]):       # (the last row is cut by the horizon)
            if i >= 1 and ts < rows[i - 1][3]:
                yield r, bells, o["n1"]
            elif rows[i + 1][2] <= ts:
                yield r, bells, o["n0"]

    def oracle_C01(self, case, out):
        for r, bells, n in self._rows(case, out):
            if sorted(bells) != list(range(1, n + 1)):
                o = case["oracle"]
                return (f"tower resized from {o['n0']} to {o['n1']} during the touch: row {r} = {bells} is not a complete row "
                        f"of the {n} bells of the tower it was begun on")
        return None

    def oracle_C17(self, case, out):
        st = case["oracle"]["stage"]
        for r, bells, n in self._rows(case, out):
            if len(bells) == n and bells[st:] != list(range(st + 1, n + 1)):
                return f"row {r} = {bells}: the bells beyond the stage ({st}) do not cover in order on the tower of {n}"
        return None

    def oracle_C10(self, case, out):
        if "trace" in out and out["outcome"][0] == "crashed":
            return f"Wheatley's main loop was killed by {out['outcome'][2]} at {out['outcome'][3]}"
        return None


# ============================================================================= C19: server mode
def moved_bells(rows):
    """how many bells (counted from the front) ever change place in these rows: the stage being rung"""
    top = 0
    for a, b in zip(rows, rows[1:]):
        for i, (x, y) in enumerate(zip(a, b)):
            if x != y:
                top = max(top, i + 1)
    return top


class ServerSuite(SystemSuite):
    """Wheatley as Ringing Room runs it: place-holder generator, selections and settings over the
    socket, stop-touch, roll call, the 300 s inactivity exit."""
    name = "server_mode"
    fuel = 90000
    coq_cap = {"quick": 60, "thorough": 500}

    def session(self, rng):
        n = rng.choice([6, 8, 8, 10])
        dur = Fraction(1, 8)
        evs = [ev(0, "global", [True] * n), ev(Fraction(11, 1000), "user_entered", 1, "Wheatley")]
        for b in range(1, n + 1):
            evs.append(ev(Fraction(12, 1000) + Fraction(b, 100000), "assign", b, 1))
        t = Fraction(101, 1000)
        plan = []          # what the oracle needs: per touch, the selection history before its Look to
        selections = []    # (time, stage, fits)
        mode = rng.choice(["selection", "selection", "stop", "idle", "malformed"])
        stages = [s for s in (4, 6, 8, 10, 12) ]
        touches = rng.randint(1, 3)
        queued = None
        for k in range(touches):
            # selections before this touch (the last one counts); sometimes a malformed one in between
            for _ in range(rng.randint(0 if k else 1, 2)):
                s = rng.choice(stages)
                evs.append(ev(t, "row_gen", {"type": "method", "stage": s, "notation": "x1"}))
                selections.append((t, s))
                t += Fraction(3, 100)
                if mode == "malformed" and rng.random() < 0.7:
                    bad = rng.choice([{}, {"type": "nothing"}, {"type": "method", "notation": "x1"},
                                      {"type": "method", "stage": "six", "notation": "x1"},
                                      {"type": "method", "stage": 6}, {"type": "method", "stage": 6, "notation": "x1", "bob": 5},
                                      {"type": "method", "stage": 6, "notation": "x1", "bob": {"a": "14"}},
                                      {"type": "method", "stage": 6, "notation": "xz"}, {"type": "composition"},
                                      {"type": "method", "stage": None, "notation": "x1"}])
                    evs.append(ev(t, "row_gen", bad))
                    t += Fraction(3, 100)
            look = t + Fraction(1, 1000)
            evs.append(ev(look, "call", "Look to"))
            sch = Schedule(look, dur)
            nrows = rng.choice([4, 6])
            touch = {"look": fstr(look), "n": n}
            if mode == "selection" and rng.random() < 0.7:     # a selection in the middle of the touch
                s = rng.choice(stages)
                tm = sch.wait(rng.randrange(n, (nrows - 1) * n), Fraction(rng.randint(5, 90), 97))
                evs.append(ev(tm, "row_gen", {"type": "method", "stage": s, "notation": "x1"}))
                selections.append((tm, s))
            if mode == "stop":
                j = rng.randrange(2 * n, (nrows - 1) * n)
                in_wait = rng.random() < 0.7
                if rng.random() < 0.4:
                    # ... while the LAST bell of a row is still due: the strike that goes out ends the row, and the turnover
                    # into the next row (a handstroke or a backstroke) must not start the ringing again
                    r_stop = rng.choice([r for r in range(1, nrows - 1) if r % 2 == 1] * 2 + list(range(2, nrows - 1)))
                    j = r_stop * n + n - 1
                    in_wait = True
                ts = sch.wait(j, Fraction(rng.randint(5, 90), 97)) if in_wait else sch.pause(j, Fraction(rng.randint(20, 80), 97))
                evs.append(ev(ts, "stop_touch"))
                touch["stop"] = fstr(ts)
                t = ts + Fraction(1, 2)
            else:
                # stop-at-rounds is on in server mode: x1 on s bells comes round after 2s rows; ask to stand anyway
                evs.append(ev(sch.wait((nrows - 2) * n + 1, Fraction(1, 3)), "call", "Stand next"))
                t = sch.end_of(nrows * n) + Fraction(1, 2)
            if rng.random() < 0.3:
                key, val = rng.choice([("use_up_down_in", rng.choice([True, "false", "maybe", 1])),
                                       ("stop_at_rounds", rng.choice(["True", False, None])),
                                       ("call_composition", rng.choice(["true", 0])),
                                       ("inertia", rng.choice([0.5, "1", "abc", 2, -1])),
                                       ("sensitivity", 0.3), ("volume", 11)])
                evs.append(ev(t - Fraction(1, 10), "setting", [[key, val]]))
            plan.append(touch)
        idle = None
        if mode == "idle":
            idle = rng.choice([Fraction(29990, 100), Fraction(30040, 100), Fraction(31000, 100)])
            if rng.random() < 0.5:        # something happens just before / after the deadline
                evs.append(ev(t + rng.choice([Fraction(29950, 100), Fraction(30030, 100)]), "call", "Bob"))
            horizon = t + idle
        else:
            horizon = t + Fraction(1, 2)
        # keep every event off the 10 ms polling grid of the idle loop
        evs = [[fstr(Fraction(tt) + (Fraction(rng.randint(1, 999), 10 ** 6) if e[0] not in ("global",) else 0)), e]
               for tt, e in evs]
        for tc in plan:
            for kk in ("look", "stop"):
                if kk in tc:
                    match = [tt for tt, e in evs if abs(Fraction(tt) - Fraction(tc[kk])) < Fraction(1, 1000)
                             and e[0] in ("call", "stop_touch") and (e[0] == "stop_touch") == (kk == "stop")]
                    tc[kk] = match[0]
        selections = [(Fraction(tt), e[1]["stage"]) for tt, e in evs
                      if e[0] == "row_gen" and e[1].get("type") == "method" and isinstance(e[1].get("stage"), int)
                      and e[1].get("notation") == "x1" and set(e[1]) == {"type", "stage", "notation"}]
        sc = {"gen": {"kind": "placeholder"}, "udi": True, "stop_at_rounds": True, "call_comps": True,
              "name": "Wheatley", "instance": rng.randint(1, 99),
              "rhythm": {"kind": "scripted", "durs": [fstr(dur)] * 600}, "delta": fstr(rng.choice([0, Fraction(1, 1000)])),
              "horizon": fstr(horizon + Fraction(1, 3000)), "events": sorted_events(evs),
              "oracle": {"n": n, "touches": plan, "selections": [[fstr(a), b] for a, b in selections], "mode": mode,
                         "idle_from": fstr(t)}}
        if mode == "idle":
            # 30 000 idle polls: whether poll 30 000 or 30 001 crosses `last + 300` is decided by double rounding
            # (a knife edge the model would skip anyway), so these sessions are judged by the oracle only
            sc["oracle_only"] = True
        return sc

    def long_touch(self, rng):
        """One touch that lasts longer than the 300 s inactivity limit (stop-at-rounds switched off, Stand next near the
        end), then idleness: the 300 s are counted from the END of the ringing."""
        n = 4
        dur = Fraction(1, 8)
        evs = [ev(0, "global", [True] * n), ev(Fraction(11, 1000), "user_entered", 1, "Wheatley")]
        for b in range(1, n + 1):
            evs.append(ev(Fraction(12, 1000) + Fraction(b, 100000), "assign", b, 1))
        evs.append(ev(Fraction(81, 1000), "row_gen", {"type": "method", "stage": 4, "notation": "x1"}))
        evs.append(ev(Fraction(91, 1000), "setting", [["stop_at_rounds", False]]))
        look = Fraction(1211, 10000)
        evs.append(ev(look, "call", "Look to"))
        sch = Schedule(look, dur)
        nrows = rng.choice([570, 600])
        evs.append(ev(sch.wait((nrows - 2) * n + 1, Fraction(1, 3)), "call", "Stand next"))
        t = sch.end_of(nrows * n)
        idle = rng.choice([Fraction(29990, 100), Fraction(30040, 100)])
        horizon = t + idle
        evs = [[fstr(Fraction(tt) + (Fraction(rng.randint(1, 999), 10 ** 6) if e[0] not in ("global",) else 0)), e] for tt, e in evs]
        lk = [tt for tt, e in evs if e[0] == "call" and e[1] == "Look to"][0]
        return {"gen": {"kind": "placeholder"}, "udi": True, "stop_at_rounds": True, "call_comps": True,
                "name": "Wheatley", "instance": rng.randint(1, 99),
                "rhythm": {"kind": "scripted", "durs": [fstr(dur)] * (nrows * n + 50)}, "delta": "0",
                "horizon": fstr(horizon + Fraction(1, 3000)), "events": sorted_events(evs), "oracle_only": True,
                "oracle": {"n": n, "touches": [{"look": lk, "n": n}], "selections": [[evs[5][0], 4]], "mode": "idle",
                           "idle_from": fstr(t), "long": True}}

    def __init__(self, light=False):
        self.light = light
        if light:
            self.name = "server_mode_light"

    def scenarios(self, rng, tier):
        for _ in range((30 if self.light else 200) if tier == "quick" else (300 if self.light else 2000)):
            yield self.session(rng)
        for _ in range(2 if tier == "quick" else 10):
            yield self.long_touch(rng)

    def oracle_C10(self, case, out):
        """the main loop ends only by the inactivity exit - 300 s after ringing STOPPED - never by an exception"""
        if "trace" not in out:
            return None
        if out["outcome"][0] == "crashed":
            return f"Wheatley's main loop was killed by {out['outcome'][2]} at {out['outcome'][3]}"
        if out["outcome"][0] == "exited":
            end = Fraction(out["end"])
            idle_from = max([Fraction(it[0]) for it in out["trace"] if it[1] == "is_ringing" and it[2] is False] or [D01])
            if end <= idle_from + 300:
                return (f"Wheatley's main loop returned {float(end - idle_from):.2f}s after ringing stopped "
                        f"(the touch had lasted longer than the inactivity limit)" if case["oracle"].get("long") else
                        f"Wheatley's main loop returned after only {float(end - idle_from):.2f}s of inactivity")
        return None

    def to_coq(self, case, out):
        c = {k: v for k, v in case.items() if k not in ("oracle", "oracle_only")}
        return scenario_coq(c, out, self.fuel, self.tol, self.min_margin)

    def run_impl(self, case):
        c = {k: v for k, v in case.items() if k not in ("oracle", "oracle_only")}
        return sim.run_scenario(c, gens.build_impl_generator)

    def oracle_C01(self, case, out):
        """whatever is selected between the touches: every row Wheatley rings or waits for has one place for each bell
        of the tower"""
        if "trace" not in out:
            return None
        n = case["oracle"]["n"]
        rows = rows_rung(out)
        for i, (r, bells, t) in enumerate(rows):
            cut_short = i == len(rows) - 1 or rows[i + 1][0] == 0        # session over / Stop touch: a row may be left unfinished
            if cut_short and len(bells) < n:
                if len(set(bells)) != len(bells) or not all(1 <= b <= n for b in bells):
                    return f"row {r} begun at {float(t):.3f}s = {bells} (cut short) repeats a bell or names one the tower has not got"
                continue
            if sorted(bells) != list(range(1, n + 1)):
                return f"row {r} begun at {float(t):.3f}s = {bells} is not a complete row of the {n} bells of the tower"
        return None

    def oracle_C02(self, case, out):
        """method definitions delivered as server JSON: once the touch has started, its rows are those the notation of the
        definition in force ("x1" on its stage) gives from rounds, covers behind"""
        if "trace" not in out:
            return None
        orc = case["oracle"]
        n = orc["n"]
        sel = [(Fraction(t), s) for t, s in orc["selections"]]
        all_rows = rows_rung(out)
        looks = [Fraction(tc["look"]) for tc in orc["touches"]]
        if any(e[0] == "setting" for _t, e in case["events"]):
            return None            # (up-down-in / stop-at-rounds may have been switched: the start is then C06's business)
        current = queued = None
        for k, tc in enumerate(orc["touches"]):
            look = looks[k]
            nxt = looks[k + 1] if k + 1 < len(looks) else Fraction(10 ** 9)
            rows = [b for (r, b, t) in all_rows if look <= t < nxt and len(b) == n]
            pending = [st for (t, st) in sel if t < look and (k == 0 or t >= looks[k - 1])]
            if pending:
                queued = pending[-1]
            want = queued if queued is not None else current
            if want is None or want > n:
                continue
            queued, current = None, want
            row = list(range(1, want + 1))
            for i, got in enumerate(rows[2:]):
                src = gens.textbook_change(want, [] if i % 2 == 0 else [1])
                if src is None:
                    break
                row = gens.apply_change(src, row)
                if row == list(range(1, want + 1)):
                    break              # rounds: stop-at-rounds ends the touch here
                if got != row + list(range(want + 1, n + 1)):
                    return (f"touch {k}: method row {i + 1} is {got}; the JSON definition in force (notation 'x1', stage {want}) "
                            f"gives {row + list(range(want + 1, n + 1))}")
        return None

    def oracle_C19(self, case, out):
        if "trace" not in out:
            return None
        orc = case["oracle"]
        n = orc["n"]
        sel = [(Fraction(t), s) for t, s in orc["selections"]]
        all_rows = rows_rung(out)
        looks = [Fraction(tc["look"]) for tc in orc["touches"]]
        current = None       # stage of the generator that has been rung last
        queued = None
        for k, tc in enumerate(orc["touches"]):
            look = looks[k]
            nxt = looks[k + 1] if k + 1 < len(looks) else Fraction(10 ** 9)
            rows = [(r, b, t) for (r, b, t) in all_rows if look <= t < nxt and len(b) == n]
            pending = [s for (t, s) in sel if t < look and (k == 0 or t >= looks[k - 1])]
            # a selection waits (queued) until a Look to can ring it; later selections replace it
            if pending:
                queued = pending[-1]
            want = queued if queued is not None else current
            if want is None or want > n:
                if rows:
                    return f"touch {k}: rang although the selected method needs {want} bells and the tower has {n}"
                continue
            queued = None
            if not rows:
                return f"touch {k}: the selection (stage {want}) was not rung at the Look to that followed it"
            stand_calls = [t for (t, c) in calls_made(out) if c == "Stand" and look <= t < nxt]
            if stand_calls:
                return (f"touch {k}: Wheatley itself called 'Stand' at {float(stand_calls[0]):.3f}s although the method being rung "
                        f"(stage {want}) fits the tower of {n}: a selection meant for the NEXT touch must not touch this one")
            method_rows = [b for (r, b, _t) in rows if r >= 2]
            got = moved_bells(method_rows)
            # (which method is rung can only be seen if the method starts: up-down-in may have been switched off
            # by a setting before this Look to, and nobody says Go in these sessions)
            udi = case["udi"]
            for t_e, e in case["events"]:
                if e[0] == "setting" and Fraction(t_e) < look:
                    for key, val in e[1]:
                        if key == "use_up_down_in" and val in ["True", "true", True]:
                            udi = True
                        elif key == "use_up_down_in" and val in ["False", "false", False]:
                            udi = False
            if len(method_rows) >= 3 and got != want and udi:
                return (f"touch {k}: the rows rung are on {got} bells, but the selection in force at Look to was stage "
                        f"{want} (selections {orc['selections']})")
            current = want
            if "stop" in tc:
                ts = Fraction(tc["stop"])
                late = [s for s in strikes(out) if ts < s[0] < nxt]
                if len(late) > 1:
                    return f"touch {k}: {len(late)} strikes went out after Stop touch"
                flags = [it for it in out["trace"] if it[1] == "is_ringing" and Fraction(it[0]) == ts and it[2] is False]
                if not flags:
                    return f"touch {k}: is_ringing=false was not sent when Stop touch arrived"
        # roll call exactly once per touch that started, right after is_ringing=true
        tr = out["trace"]
        for i, it in enumerate(tr):
            if it[1] == "roll_call":
                if i == 0 or tr[i - 1][1] != "is_ringing" or tr[i - 1][2] is not True:
                    return "a roll call was answered without ringing having started"
                if it[2] != case["instance"]:
                    return "roll call carried the wrong instance id"
        started = sum(1 for it in tr if it[1] == "is_ringing" and it[2] is True)
        if sum(1 for it in tr if it[1] == "roll_call") != started:
            return "roll calls and touches started do not match"
        # inactivity exit
        if out["outcome"][0] == "exited":
            end = Fraction(out["end"])
            idle_from = max([Fraction(it[0]) for it in tr if it[1] == "is_ringing" and it[2] is False] or [D01])
            if not (idle_from + 300 < end <= idle_from + 300 + Fraction(5, 100)):
                return f"exited after {float(end - idle_from):.2f}s of inactivity"
        elif orc["mode"] == "idle":
            end = Fraction(case["horizon"])
            idle_from = max([Fraction(it[0]) for it in tr if it[1] == "is_ringing" and it[2] is False] or [D01])
            if end > idle_from + 300 + Fraction(5, 100):
                return f"still running {float(end - idle_from):.2f}s after ringing stopped"
        return None


# ============================================================================= statement-level placements (C06, C10)
class StatementLevelSuite(SystemSuite):
    """Messages that land BETWEEN two statements of the main thread (sys.settrace injector, see
    sim.Injector): the granularity the system model does not have, so these are judged by the
    oracle only.  Two windows are known to be unsafe and are listed in known_findings.json."""
    name = "statement_level"

    def scenarios(self, rng, tier):
        n, dur, look = 4, Fraction(1, 8), Fraction(131, 1000)
        sch = Schedule(look, dur)
        # --- a Go delivered before statement k of the row turnover
        for si in (0, 1):
            for call in (1, 2, 3):
                for k in range(0, 27):
                    evs = [ev(0, "global", [True] * n), ev(look, "call", "Look to")]
                    yield {"gen": {"kind": "pn", "stage": 4, "method": "x1x1,2", "bob": None, "single": None,
                                   "start_index": si, "custom": None},
                           "udi": False, "stop_at_rounds": False, "call_comps": True, "name": None, "instance": None,
                           "rhythm": {"kind": "scripted", "durs": [fstr(dur)] * 100}, "delta": "0",
                           "horizon": fstr(sch.end_of(9 * n) + Fraction(1, 3000)), "events": sorted_events(evs),
                           "inject": {"func": "start_next_row", "file": "bot.py", "call": call, "stmt": k,
                                      "event": ["call", "Go"]},
                           "oracle_only": True, "oracle": {"kind": "go", "turnover_into": call, "n": n, "si": si}}
        # --- a human blow struck a row ahead, delivered inside the loop that arms the next row
        spec = {"kind": "plain_hunt", "stage": 4, "custom": None}
        rows = probe_rows(spec, n, 6)
        humans = [2, 3]
        iv = blow_interval(180, n)
        look2 = Fraction(211, 1000)
        start = look2 + 3
        for r_arm in (2, 3, 4):
            for c in range(4 * r_arm - 1, 4 * r_arm + 5):
                for early_bell in humans:
                    evs = [ev(0, "global", [True] * n), ev(Fraction(3, 100), "user_entered", 11, "Alice")]
                    for b in humans:
                        evs.append(ev(Fraction(5, 100) + Fraction(b, 10000), "assign", b, 11))
                    evs.append(ev(look2, "call", "Look to"))
                    for r, row in enumerate(rows):
                        for p, bell in enumerate(row):
                            if bell in humans and (r, bell) != (r_arm, early_bell):
                                evs.append(ev(start + iv * (r * n + p + r // 2) - Fraction(5, 1000) + Fraction(r * 7 + p, 10 ** 6),
                                              "ring", bell))
                    yield {"gen": spec, "udi": True, "stop_at_rounds": False, "call_comps": True, "name": None,
                           "instance": None,
                           "rhythm": {"kind": "wait", "inertia": 1.0, "initial_inertia": 1.0, "peal_speed": 180, "gap": 1.0,
                                      "max": 15},
                           "delta": "0", "horizon": fstr(start + iv * (6 * n + 3) + 1), "events": sorted_events(evs),
                           "inject": {"func": "expect_bell", "file": "bot.py", "call": c, "stmt": 0,
                                      "event": ["ring", early_bell]},
                           "oracle_only": True,
                           "oracle": {"kind": "arming", "n": n, "rows": 6, "r_arm": r_arm, "call": c, "bell": early_bell,
                                      "all_rows": rows}}

    def run_impl(self, case):
        c = {k: v for k, v in case.items() if k not in ("oracle", "oracle_only")}
        return sim.run_scenario(c, gens.build_impl_generator)

    def to_coq(self, case, out):
        raise NotImplementedError

    def _judge(self, case, out):
        if "trace" not in out or not out.get("injected"):
            return None
        orc = case["oracle"]
        n = orc["n"]
        rows = [b for (r, b, _t) in rows_rung(out) if len(b) == n]
        if orc["kind"] == "go":
            if out["outcome"][0] == "crashed":
                return f"a Go delivered inside the row turnover killed the main loop ({out['outcome'][2]})"
            r = orc["turnover_into"]           # the row being begun when the Go lands
            sp_hand = orc["si"] % 2 == 0
            ok = set()
            for g in (r - 1, r):               # the Go counts as spoken during the old or during the new row
                ok.add(g + 1 if ((g + 1) % 2 == 0) == sp_hand else g + 2)
            first = next((i for i, b in enumerate(rows) if b != list(range(1, n + 1))), None)
            if first not in ok:
                return (f"a Go delivered inside the turnover into row {r}: the method started at row {first}, "
                        f"the start discipline allows {sorted(ok)}")
            return None
        if orc["kind"] == "arming":
            # which blow did the injected strike turn out to be?  only the case "the bell had already rung the row
            # that has just finished" is a blow a row ahead
            if orc["call"] // n > orc["r_arm"]:
                return None       # the blow was held back past its own row: a real hold-up, not the case aimed at
            if len(rows) < orc["rows"]:
                return (f"every human blow was struck, yet only {len(rows)} of {orc['rows']} rows were completed "
                        f"(bell {orc['bell']} struck a row ahead while row {orc['r_arm']} was being armed)")
        return None

    def oracle_C06(self, case, out):
        return self._judge(case, out) if case["oracle"]["kind"] == "go" else None

    def oracle_C10(self, case, out):
        return self._judge(case, out)

    def finding_class(self, pid, case, out, msg):
        orc = case["oracle"]
        if orc["kind"] == "go" and ("killed the main loop" in msg or "the method started" in msg):
            return "go-inside-row-turnover"
        if orc["kind"] == "arming":
            # the blow lands while some row is being armed: after a human bell of that row has been armed (which
            # switches the stroke being listened for) and before this bell itself is armed
            ra, ci, bell = orc["call"] // orc["n"], orc["call"] % orc["n"], orc["bell"]
            if ra < len(orc["all_rows"]):
                row = orc["all_rows"][ra]
                humans_before = [b for b in row[:ci] if b in (2, 3)]
                if humans_before and row.index(bell) >= ci:
                    return "early-blow-inside-arming-loop"
        return None
