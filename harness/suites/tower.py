"""C20: Wheatley's picture of the tower.  Random (mostly well-formed) message histories through the
real RingingRoomTower with the stub client; the view is compared with the model's fold and with an
independent backward-looking reading of the history; start-up order and page parsing too."""
import json

import coqfmt as F
from suites import gens

IMPORTS = gens.IMPORTS + "\nFrom Wh Require Import Tower."
TOWER_ID = 123456789


def tmsg_coq(m):
    k = m[0]
    bl = lambda v: F.lst(F.boolean(b) for b in v)  # noqa: E731
    if k == "bell_rung":
        return f"(TBellRung {bl(m[1])} {m[2]})"
    if k == "global":
        return f"(TGlobal {bl(m[1])})"
    if k == "user_entered":
        return f"(TUserEntered {F.z(m[1])} {F.ustr(m[2])})"
    if k == "userlist":
        return "(TUserList " + F.lst(F.pair(F.z(i), F.ustr(n)) for i, n in m[1]) + ")"
    if k == "user_left":
        return f"(TUserLeft {F.z(m[1])})"
    if k == "assign":
        return f"(TAssign {m[1]} {F.z(m[2])})"
    if k == "size":
        return f"(TSizeChange {m[1]})"
    raise ValueError(k)


def to_payload(m):
    k = m[0]
    if k == "bell_rung":
        return "s_bell_rung", {"global_bell_state": list(m[1]), "who_rang": m[2]}
    if k == "global":
        return "s_global_state", {"global_bell_state": list(m[1])}
    if k == "user_entered":
        return "s_user_entered", {"user_id": m[1], "username": m[2]}
    if k == "userlist":
        return "s_set_userlist", {"user_list": [{"user_id": i, "username": n} for i, n in m[1]]}
    if k == "user_left":
        return "s_user_left", {"user_id": m[1]}
    if k == "assign":
        return "s_assign_user", {"bell": m[1], "user": m[2]}
    if k == "size":
        return "s_size_change", {"size": m[1]}
    raise ValueError(k)


def random_history(rng, well_formed=True):
    n = rng.randint(4, 16)
    strokes = [True] * n
    names = ["Alice", "Bob", "Carol", "Dave", "Wheatley", "Éloïse", "alice", "Alice ", "ALICE"]
    known = []
    h = [["global", list(strokes)]]
    for _ in range(rng.randint(1, 120)):
        r = rng.random()
        if r < 0.2 or not known:
            uid = rng.randint(1, 9)
            if rng.random() < 0.3:
                lst = [[rng.randint(1, 9), rng.choice(names)] for _ in range(rng.randint(0, 4))]
                h.append(["userlist", lst])
                known += [i for i, _ in lst]
            else:
                h.append(["user_entered", uid, rng.choice(names)])
                known.append(uid)
        elif r < 0.5:
            bell = rng.randint(1, len(strokes)) if well_formed or rng.random() < 0.8 else rng.randint(0, 18)
            uid = rng.choice(known) if (well_formed or rng.random() < 0.8) else rng.randint(1, 12)
            h.append(["assign", bell, uid if rng.random() < 0.8 else 0])
        elif r < 0.6:
            h.append(["user_left", rng.choice(known) if rng.random() < 0.9 else rng.randint(1, 12)])
        elif r < 0.9:
            if strokes:
                b = rng.randint(1, len(strokes)) if well_formed or rng.random() < 0.9 else rng.randint(0, 18)
                if 1 <= b <= len(strokes):
                    strokes[b - 1] = not strokes[b - 1]
                if not well_formed and rng.random() < 0.2:
                    # the payload of a strike is the server's COMPLETE picture: it may differ from what Wheatley had in
                    # other bells too (a strike it never saw), or even in length
                    if rng.random() < 0.8:
                        for _k in range(rng.randint(1, 2)):
                            j = rng.randrange(len(strokes))
                            strokes[j] = not strokes[j]
                    else:
                        strokes = [rng.random() < 0.5 for _ in range(rng.randint(4, 16))]
                h.append(["bell_rung", list(strokes), b])
        elif r < 0.93 and strokes:
            # Wheatley ITSELF pulls a rope (c_bell_rung goes out); the server's confirmation has not arrived yet, or never
            # comes: Wheatley's picture of the tower is still what the messages said
            h.append(["wring", rng.randint(1, len(strokes))])
        elif r < 0.96:
            m = rng.randint(4, 16) if rng.random() < 0.7 else len(strokes)
            if m != len(strokes):
                strokes = [True] * m
            h.append(["size", m])
        else:
            strokes = [rng.random() < 0.5 for _ in range(rng.choice([len(strokes), rng.randint(4, 16)]))]
            h.append(["global", list(strokes)])
    return h


def spec_view(h):
    """Independent backward-looking reading of a history (oldest first)."""
    def bells(k):      # strokes after the first k messages
        for i in range(k - 1, -1, -1):
            m = h[i]
            if m[0] in ("bell_rung", "global"):
                return list(m[1])
            if m[0] == "size":
                prev = bells(i)
                if m[1] != len(prev):
                    return [True] * m[1]
                return prev
        return []

    def holder(b, k):
        for i in range(k - 1, -1, -1):
            m = h[i]
            if m[0] == "assign" and m[1] == b and 1 <= b <= 16:
                return m[2] or None
            if m[0] == "user_left":
                u = holder(b, i)
                return None if u == m[1] else u
            if m[0] == "size":
                if m[1] != len(bells(i)) and b > m[1]:
                    return None
        return None

    def name(u, k):
        for i in range(k - 1, -1, -1):
            m = h[i]
            if m[0] == "user_entered" and m[1] == u:
                return m[2]
            if m[0] == "userlist":
                for (i2, n2) in reversed(m[1]):
                    if i2 == u:
                        return n2
        return None
    return bells, holder, name


class TowerViewSuite:
    name = "tower_view"
    case_type = "tower_case"
    chk = "chk_tower"
    imports = IMPORTS
    shard = 60

    def cases(self, rng, tier):
        for i in range(300 if tier == "quick" else 3000):
            yield {"h": random_history(rng, well_formed=(i % 4 != 0))}

    def run_impl(self, case):
        import socketio
        from wheatley.tower import RingingRoomTower
        from wheatley.bell import Bell
        socketio.set_sink(None)
        tower = RingingRoomTower(TOWER_ID, "http://sim.invalid")
        exns = 0
        with tower:
            client = socketio.last_client()
            for m in case["h"]:
                if m[0] == "wring":
                    b = Bell.from_number(m[1])
                    st = tower.get_stroke(b)
                    if st is not None:
                        tower.ring_bell(b, st)
                    continue
                ev, data = to_payload(m)
                try:
                    client.handlers[ev](data)
                except Exception:  # pylint: disable=broad-except
                    exns += 1
            out = {
                "bells": [s.is_hand() for s in tower._bell_state],
                "assigned": sorted((b.number, u) for b, u in tower._assigned_users.items()),
                "names": sorted(tower._user_name_map.items()),
                "exns": exns,
                "n": tower.number_of_bells,
                "strokes": [None if tower.get_stroke(Bell.from_number(b)) is None else tower.get_stroke(Bell.from_number(b)).is_hand() for b in range(1, 17)],
                "mine_noname": [tower.is_bell_assigned_to(Bell.from_number(b), None) for b in range(1, 17)],
                "mine_alice": [tower.is_bell_assigned_to(Bell.from_number(b), "Alice") for b in range(1, 17)],
                "log": [(k, e, d) for (k, e, d) in client.log[:16]],
            }
        return out

    def to_coq(self, case, out):
        exp = F.pair(F.lst(F.boolean(b) for b in out["bells"]),
                     F.lst(F.pair(str(b), F.z(u)) for b, u in out["assigned"]),
                     F.lst(F.pair(F.z(u), F.ustr(n)) for u, n in out["names"]))
        return F.pair(F.lst(tmsg_coq(m) for m in case["h"] if m[0] != "wring"), exp)

    def key(self, case):
        return json.dumps(case)

    def nontrivial(self, case, out):
        return len(case["h"]) > 10

    def oracle_C20(self, case, out):
        h = case["h"]
        bells, holder, name = spec_view(h)
        k = len(h)
        want = bells(k)
        if out["n"] != len(want) or out["bells"] != want:
            return f"size/strokes {out['bells']} differ from what the history implies {want}"
        for b in range(1, 17):
            ws = want[b - 1] if b <= len(want) else None
            if out["strokes"][b - 1] != ws:
                return f"stroke of bell {b}: view {out['strokes'][b - 1]}, history {ws}"
            u = holder(b, k)
            mine = (u is None)
            if out["mine_noname"][b - 1] != (mine if u is None else (name(u, k) is None)):
                return f"bell {b}: view says unassigned-ownership {out['mine_noname'][b - 1]}, history says holder {u}"
            alice = (u is not None and name(u, k) == "Alice")
            if out["mine_alice"][b - 1] != alice:
                return f"bell {b}: view says Alice's={out['mine_alice'][b - 1]}, history says holder {u} named {name(u, k) if u else None}"
        # start-up order: connect, eleven handlers, then c_join and c_request_global_state, with tower id
        log = out["log"]
        kinds = [k_ for (k_, _e, _d) in log]
        if kinds[0] != "connect" or log[0][1] != "http://sim.invalid":
            return "did not connect to the given URL first"
        ons = [e for (k_, e, _d) in log if k_ == "on"]
        emits = [(e, d) for (k_, e, d) in log if k_ == "emit"]
        first_emit = kinds.index("emit")
        if len(ons) != 11 or any(k_ == "on" for k_ in kinds[first_emit:]):
            return "handlers were not all registered before the first emit"
        if [e for e, _ in emits[:2]] != ["c_join", "c_request_global_state"]:
            return f"start-up emits were {emits[:2]}"
        if any(d.get("tower_id") != TOWER_ID for _, d in emits[:2]):
            return "a start-up message lacks the tower id"
        return None


# ============================================================================= C20: the tower page
class PageSuite:
    """get_load_balancing_url on generated tower-page bodies: the page as Ringing Room renders it (one
    parameter per line), the same page minified onto one line, trailing comments with quoted words, the
    parameter at the very end of the body, no closing quote, no server_ip at all, the word elsewhere in
    the page; --url values with and without a scheme.  requests.get is replaced by a fake."""
    name = "tower_page"
    case_type = "page_case"
    chk = "chk_page"
    imports = gens.IMPORTS + "\nFrom Wh Require Import PageParser CorrPage."
    shard = 150

    URLS = ["https://sock-eu-2.ringingroom.example:8443", "http://127.0.0.1:8080", "", "/", "ws.example", "https://rr.example/a?b=c",
            "https://рр.example"]
    UNFIXED = ["https://ringingroom.com", "ringingroom.com", "http://localhost:5000/", "httpx.example", "ringingroom.co.uk/", "HTTP://X"]

    def cases(self, rng, tier):
        n = 150 if tier == "quick" else 1500
        for _ in range(n):
            url = rng.choice(self.URLS)
            head = rng.choice(["<html><head><script>\nwindow.tower_parameters = {\n    id: 763451928,\n    name: \"Test\",\n",
                               "<html>", "", "<!-- no params -->\n  <script>var p = {id: 1,\n"])
            kind = rng.choice(["rendered", "rendered", "minified", "comment", "eof", "no_close", "absent", "absent_word_elsewhere",
                               "word_earlier"])
            line = f'    server_ip: "{url}"'
            if kind == "rendered":
                body = head + line + ',\n    host_permissions: false,\n    listen_link: "/763451928/listen"\n};</script></html>'
            elif kind == "minified":
                body = head.replace("\n", " ") + line + ', host_permissions: false, listen_link: "/763451928/listen"};</script><p class="motto">"Look to!"</p>'
            elif kind == "comment":
                body = head + line + ', // the "load balanced" socket server\n    x: "y"\n};'
            elif kind == "eof":
                body = head + line
            elif kind == "no_close":
                body = head.replace('"', "'") + f'    server_ip: "{url}'
                url = None
            elif kind == "absent":
                body = head + '    host_permissions: false\n};</script></html>'
                url = None
            elif kind == "absent_word_elsewhere":
                body = head + '    server: "ip",\n    listen_link: "/x"\n};'
                url = None
            else:   # the word occurs earlier than the parameter: the code takes the FIRST occurrence, as the page's author must expect
                body = "<!-- server_ip is set below -->\n" + head + line + ",\n};"
                url = "WHATEVER"
            yield {"body": body, "unfixed": rng.choice(self.UNFIXED), "tower_id": rng.choice([763451928, 1, 0]), "expected": url,
                   "conn_error": rng.random() < 0.05}

    def run_impl(self, case):
        import wheatley.page_parser as P
        import requests
        seen = {}

        class Resp:
            text = case["body"]

        def fake_get(url, *a, **kw):
            seen["url"] = url
            seen["timeout"] = kw.get("timeout")
            if case["conn_error"]:
                raise requests.exceptions.ConnectionError("no route")
            return Resp()
        saved = P.requests.get
        P.requests.get = fake_get
        try:
            try:
                r = {"ok": P.get_load_balancing_url(case["tower_id"], case["unfixed"])}
            except P.TowerNotFoundError as e:
                r = {"err": "TowerNotFoundError", "text": str(e)}
            except P.InvalidURLError as e:
                r = {"err": "InvalidURLError", "text": str(e)}
            except Exception as e:  # pylint: disable=broad-except
                r = {"err": type(e).__name__, "text": str(e)}
        finally:
            P.requests.get = saved
        fix = getattr(P, "_fix_url", None)
        r["fixed"] = fix(case["unfixed"]) if fix else None
        r["requested"] = seen.get("url")
        return r

    def to_coq(self, case, out):
        if case["conn_error"]:
            # the page is never read: compare only the URL fixing (the body handed to the model is one it rejects the same way)
            obs = F.err("EOwn") if out.get("err") == "InvalidURLError" else F.err("EOther")
            html = F.ustr("")
        else:
            obs = F.ok(F.ustr(out["ok"])) if "ok" in out else F.err("EOwn" if out["err"] == "TowerNotFoundError" else "EOther")
            html = F.ustr(case["body"])
        fixed = out["fixed"] if out["fixed"] is not None else ("" )
        return f"(mkPage {html} {F.ustr(case['unfixed'])} {obs} {F.ustr(fixed)})"

    def key(self, case):
        return json.dumps(case, sort_keys=True)

    def nontrivial(self, case, out):
        return True

    def oracle_C20(self, case, out):
        unfixed = case["unfixed"]
        # (where the page is fetched from is not part of C20: `_fix_url` is compared with the model only.  Observation:
        # a host name that itself starts with "http", e.g. httpx.example, is taken to have a scheme already.)
        if case["conn_error"]:
            if out.get("err") != "InvalidURLError":
                return f"no connection to {unfixed!r}: expected the option's own InvalidURLError, got {out}"
            return None
        exp = case["expected"]
        if exp == "WHATEVER":
            return None
        if exp is None:
            if out.get("err") != "TowerNotFoundError":
                return f"a page that names no socket server must give TowerNotFoundError, got {out}"
            return None
        if out.get("ok") != exp:
            return f"the page names socket server {exp!r} but Wheatley would connect to {out.get('ok', out)!r}"
        return None
