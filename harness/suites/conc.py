"""C19, statement-level interleavings: the REAL handlers (_on_row_gen_change, _on_size_change,
_on_look_to) run on real threads under a deterministic scheduler.  Every `line` event in
wheatley/bot.py is a scheduling point (sys.settrace); bot.next_row_generator_lock is replaced, on
that one Bot instance, by a cooperative lock with the same `with` protocol that tells the scheduler
"blocked" instead of blocking the OS thread.  A schedule "switch at k" runs thread A for k statements,
then thread B until it finishes or blocks, then alternates as needed until both are done.

Oracle: the final (row_generator, next_row_generator) equals that of one of the two sequential
orders.  Tie to Model/Conc.v: the model applied to the ORDER IN WHICH THE CRITICAL SECTIONS WERE
ENTERED must give the same final state; and every access to next_row_generator that decides or
performs a write must have happened while the lock was held."""
import json
import sys
import threading

import coqfmt as F
from suites import gens

IMPORTS = gens.IMPORTS + "\nFrom Wh Require Import Conc ConcP."


class CoopLock:
    def __init__(self, sched):
        self.sched = sched
        self.owner = None
        self.order = []

    def __enter__(self):
        me = threading.current_thread().name
        while self.owner is not None and self.owner != me:
            self.sched.blocked(me)
        self.owner = me
        self.order.append(me)
        return self

    def __exit__(self, *a):
        self.owner = None
        return False


class Scheduler:
    """Runs two callables on two threads, one statement of wheatley/bot.py at a time."""

    def __init__(self, bot_file):
        self.bot_file = bot_file
        self.turn = threading.Condition()
        self.current = None          # name of the thread allowed to run
        self.done = set()
        self.is_blocked = set()
        self.steps = {"A": 0, "B": 0}
        self.plan = None
        self.errors = {}
        self.accesses = []           # (thread, 'read'|'write', lock held by that thread?)

    # ---- called from worker threads
    def trace(self, frame, event, arg):
        if frame.f_code.co_filename != self.bot_file:
            return None
        return self.local_trace

    def local_trace(self, frame, event, arg):
        if event == "line":
            self.yield_point(threading.current_thread().name)
        return self.local_trace

    def yield_point(self, me):
        with self.turn:
            self.steps[me] += 1
            self.current = None
            self.turn.notify_all()
            while self.current != me:
                self.turn.wait()

    def blocked(self, me):
        with self.turn:
            self.is_blocked.add(me)
            self.current = None
            self.turn.notify_all()
            while self.current != me:
                self.turn.wait()
            self.is_blocked.discard(me)

    def worker(self, name, fn):
        with self.turn:
            while self.current != name:
                self.turn.wait()
        sys.settrace(self.trace)
        try:
            fn()
        except Exception as e:  # pylint: disable=broad-except
            self.errors[name] = type(e).__name__
        finally:
            sys.settrace(None)
            with self.turn:
                self.done.add(name)
                self.current = None
                self.turn.notify_all()

    # ---- the schedule
    def run(self, fa, fb, first, switch_at):
        ta = threading.Thread(target=self.worker, args=("A", fa), name="A", daemon=True)
        tb = threading.Thread(target=self.worker, args=("B", fb), name="B", daemon=True)
        ta.start()
        tb.start()
        other = "B" if first == "A" else "A"
        phase = 0
        guard = 0
        while len(self.done) < 2:
            guard += 1
            if guard > 20000:
                self.errors["scheduler"] = "livelock"
                break
            # who runs next?
            if phase == 0 and first not in self.done and self.steps[first] < switch_at and first not in self.is_blocked:
                nxt = first
            else:
                phase = 1
                if other not in self.done and other not in self.is_blocked:
                    nxt = other
                elif first not in self.done:
                    nxt = first
                else:
                    nxt = other
            with self.turn:
                self.current = nxt
                self.turn.notify_all()
                ok = self.turn.wait_for(lambda: self.current is None, timeout=10)
                if not ok:
                    self.errors["scheduler"] = "timeout"
                    break
        return self


def describe(gen):
    if gen is None:
        return None
    return gen.stage


def make_bot(n, current_stage, queued_stage):
    """A server-mode Bot on an n-bell tower with the given current / queued generators."""
    import socketio
    from wheatley.tower import RingingRoomTower
    from wheatley.bot import Bot
    from wheatley.row_generation import PlaceNotationGenerator
    from wheatley.row_generation.place_holder_generator import PlaceHolderGenerator
    import sim
    socketio.set_sink(None)
    tower = RingingRoomTower(1, "http://sim.invalid")
    tower._create_client()
    tower._bell_state = tower._bells_set_at_hand(n)
    gen = PlaceHolderGenerator() if not current_stage else PlaceNotationGenerator(current_stage, "x1")
    bot = Bot(tower, gen, True, True, True, sim.make_scripted_rhythm([]), user_name="Wheatley", server_instance_id=3)
    bot._on_size_change()
    if queued_stage:
        bot.next_row_generator = PlaceNotationGenerator(queued_stage, "x1")
    return bot, tower


def handler(bot, tower, kind, arg):
    if kind == "row_gen":
        return lambda: bot._on_row_gen_change({"type": "method", "stage": arg, "notation": "x1"})
    if kind == "size":
        def f():
            tower._on_size_change({"size": arg})
        return f
    if kind == "look_to":
        return lambda: bot._on_look_to()
    raise ValueError(kind)


class ConcSuite:
    name = "handler_interleavings"
    case_type = "conc_case"
    chk = "chk_conc"
    imports = IMPORTS
    shard = 400

    def cases(self, rng, tier):
        configs = []
        for n, cur, queued, new, size in [(8, 8, 8, 6, 6), (8, 6, 8, 6, 6), (8, 8, None, 6, 6), (8, 6, 6, 8, 6),
                                          (6, 6, None, 6, 8), (8, 8, 6, 8, 10), (8, 6, 8, 4, 4)]:
            configs.append(("row_gen", new, "size", size, n, cur, queued))
            configs.append(("row_gen", new, "look_to", None, n, cur, queued))
            configs.append(("size", size, "look_to", None, n, cur, queued))
        max_k = 26 if tier == "quick" else 60
        for (ka, aa, kb, ab, n, cur, queued) in configs:
            for first in ("A", "B"):
                for k in range(0, max_k):
                    yield {"a": [ka, aa], "b": [kb, ab], "n": n, "cur": cur, "queued": queued, "first": first, "k": k}

    def run_impl(self, case):
        import wheatley.bot as wbot

        def final(bot):
            return [describe(bot.row_generator), describe(bot.next_row_generator)]
        # the two sequential orders, on fresh bots
        seqs = []
        for order in ("AB", "BA"):
            bot, tower = make_bot(case["n"], case["cur"], case["queued"])
            fa, fb = handler(bot, tower, *case["a"]), handler(bot, tower, *case["b"])
            for x in order:
                try:
                    (fa if x == "A" else fb)()
                except Exception:  # pylint: disable=broad-except
                    pass
            seqs.append(final(bot))
        # the interleaved run
        bot, tower = make_bot(case["n"], case["cur"], case["queued"])
        sched = Scheduler(wbot.__file__)
        lock = CoopLock(sched)
        bot.next_row_generator_lock = lock
        fa, fb = handler(bot, tower, *case["a"]), handler(bot, tower, *case["b"])
        sched.run(fa, fb, case["first"], case["k"])
        return {"final": final(bot), "seqs": seqs, "order": lock.order, "errors": sched.errors,
                "steps": sched.steps, "size": tower.number_of_bells}

    def to_coq(self, case, out):
        # generators are identified by their stage; a generator "fits" iff stage <= the final tower size
        kinds = {"row_gen": lambda a: f"(prog_row_gen {a})", "size": lambda a: "prog_size_change",
                 "look_to": lambda a: "prog_look_to"}
        pa, pb = kinds[case["a"][0]](case["a"][1]), kinds[case["b"][0]](case["b"][1])
        order = F.lst("0" if x == "A" else "1" for x in out["order"])
        cur = case["cur"] or 0
        fin = out["final"]
        return (f"(mkConc {out['size']} {cur} {F.opt(case['queued'], str)} {pa} {pb} {order} "
                f"{fin[0] or 0} {F.opt(fin[1], str)})")

    def key(self, case):
        return json.dumps(case, sort_keys=True)

    def nontrivial(self, case, out):
        return 0 < case["k"] < max(out["steps"].values())

    def oracle_C19(self, case, out):
        if "scheduler" in out["errors"]:
            return None
        if "row_gen" not in (case["a"][0], case["b"][0]):
            # size change || Look to is run (and compared with the model) but not judged: the property
            # is about the fate of a SELECTION.  (Observation, see DESIGN.md: a Look to that lands between the
            # tower's and the Bot's halves of a size change sees an opening row of the old length and is
            # refused.)
            return None
        if out["final"] not in out["seqs"]:
            return (f"{case['a']} || {case['b']} (switch after {case['k']} statements of {case['first']}): final "
                    f"(current, queued) = {out['final']}, the sequential orders give {out['seqs']}")
        return None
