"""C18: command-line values.  Exhaustive short strings over each parser's alphabet, grammar-directed
and malformed longer ones, Unicode digits / numerics / lower-case bell symbols; the Unicode
classifier tables on all 0x110000 code points; main.console_main's exit behaviour."""
import itertools
import json
import re
from urllib.parse import urlparse

import coqfmt as F
from suites import gens

IMPORTS = gens.IMPORTS + "\nFrom Wh Require Import PyStr Parse."

OWN = {"parse_peal_speed": "PealSpeedParseError", "parse_call": "CallParseError",
       "parse_start_row": "StartRowParseError", "parse_place_notation": "PlaceNotationError",
       "parse_arg": "InvalidComplibURLError"}


def call_parser(fn, s):
    from wheatley import parsing
    from wheatley.row_generation import complib_composition_generator as ccg
    f = ccg.parse_arg if fn == "parse_arg" else getattr(parsing, fn)
    try:
        return {"ok": f(s)}
    except Exception as e:  # pylint: disable=broad-except
        return {"err": F.exn_kind(e), "cls": type(e).__name__}


def ringable(fn, s, value):
    """Can an accepted value actually be rung?  Returns None or a description of the failure."""
    from wheatley.row_generation import PlaceNotationGenerator
    from wheatley.stroke import Stroke
    try:
        if fn == "parse_place_notation":
            g = PlaceNotationGenerator(value[0], value[1])
        elif fn == "parse_call":
            g = PlaceNotationGenerator(8, "x18x18x18x18,12", bob=dict(value), single=dict(value))
        elif fn == "parse_start_row":
            g = PlaceNotationGenerator(max(4, value), "x1", start_row=s)
        else:
            return None
        for i in range(12):
            if i == 2:
                g.set_bob()
            g.next_row(Stroke.from_index(i))
        return None
    except Exception as e:  # pylint: disable=broad-except
        return f"{type(e).__name__}: {e}"


class ParseSuite:
    name = "parsers"
    case_type = "parse_case"
    chk = "chk_parse"
    imports = IMPORTS
    shard = 400

    def __init__(self, only=None):
        self.only = only
        if only:
            self.name = "parsers_" + "_".join(only)

    def cases(self, rng, tier):
        for c in self.all_cases(rng, tier):
            if self.only is None or c["fn"] in self.only:
                yield c

    def oracle_C16(self, case, out):
        """every reference form: the request Wheatley sends to CompLib names the composition and carries the access key
        and the substituted method as two proper query parameters"""
        if case["fn"] != "request_url" or "url" not in out:
            return None
        parts = ([f"accessKey={case['key']}"] if case["key"] else []) + \
                ([f"substitutedmethodid={case['subst']}"] if case["subst"] else [])
        want = f"https://api.complib.org/composition/{case['id']}/rows" + ("?" + "&".join(parts) if parts else "")
        if out["url"] != want:
            return f"composition {case['id']}, access key {case['key']!r}, substituted method {case['subst']!r}: requested {out['url']!r}, should be {want!r}"
        return None

    def oracle_C11(self, case, out):
        """the speed the rhythm is built for is the number of minutes the user wrote"""
        if case["fn"] != "parse_peal_speed" or "ok" not in out:
            return None
        s, v = case["s"], out["ok"]
        m = re.fullmatch(r"\s*(\d+)\s*h\s*(\d*)\s*m?\s*", s)
        if m and v != int(m.group(1)) * 60 + int(m.group(2) or 0):
            return f"--peal-speed {s!r} gives a rhythm of {v} minutes per 5040 rows"
        m = re.fullmatch(r"\s*(\d+)m?\s*", s)
        if m and v != int(m.group(1)):
            return f"--peal-speed {s!r} gives a rhythm of {v} minutes per 5040 rows"
        return None

    def all_cases(self, rng, tier):
        deep = tier == "thorough"
        # ---- peal speed
        alpha = "019hm- +_ ٣²"
        for ln in range(0, 5 if deep else 4):
            for tup in itertools.product(alpha, repeat=ln):
                yield {"fn": "parse_peal_speed", "s": "".join(tup)}
        for _ in range(3000 if deep else 500):
            h, m = rng.randint(0, 12), rng.randint(0, 75)
            form = rng.choice(["{h}h{m}", "{h}h{m:02d}", "{h}h{m}m", " {h} h {m} m ", "{t}", "{t}m", "{h}h", "h{m}", "{h}hh{m}",
                               "{h}h-{m}", "-{h}h{m}", "{h}_0h{m}", "{t}.5", "+{t}", "{h}h{m}h"])
            yield {"fn": "parse_peal_speed", "s": form.format(h=h, m=m, t=h * 60 + m)}
        # (every documented 'XhYY' value up to 17h59: the minutes are h * 60 + m for each of them, not for most)
        for h in range(0, 18):
            for m in range(0, 60):
                yield {"fn": "parse_peal_speed", "s": f"{h}h{m:02d}" + ("m" if (h + m) % 7 == 0 else "")}
        # ---- calls
        alpha = "14x-.:/ ze,&"
        for ln in range(0, 5 if deep else 4):
            for tup in itertools.product(alpha, repeat=ln):
                yield {"fn": "parse_call", "s": "".join(tup)}
        for _ in range(2000 if deep else 400):
            parts = []
            for _k in range(rng.randint(1, 3)):
                pn = rng.choice(["14", "1234", "3.123", "16", "x", "-1", "5", "70", "zz", "1e", "", "x1x1,2"])
                loc = rng.choice(["", "0:", "-1:", " 20 : ", "3:", "x:", "1:2:", "٣:"])
                parts.append(loc + pn + rng.choice(["", " "]))
            yield {"fn": "parse_call", "s": "/".join(parts)}
        # ---- start rows
        alpha = gens.BELL_NAMES[:6] + "ETetxG "
        for ln in range(0, 5 if deep else 4):
            for tup in itertools.product(alpha, repeat=ln):
                yield {"fn": "parse_start_row", "s": "".join(tup)}
        for _ in range(2000 if deep else 400):
            k = rng.randint(1, 16)
            row = list(gens.BELL_NAMES[:k])
            rng.shuffle(row)
            s = "".join(row)
            r = rng.random()
            if r < 0.15:
                s = s.lower()
            elif r < 0.3 and k > 1:
                s = s[:-1] + s[0]
            elif r < 0.4:
                s = s[1:]
            yield {"fn": "parse_start_row", "s": s}
        # ---- place notation
        alpha = "16x-.:,&+ e²٣z"
        for ln in range(0, 5 if deep else 4):
            for tup in itertools.product(alpha, repeat=ln):
                yield {"fn": "parse_place_notation", "s": "".join(tup)}
        for _ in range(3000 if deep else 600):
            stage = rng.choice([rng.randint(1, 16), rng.randint(0, 25), rng.randint(2, 12)])
            r = rng.random()
            if r < 0.6:
                pn, _ = gens.random_notation(rng, max(2, min(16, stage)))
            elif r < 0.8:
                pn = gens.malformed_string(rng)
            else:
                pn = rng.choice(["x1xe", "X1", "x1x1,2", "-", "1t"])
            st = rng.choice([str(stage), str(stage), "0" + str(stage), "²", "٣", " 6", "6 ", "+6", "1_0", "", "x"])
            yield {"fn": "parse_place_notation", "s": st + rng.choice([":", ":", ":", "::", ""]) + pn}
        # ---- composition references
        ids = ["73916", "65575", "0", "007", "-5", "x", "", "1_0", "٣"]
        hosts = ["", "complib.org/composition/", "https://complib.org/composition/", "http://www.complib.org/composition/",
                 "api.complib.org/composition/", "www.api.complib.org/composition/", "complib.org/method/",
                 "complib.org/", "complib.org", "http:complib.org/composition/", "[complib.org", "ftp://complib.org/composition/"]
        queries = ["", "?accessKey=abc123", "?substitutedmethodid=20336", "?substitutedmethodid=", "?accessKey=k&substitutedmethodid=7",
                   "?substitutedmethodid=7&accessKey=k", "?x", "?accessKey=a=b", "/rows", "/rows?accessKey=z"]
        for h in hosts:
            for i in ids:
                for q in queries:
                    if rng.random() < (1.0 if deep else 0.35):
                        yield {"fn": "parse_arg", "s": h + i + q}
        for i in [1, 73916, 0]:
            for key in [None, "", "abc"]:
                for sub in [None, 0, 7, 20336]:
                    yield {"fn": "request_url", "id": i, "key": key, "subst": sub}
        # ---- main.create_row_generator: bad values must end in sys.exit(message), never in a traceback
        for comp in ["73916", "x", "", "[complib.org", "http:complib.org/composition/1", "complib.org/method/5",
                     "complib.org/composition/", "12?substitutedmethodid=zz", "404", "403"]:
            yield {"fn": "main", "args": {"comp": comp}}
        for pn in ["6:x16x16x16,12", "²:x", "6:x1xe", "20:x16", "0:x", "6", "6:x:1", "x:x", "6:zz"]:
            for bob in ["14", "zz", "0:14/0:16", "x:14", "-1:3"]:
                yield {"fn": "main", "args": {"place_notation": pn, "bob": bob}}
        # ---- int() itself and the character classes
        alpha = "0159 +-_٣²\t"
        for ln in range(0, 5 if deep else 4):
            for tup in itertools.product(alpha, repeat=ln):
                yield {"fn": "int", "s": "".join(tup)}
        for c in range(0x110000):
            if deep or c < 0x3100 or c % 7 == 0 or chr(c).isnumeric() or chr(c).isspace():
                yield {"fn": "class", "c": c}

    def run_impl(self, case):
        fn = case["fn"]
        if fn == "int":
            try:
                return {"ok": int(case["s"])}
            except ValueError:
                return {"ok": None}
        if fn == "class":
            ch = chr(case["c"])
            try:
                dec = int(ch)
            except ValueError:
                dec = None
            return {"space": ch.isspace() and (("a" + ch).strip() == "a"), "numeric": ch.isnumeric(), "dec": dec}
        if fn == "main":
            import argparse
            try:
                import wheatley.main as wmain
            except Exception as e:  # pylint: disable=broad-except
                return {"skip": str(e)}
            from wheatley.row_generation import complib_composition_generator as ccg
            a = {"comp": None, "method": None, "place_notation": None, "bob": "14", "single": "1234",
                 "start_index": 0, "start_row": None}
            a.update(case["args"])
            status = {"404": 404, "403": 403}.get(a.get("comp") or "", 200)
            old = ccg.requests.get
            ccg.requests.get = gens.fake_requests_get(json.dumps(gens.random_payload(__import__("random").Random(1), 6)),
                                                      status=status)
            try:
                wmain.create_row_generator(argparse.Namespace(**a))
                return {"main": "generator"}
            except SystemExit as e:
                return {"main": "exit", "msg": str(e.code)[:80]}
            except Exception as e:  # pylint: disable=broad-except
                return {"main": "traceback", "cls": type(e).__name__, "msg": str(e)[:80]}
            finally:
                ccg.requests.get = old
        if fn == "request_url":
            from wheatley.row_generation import complib_composition_generator as ccg
            log = []
            old = ccg.requests.get
            ccg.requests.get = gens.fake_requests_get(json.dumps(gens.random_payload(__import__("random").Random(1), 6)), log=log)
            try:
                ccg.ComplibCompositionGenerator(case["id"], case["key"], case["subst"])
            finally:
                ccg.requests.get = old
            return {"url": log[0][0]}
        out = call_parser(fn, case["s"])
        if fn == "parse_arg":
            from wheatley.row_generation import complib_composition_generator as ccg
            arg = case["s"]
            url = arg if "complib.org" in arg else "https://complib.org/composition/" + arg
            if not url.startswith("http"):
                url = "https://" + url
            try:
                pu = urlparse(url)
                out["url"], out["path"], out["query"] = url, pu.path, pu.query
            except ValueError:
                out["url"] = None
        elif "ok" in out:
            out["ring"] = ringable(fn, case["s"], out["ok"])
            if fn == "parse_call":
                out["ok"] = [[k, v] for k, v in out["ok"].items()]
        return out

    def to_coq(self, case, out):
        fn = case["fn"]
        if fn == "main":
            return f"(PCInt {F.ustr('')} None)"       # judged by the oracle only
        if fn == "int":
            return f"(PCInt {F.ustr(case['s'])} {F.opt(out['ok'], F.z)})"
        if fn == "class":
            return f"(PCClass {case['c']}%N {F.boolean(out['space'])} {F.boolean(out['numeric'])} {F.opt(out['dec'], F.z)})"
        if fn == "request_url":
            return (f"(PCRequestUrl {F.z(case['id'])} {F.opt(case['key'], F.ustr)} {F.opt(case['subst'], F.z)} "
                    f"{F.ustr(out['url'])})")
        s = F.ustr(case["s"])
        err = F.err(out["err"]) if "err" in out else None
        if fn == "parse_peal_speed":
            return f"(PCPeal {s} {err or F.ok(F.z(out['ok']))})"
        if fn == "parse_call":
            return f"(PCCall {s} {err or F.ok(F.lst(F.pair(F.z(k), F.ustr(v)) for k, v in out['ok']))})"
        if fn == "parse_start_row":
            return f"(PCStartRow {s} {err or F.ok(str(out['ok']))})"
        if fn == "parse_place_notation":
            return f"(PCPlaceNotation {s} {err or F.ok(F.pair(str(out['ok'][0]), F.ustr(out['ok'][1])))})"
        if fn == "parse_arg":
            if out.get("url") is None:
                # urlparse itself refused the string: outside the model, rendered as a trivially true case
                return f"(PCInt {F.ustr('')} None)"
            res = err or F.ok(F.pair(F.z(out["ok"][0]), F.opt(out["ok"][1], F.ustr), F.opt(out["ok"][2], F.z)))
            return f"(PCArg {s} {F.ustr(out['url'])} {F.ustr(out['path'])} {F.ustr(out['query'])} {res})"
        raise ValueError(fn)

    def key(self, case):
        return json.dumps(case, sort_keys=True)

    def nontrivial(self, case, out):
        return case["fn"] not in ("class", "int", "main") and "ok" in out

    @staticmethod
    def documented_call(s):
        """The reading of the --bob / --single help text: '<pn>' or '<loc>: <pn>' parts separated by '/', <loc> a plain
        (possibly negative) decimal integer, <pn> bell symbols, x, - and dots.  Returns the dictionary the text defines,
        or None when the string is not of that plain documented form (then this oracle has no opinion)."""
        res = {}
        for part in s.split("/"):
            m = re.fullmatch(r" *(?:(-?[0-9]+) *: *)?([0-9ETABCDx.\-]+) *", part)
            if not m:
                return None
            pn = m.group(2)
            # a usable notation: no empty change, no doubled dots
            if re.search(r"\.\.|^\.|\.$", pn) or not re.fullmatch(r"(?:[x\-]|[0-9ETABCD]+)(?:\.?(?:[x\-]|[0-9ETABCD]+))*", pn):
                return None
            loc = int(m.group(1)) if m.group(1) is not None else 0
            if loc in res:
                return None
            res[loc] = pn
        return res

    def oracle_C18(self, case, out):
        fn = case["fn"]
        if fn == "main":
            # (an uncaught CallParseError etc. is still "that option's own descriptive error")
            if out.get("main") == "traceback" and out["cls"] not in F.OWN_ERRORS:
                return f"main.create_row_generator({case['args']}) died with {out['cls']}: {out['msg']}"
            return None
        if fn in ("int", "class", "request_url"):
            return None
        s = case["s"]
        if "err" in out:
            if out["cls"] != OWN[fn]:
                return f"{fn}({s!r}) raised {out['cls']} instead of {OWN[fn]}"
            # documented forms must not be rejected
            if fn == "parse_peal_speed" and re.fullmatch(r"\d{1,3}h[0-5]?\dm?|\d{1,4}m?", s):
                return f"peal speed {s!r} is of a documented form but was rejected"
            if fn == "parse_call" and self.documented_call(s) is not None:
                return f"call definition {s!r} is of the documented form (as in the --bob/--single help text) but was rejected: {out.get('msg')}"
            return None
        v = out["ok"]
        if fn == "parse_peal_speed":
            core = s.strip()
            core = core[:-1] if core.endswith("m") else core
            if "m" in core:
                return f"peal speed {s!r} was accepted (as {v} minutes) although an 'm' may only be its last character"
            m = re.fullmatch(r"\s*(\d+)\s*h\s*(\d*)\s*m?\s*", s)
            if m and v != int(m.group(1)) * 60 + int(m.group(2) or 0):
                return f"peal speed {s!r} parsed to {v} minutes"
            m = re.fullmatch(r"\s*(\d+)m?\s*", s)
            if m and v != int(m.group(1)):
                return f"peal speed {s!r} parsed to {v} minutes"
        if fn == "parse_call":
            doc = self.documented_call(s)
            if doc is not None and {int(k): x for k, x in v} != doc:
                return f"call definition {s!r} means {doc} but was converted to {v}"
        if out.get("ring"):
            return f"{fn}({s!r}) accepted {v!r}, which cannot be rung: {out['ring']}"
        if fn == "parse_start_row":
            if sorted(s) != sorted(gens.BELL_NAMES[:len(s)]):
                return f"start row {s!r} accepted although it is not a permutation of the first {len(s)} bells"
        return None
