"""Whole-system suites for the rhythm properties C11-C15: the real RegressionRhythm /
WaitForUserRhythm under the virtual clock against Model/Sys.v, with model-independent oracles
(closed forms, paired runs)."""
import copy
import json
from fractions import Fraction

import coqfmt as F
import sim
from suites import gens
from suites.system import (SystemSuite, Schedule, ev, fstr, sorted_events, blow_interval, probe_rows, strikes,
                           scenario_coq, rows_rung)

TOL = Fraction(1, 10 ** 6)


def wheatley_strikes(out):
    """[(row, place, bell, time)] of Wheatley's own strikes, keyed by the tick that emitted them."""
    res, cur = [], None
    for it in out.get("trace", []):
        if it[1] == "r_wait":
            cur = (it[4], it[5])
        elif it[1] == "bell" and cur is not None:
            res.append((cur[0], cur[1], it[2], Fraction(it[0])))
    return res


def base(spec, n, rhythm, events, horizon, *, delta=0, origin=0, udi=True):
    return {"gen": spec, "udi": udi, "stop_at_rounds": False, "call_comps": True, "name": None, "instance": None,
            "rhythm": rhythm, "delta": fstr(delta), "horizon": fstr(horizon), "events": sorted_events(events),
            "origin": fstr(origin)}


def strip(case):
    return {k: v for k, v in case.items() if k not in ("oracle", "b", "a")}


class PairedSuite(SystemSuite):
    """Cases that consist of one or two scenarios ("a" and optionally "b"); both run on the
    implementation, one of them (alternating) is also compared with the model."""
    fuel = 80000

    def run_impl(self, case):
        out = {"a": sim.run_scenario(case["a"], gens.build_impl_generator)}
        if "b" in case:
            out["b"] = sim.run_scenario(case["b"], gens.build_impl_generator)
        pick = case.get("pick", "a")
        out.update({k: v for k, v in out[pick].items()})     # trace/outcome of the compared run at top level
        return out

    def to_coq(self, case, out):
        pick = case.get("pick", "a")
        return scenario_coq(case[pick], out[pick], self.fuel, self.tol, self.min_margin)

    def key(self, case):
        return json.dumps(case, sort_keys=True, default=str)

    def nontrivial(self, case, out):
        return "trace" in out["a"] and len(wheatley_strikes(out["a"])) >= 4


# ============================================================================= C11
class AloneSuite(PairedSuite):
    name = "alone"
    coq_cap = {"quick": 40, "thorough": 400}

    def scenarios(self, rng, tier):
        for i in range(120 if tier == "quick" else 1200):
            n = rng.randint(4, 16)
            stage = n - rng.choice([0, 0, 1, 2]) if n > 5 else n
            spec = {"kind": "plain_hunt", "stage": stage, "custom": None}
            peal = rng.choice([60, 90, 150, 178, 180, 200, 240, 360, 600, rng.randint(60, 600)])
            if rng.random() < 0.08:
                peal = rng.choice([5, 10, 20])          # infeasibly fast: the late branch must agree too
            gap = rng.choice([0.0, 0.5, 1.0, 1.0, 2.0, 3.7])
            nrows = rng.choice([6, 10, 20, 40]) if n <= 8 else rng.choice([6, 10])
            look_to = Fraction(rng.randint(15, 90), 100) + Fraction(1, 1000)
            iv = blow_interval(peal, n)
            kind = rng.choice(["regression", "wait"])
            rh = {"kind": kind, "inertia": rng.choice([0.0, 0.5, 1.0]), "peal_speed": peal, "gap": gap, "max": 15}
            horizon = look_to + 3 + iv * (nrows * n + nrows // 2 * Fraction(gap)) + Fraction(1, 3000)
            evs = [ev(0, "global", [True] * n), ev(look_to, "call", "Look to")]
            a = base(spec, n, rh, evs, horizon)
            c = rng.choice([0, 0, 1000])
            if c:
                a = shift_scenario(a, Fraction(c))
            yield {"a": a, "oracle": {"n": n, "peal": peal, "gap": gap, "look_to": fstr(look_to + c)}}
        for i in range(30 if tier == "quick" else 300):      # a second touch after a human has bent the first
            yield self.second_touch(rng)
        for i in range(16 if tier == "quick" else 160):
            # server mode, spawned by Ringing Room AFTER somebody called Look to (--look-to-time): the touch is timed
            # from that moment, not from the start of the process
            n = rng.choice([4, 6, 8, 12])
            spec = {"kind": "plain_hunt", "stage": n, "custom": None}
            c = Fraction(rng.choice([1000, 1700000000]))
            lt = c - Fraction(rng.randint(5, 140), 100)
            evs = [ev(c, "global", [True] * n), ev(c + Fraction(11, 1000), "user_entered", 1, "Wheatley")]
            for b in range(1, n + 1):
                evs.append(ev(c + Fraction(12, 1000) + Fraction(b, 100000), "assign", b, 1))
            iv = blow_interval(180, n)
            nrows = 6
            rh = {"kind": "wait", "inertia": 1.0, "peal_speed": 180, "gap": 1.0, "max": 15}
            a = base(spec, n, rh, evs, lt + 3 + iv * (nrows * n + nrows // 2) + Fraction(1, 3000), origin=c)
            a.update({"name": "Wheatley", "instance": 9, "look_to_time": fstr(lt)})
            yield {"a": a, "oracle": {"n": n, "peal": 180, "gap": 1.0, "look_to": fstr(lt)}}
        for i in range(16 if tier == "quick" else 160):
            # server mode: the peal speed is not an option but a SETTING, and Ringing Room sends it before anything has
            # been rung (also: again between two touches)
            n = rng.choice([4, 6, 8, 12])
            spec = {"kind": "plain_hunt", "stage": n, "custom": None}
            v = rng.choice([150, 165, 200, 215, 240])
            evs = [ev(0, "global", [True] * n), ev(Fraction(11, 1000), "user_entered", 1, "Wheatley")]
            for b in range(1, n + 1):
                evs.append(ev(Fraction(12, 1000) + Fraction(b, 100000), "assign", b, 1))
            evs.append(ev(Fraction(71, 1000), "setting", [["peal_speed", rng.choice([v, str(v)])]]))
            look_to = Fraction(rng.randint(15, 60), 100) + Fraction(1, 1000)
            evs.append(ev(look_to, "call", "Look to"))
            iv = blow_interval(v, n)
            nrows = 6
            rh = {"kind": "wait", "inertia": 1.0, "peal_speed": 180, "gap": 1.0, "max": 15}
            a = base(spec, n, rh, evs, look_to + 3 + iv * (nrows * n + nrows // 2) + Fraction(1, 3000))
            a.update({"name": "Wheatley", "instance": 9})
            yield {"a": a, "oracle": {"n": n, "peal": v, "gap": 1.0, "look_to": fstr(look_to)}}

        for i in range(12 if tier == "quick" else 120):
            # Wheatley alone ringing (and CALLING) a composition on many bells at a brisk speed, some rows carrying two or
            # three calls: making the calls takes no time - the blow after a call is struck when the formula says
            n = rng.choice([10, 12, 14, 16])
            rounds_ = gens.BELL_NAMES[:n]
            pool = ["", "", "Bob", "Bob; Plain Bob", "Single; Bristol; Cambridge", "Bob;Single;Bob", "Go Yorkshire; Bob"]
            rows = [[rounds_, "", 0], [rounds_, rng.choice(["", "Go Bristol"]), 0]]
            cur = list(rounds_)
            for k in range(rng.randint(6, 10)):
                for j in range(k % 2, n - 1, 2):
                    cur[j], cur[j + 1] = cur[j + 1], cur[j]
                rows.append(["".join(cur), rng.choice(pool), 0])
            spec = {"kind": "complib", "payload": {"stage": n, "title": "T", "rows": rows}}
            peal = rng.choice([110, 120, 150, 178])
            gap = rng.choice([1.0, 1.5])
            nrows = len(rows) + 1
            look_to = Fraction(rng.randint(15, 90), 100) + Fraction(1, 1000)
            iv = blow_interval(peal, n)
            rh = {"kind": rng.choice(["regression", "wait"]), "inertia": 0.5, "peal_speed": peal, "gap": gap, "max": 15}
            horizon = look_to + 3 + iv * (nrows * n + nrows // 2 * Fraction(gap)) + Fraction(1, 3000)
            a = base(spec, n, rh, [ev(0, "global", [True] * n), ev(look_to, "call", "Look to")], horizon)
            yield {"a": a, "oracle": {"n": n, "peal": peal, "gap": gap, "look_to": fstr(look_to)}}

    def second_touch(self, rng):
        n = rng.choice([5, 6, 8])
        spec = {"kind": "plain_hunt", "stage": n, "custom": None}
        peal, gap = rng.choice([150, 175, 200]), rng.choice([1.0, 1.5])
        iv = blow_interval(peal, n)
        rows = probe_rows(spec, n, 8)
        human = rng.randint(2, n)
        look1 = Fraction(211, 1000)
        evs = [ev(0, "global", [True] * n), ev(Fraction(3, 100), "user_entered", 11, "Alice"),
               ev(Fraction(5, 100), "assign", human, 11), ev(look1, "call", "Look to")]
        ratio = Fraction(rng.choice([112, 108, 92]), 100)
        for r, row in enumerate(rows[:6]):
            p = row.index(human)
            t = look1 + 3 + iv * ratio * (r * n + p + (r // 2) * Fraction(gap)) + Fraction(rng.randint(1, 99), 10 ** 6)
            evs.append(ev(t, "ring", human))
        t_stand = look1 + 3 + iv * ratio * (4 * n + 2)
        evs.append(ev(t_stand, "call", "Stand next"))
        t_un = look1 + 3 + iv * ratio * (7 * n + 8) + 2
        evs.append(ev(t_un, "assign", human, 0))
        # the human may have left the bell at backstroke: set the tower at hand as Ringing Room would
        evs.append(ev(t_un + Fraction(1, 10), "global", [True] * n))
        look2 = t_un + Fraction(1, 2) + Fraction(1, 1000)
        evs.append(ev(look2, "call", "Look to"))
        nrows = 6
        horizon = look2 + 3 + iv * (nrows * n + nrows // 2 * Fraction(gap)) + Fraction(1, 3000)
        rh = {"kind": rng.choice(["wait", "regression"]), "inertia": 0.5, "peal_speed": peal, "gap": gap, "max": 15}
        a = base(spec, n, rh, evs, horizon)
        return {"a": a, "oracle": {"n": n, "peal": peal, "gap": gap, "look_to": fstr(look2), "after": fstr(look2)}}

    def cases(self, rng, tier):
        yield from self.scenarios(rng, tier)

    def oracle_C11(self, case, out):
        o = out["a"]
        if "trace" not in o:
            return None
        orc = case["oracle"]
        n, gap = orc["n"], Fraction(orc["gap"])
        iv = blow_interval(orc["peal"], n)
        if iv <= Fraction(11, 1000) or iv * (1 + gap) <= Fraction(11, 1000):
            return None                      # schedule not feasible against the 10 ms pauses: not claimed
        t0 = Fraction(orc["look_to"])
        after = Fraction(orc.get("after", 0))
        for (row, place, bell, t) in wheatley_strikes(o):
            if t < after:
                continue
            want = t0 + 3 + iv * (row * n + place + (row // 2) * gap)
            if abs(t - want) > TOL:
                return (f"row {row} place {place}: struck at look-to+{float(t - t0):.6f}s, the formula gives "
                        f"look-to+{float(want - t0):.6f}s")
        return None


    def oracle_C15(self, case, out):
        """Wheatley rings every bell: its first strike comes exactly 3 s after Look to - also when Look to was called
        before the process existed (--look-to-time)."""
        o = out["a"]
        if "trace" not in o or case["oracle"].get("after"):
            return None
        ws = wheatley_strikes(o)
        t0 = Fraction(case["oracle"]["look_to"])
        n = case["oracle"]["n"]
        iv = blow_interval(case["oracle"]["peal"], n)
        if iv <= Fraction(11, 1000):
            return None
        if ws and ((ws[0][0], ws[0][1]) != (0, 0) or abs(ws[0][3] - (t0 + 3)) > TOL):
            return f"Wheatley leads: its first strike came {float(ws[0][3] - t0):.4f}s after Look to, not 3 s"
        return None


def shift_scenario(sc, c):
    """The same session with the clock's origin moved by c."""
    s = copy.deepcopy(sc)
    s["origin"] = fstr(Fraction(c))
    s["horizon"] = fstr(Fraction(sc["horizon"]) + c - Fraction(sc.get("origin", 0)))
    s["events"] = [[fstr(Fraction(t) + c - Fraction(sc.get("origin", 0))), e] for t, e in sc["events"]]
    return s


# ============================================================================= C15
class PullOffSuite(PairedSuite):
    name = "pull_off"
    coq_cap = {"quick": 60, "thorough": 500}

    def scenarios(self, rng, tier):
        for _ in range(200 if tier == "quick" else 2000):
            n = rng.choice([4, 6, 6, 8, 10, 12])
            stage = n - rng.choice([0, 0, 1]) if n > 4 else n
            custom = None
            if rng.random() < 0.5:
                k = rng.randint(2, n)
                row = list(gens.BELL_NAMES[:k])
                rng.shuffle(row)
                custom = "".join(row)
            spec = {"kind": "plain_hunt", "stage": stage, "custom": custom}
            opening = [gens.BELL_NAMES.index(c) + 1 for c in custom] if custom else []
            opening += [b for b in range(1, n + 1) if b not in opening]
            leader = opening[0]
            humans = set(rng.sample(range(1, n + 1), rng.randint(0, n - 1)))
            human_leads = rng.random() < 0.6
            if human_leads:
                humans.add(leader)
            else:
                humans.discard(leader)
            if len(humans) == n:
                humans.discard([b for b in opening if b != leader][0])
            peal = rng.choice([150, 180, 240])
            iv = blow_interval(peal, n)
            look_to = Fraction(rng.randint(15, 60), 100) + Fraction(1, 1000)
            evs = [ev(0, "global", [True] * n), ev(Fraction(3, 100), "user_entered", 11, "Alice")]
            for b in sorted(humans):
                evs.append(ev(Fraction(5, 100) + Fraction(b, 10000), "assign", b, 11))
            if rng.random() < 0.25:
                # somebody says Stand next while nothing is being rung (say, a second time after the last touch stood): it
                # means nothing, the Look to that follows starts a touch as usual
                evs.append(ev(look_to - Fraction(rng.randint(2, 9), 100), "call", "Stand next"))
            evs.append(ev(look_to, "call", "Look to"))
            delay = Fraction(rng.choice([30, 100, 299, 320, 700, 1000, 4500]), 100) if human_leads else Fraction(3)
            t_lead = look_to + delay + Fraction(rng.randint(1, 99), 10 ** 5)
            others_early = rng.random() < 0.3
            for p, b in enumerate(opening):
                if b not in humans:
                    continue
                if b == leader:
                    evs.append(ev(t_lead, "ring", b))
                elif others_early and human_leads:
                    evs.append(ev(look_to + Fraction(rng.randint(5, 95), 100) * delay, "ring", b))
                else:
                    evs.append(ev(t_lead + iv * p + Fraction(rng.randint(1, 99), 10 ** 5), "ring", b))
            if human_leads and delay >= 7 and not others_early and rng.random() < 0.6:
                # the conductor says Look to AGAIN while everybody is still waiting for the human leader: still nothing may
                # be struck until that bell has rung
                evs.append(ev(look_to + delay * Fraction(rng.randint(20, 80), 100) + Fraction(1, 977), "call", "Look to"))
            kind = rng.choice(["wait", "regression"])
            rh = {"kind": kind, "inertia": rng.choice([0.5, 1.0]), "peal_speed": peal, "gap": 1.0, "max": 15}
            horizon = t_lead + iv * (n + 2) + Fraction(1, 3000)
            yield {"a": base(spec, n, rh, sorted_events(evs), horizon),
                   "oracle": {"n": n, "leader": leader, "human_leads": human_leads, "t_lead": fstr(t_lead),
                              "look_to": fstr(look_to), "iv": fstr(iv), "opening": opening,
                              "humans": sorted(humans), "others_early": others_early}}

        yield from self.setting_scenarios(rng, tier)

    def setting_scenarios(self, rng, tier):
        """server mode: the conductor says Look to, moves the speed slider (to a faster, the same or a slower speed) and
        only then pulls off - nothing may be struck before that bell, and the rest of the first row is placed from its
        actual strike at the speed now configured"""
        for _ in range(24 if tier == "quick" else 240):
            n = rng.choice([4, 6, 8])
            others = set(rng.sample(range(2, n + 1), rng.randint(0, n - 2)))
            humans = {1} | others
            look_to = Fraction(rng.randint(15, 60), 100) + Fraction(1, 1000)
            evs = [ev(0, "global", [True] * n), ev(Fraction(11, 1000), "user_entered", 1, "Wheatley"),
                   ev(Fraction(12, 1000), "user_entered", 11, "Alice")]
            for b in range(1, n + 1):
                evs.append(ev(Fraction(13, 1000) + Fraction(b, 100000), "assign", b, 11 if b in humans else 1))
            evs.append(ev(Fraction(4, 100), "row_gen", {"type": "method", "stage": n, "notation": "x1"}))
            evs.append(ev(look_to, "call", "Look to"))
            val = rng.choice([150, 180, 210, 240])
            t_set = look_to + Fraction(rng.randint(50, 250), 100) + Fraction(rng.randint(1, 99), 10 ** 5)
            evs.append(ev(t_set, "setting", [["peal_speed", val]]))
            t_lead = look_to + Fraction(rng.choice([350, 450, 700]), 100) + Fraction(rng.randint(1, 99), 10 ** 5)
            iv = blow_interval(val, n)
            evs.append(ev(t_lead, "ring", 1))
            for p in range(1, n):
                if p + 1 in humans:
                    evs.append(ev(t_lead + iv * p + Fraction(rng.randint(1, 99), 10 ** 5), "ring", p + 1))
            rh = {"kind": "wait", "inertia": 1.0, "peal_speed": 180, "gap": 1.0, "max": 15}
            a = base({"kind": "placeholder"}, n, rh, sorted_events(evs), t_lead + iv * (n + 2) + Fraction(1, 3000))
            a.update({"name": "Wheatley", "instance": 5, "stop_at_rounds": False})
            yield {"a": a, "oracle": {"n": n, "leader": 1, "human_leads": True, "t_lead": fstr(t_lead), "look_to": fstr(look_to),
                                      "iv": fstr(iv), "opening": list(range(1, n + 1)), "humans": sorted(humans),
                                      "others_early": False, "setting": [fstr(t_set), val]}}

    def cases(self, rng, tier):
        yield from self.scenarios(rng, tier)

    def oracle_C19(self, case, out):
        """a speed change that arrives while everybody waits for the human leader bends nothing yet: no strike before the
        leader, the first row at the new speed from the leader's strike"""
        if "setting" not in case["oracle"]:
            return None
        msg = self.oracle_C15(case, out)
        return msg and f"peal speed set to {case['oracle']['setting'][1]} while waiting for the pull-off: {msg}"

    def oracle_C15(self, case, out):
        o = out["a"]
        if "trace" not in o:
            return None
        orc = case["oracle"]
        ws = wheatley_strikes(o)
        look_to, t_lead, iv = Fraction(orc["look_to"]), Fraction(orc["t_lead"]), Fraction(orc["iv"])
        if not orc["human_leads"]:
            first = [t for (r, p, b, t) in ws if r == 0 and p == 0]
            if not first:
                return "Wheatley holds the leading bell but never struck it"
            if abs(first[0] - (look_to + 3)) > TOL:
                return f"first strike {float(first[0] - look_to):.6f}s after Look to, expected exactly 3 s"
            return None
        early = [(r, p, b, t) for (r, p, b, t) in ws if t < t_lead]
        if early:
            r, p, b, t = early[0]
            return (f"Wheatley struck bell {b} {float(t - look_to):.3f}s after Look to, before the human leader "
                    f"(bell {orc['leader']}) pulled off at {float(t_lead - look_to):.3f}s")
        # the rest of the first row is placed from the leader's actual strike at the configured speed
        n_human_before = 0
        for p, b in enumerate(orc["opening"]):
            if b in orc["humans"]:
                n_human_before += 1
                continue
            if n_human_before >= 3 or orc["others_early"]:
                break        # from the fourth datapoint on the regression legitimately takes over
            mine = [t for (r, pp, bb, t) in ws if r == 0 and pp == p]
            if mine and abs(mine[0] - (t_lead + iv * p)) > Fraction(11, 1000) + TOL:
                return (f"place {p} of the first row struck {float(mine[0] - t_lead):.4f}s after the leader, "
                        f"expected {float(iv * p):.4f}s")
        return None


class PullOffSettingSuite(PullOffSuite):
    """only the sessions in which the speed is changed while waiting for the pull-off (C19)"""
    name = "pull_off_setting"

    def scenarios(self, rng, tier):
        yield from self.setting_scenarios(rng, tier)


# ============================================================================= C13 / C12 / C14: sessions with humans on a line
def line_session(rng, *, kind, inertia, ratio=1, offset=0, human_leads=None, n=None, nrows=10, max_bells=15,
                 peal=None, tempo_change=None, early_ms=0, initial_inertia=0, jitter_us=0, n_humans=None,
                 prelude=None, covers=0, offset_places=0, via_setting=False, setting_row=None):
    """Humans strike perfectly evenly on their own line t = A + B * blow.
    prelude = ratio: the session is the SECOND touch on the same rhythm object; in a first touch of six
    rows the same humans rang evenly at `ratio` times the configured interval, then 'Stand next'."""
    n = n or rng.choice([4, 6, 8, 10])
    # (covers > 0: the method is rung on fewer bells than the tower has; a row still lasts n blows)
    spec = {"kind": "plain_hunt", "stage": max(2, n - covers), "custom": None}
    rows = probe_rows(spec, n, nrows)
    k = n_humans or rng.randint(max(1, -(-n // 3)), n - 1)
    humans = set(rng.sample(range(1, n + 1), k))
    if human_leads is True and n_humans and n_humans > 1:
        humans = set(rng.sample(range(2, n + 1), k - 1)) | {1}        # exactly n_humans, the treble among them
    if human_leads is True:
        humans.add(1)
    elif human_leads is False:
        humans.discard(1)
        if not humans:
            humans = {2}
    peal = peal or rng.choice([150, 180, 200])
    gap = 1.0
    iv = blow_interval(peal, n)
    look_to = Fraction(rng.randint(15, 40), 100) + Fraction(1, 1000)
    evs = [ev(0, "global", [True] * n), ev(Fraction(3, 100), "user_entered", 11, "Alice")]
    for b in sorted(humans):
        evs.append(ev(Fraction(5, 100) + Fraction(b, 10000), "assign", b, 11))
    if prelude is not None:
        look1 = Fraction(211, 1000)
        evs.append(ev(look1, "call", "Look to"))
        b1 = iv * Fraction(prelude)
        for r, row in enumerate(probe_rows(spec, n, 6)):
            for p, bell in enumerate(row):
                if bell in humans:
                    evs.append(ev(look1 + 3 + b1 * (r * n + p + (r // 2) * Fraction(gap)) + Fraction(37 + 3 * p, 10 ** 6), "ring", bell))
        evs.append(ev(look1 + 3 + b1 * (4 * n + 2) + Fraction(1, 10 ** 5), "call", "Stand next"))
        t_end = look1 + 3 + max(b1, iv) * (6 * n + 4) + 2
        evs.append(ev(t_end, "global", [True] * n))
        look_to = t_end + Fraction(1, 2) + look_to
    a0 = look_to + 3 + Fraction(offset) + iv * Fraction(offset_places)
    b0 = iv * Fraction(ratio)
    evs.append(ev(look_to, "call", "Look to"))
    human_blows = []
    line = (a0, b0)
    lines = [(0, a0, b0)]
    for r, row in enumerate(rows):
        for p, bell in enumerate(row):
            blow = r * n + p + (r // 2) * Fraction(gap)
            if tempo_change and (r, p) == (tempo_change[0], 0):
                # the new line passes through the same point at the change
                a_old, b_old = line
                b_new = iv * Fraction(tempo_change[1])
                a_new = a_old + (b_old - b_new) * blow
                line = (a_new, b_new)
                lines.append((blow, a_new, b_new))
            if bell in humans:
                # 20..70 ns off the exact line: far below every tolerance used, but enough that no strike
                # coincides with the end of one of Wheatley's own sleeps (a knife edge for the comparison)
                t = line[0] + line[1] * blow - Fraction(early_ms, 1000) + Fraction(20 + (7 * r + 3 * p) % 50, 10 ** 9)
                if jitter_us:
                    # Wheatley's fitted line passes within nanoseconds of perfectly even strikes, so every human
                    # strike would coincide with the end of the sleep of that bell's own tick: the order of the
                    # two is immaterial to Wheatley but a knife edge for the trace comparison.  Half of the
                    # sessions therefore carry a deterministic +-jitter (and are judged with a tolerance of 1 ms).
                    t += Fraction(((r * 31 + p * 17 + bell * 7) % 201) - 100, 100) * Fraction(jitter_us, 10 ** 6)
                human_blows.append((r, p, bell, t))
                evs.append(ev(t, "ring", bell))
    horizon = line[0] + line[1] * (nrows * n + nrows // 2) + Fraction(1, 3000)
    rh = {"kind": kind, "inertia": inertia, "peal_speed": peal, "gap": gap, "max": max_bells,
          "initial_inertia": initial_inertia}
    if via_setting:
        # server mode: Wheatley is built with inertia 1 and is TOLD the inertia over the socket before Look to
        rh["inertia"] = 1.0
        evs.append(ev(Fraction(11, 1000), "user_entered", 1, "Wheatley"))
        for b in range(1, n + 1):
            if b not in humans:
                evs.append(ev(Fraction(12, 1000) + Fraction(b, 100000), "assign", b, 1))
        # (setting_row: ... or only DURING the touch, at the start of that row - the rows before it are rung with inertia 1)
        t_set = Fraction(91, 1000) if setting_row is None else \
            a0 + b0 * (setting_row * n + (setting_row // 2) * Fraction(gap)) - b0 / 3
        evs.append(ev(t_set, "setting", [["inertia", inertia if rng.random() < 0.5 else int(inertia) if inertia == int(inertia) else inertia]]))
    sc = base(spec, n, rh, evs, horizon)
    if via_setting:
        sc.update({"name": "Wheatley", "instance": 5})
    return sc, {"n": n, "humans": sorted(humans), "iv": fstr(iv), "lines": [[fstr(x) for x in l] for l in lines],
                "look_to": fstr(look_to), "human_blows": [[r, p, b, fstr(t)] for (r, p, b, t) in human_blows],
                "gap": gap, "max": max_bells, "tol": fstr(Fraction(3, 1000) if jitter_us else TOL),
                "after": fstr(look_to if prelude is not None else 0), "jitter_us": jitter_us}


def perturb_events(sc, moves):
    """moves: {(bell, index of that bell's strike): new time}"""
    s = copy.deepcopy(sc)
    seen = {}
    for item in s["events"]:
        t, e = item
        if e[0] == "ring":
            i = seen.get(e[1], 0)
            seen[e[1]] = i + 1
            if (e[1], i) in moves:
                item[0] = fstr(moves[(e[1], i)])
    s["events"] = sorted_events(s["events"])
    return s


class InertiaOneSuite(PairedSuite):
    """C13 first clause: inertia 1, human timing after the first whole pull is irrelevant."""
    name = "inertia_one"
    coq_cap = {"quick": 30, "thorough": 300}

    def scenarios(self, rng, tier):
        for i in range(60 if tier == "quick" else 600):
            # (also a lone human, on the treble or not: the first regression then falls after the first whole pull)
            a, orc = line_session(rng, kind="regression", inertia=1.0, ratio=rng.choice([1, Fraction(103, 100)]),
                                  nrows=8, jitter_us=rng.choice([0, 100]), n_humans=rng.choice([None, None, 1, 1]),
                                  max_bells=rng.choice([15, 15, 8, 30]))
            iv, n = Fraction(orc["iv"]), orc["n"]
            moves = {}
            count = {}
            for (r, p, b, t) in orc["human_blows"]:
                i_b = count.get(b, 0)
                count[b] = i_b + 1
                if r >= 2:
                    # anywhere up to most of a row either way, order of that bell's own strikes kept
                    moves[(b, i_b)] = Fraction(t) + iv * Fraction(rng.randint(-(n - 1) * 40, (n - 1) * 40), 100)
            b_sc = perturb_events(a, moves)
            yield {"a": a, "b": b_sc, "pick": "b" if i % 2 else "a", "oracle": orc}

    def cases(self, rng, tier):
        yield from self.scenarios(rng, tier)

    def oracle_C13(self, case, out):
        if "trace" not in out["a"] or "trace" not in out["b"]:
            return None
        wa, wb = wheatley_strikes(out["a"]), wheatley_strikes(out["b"])
        for x, y in zip(wa, wb):
            if x[:3] != y[:3] or abs(x[3] - y[3]) > Fraction(1, 10 ** 9):
                return (f"inertia 1: changing the humans' timing after row 1 moved Wheatley's strike of row {x[0]} "
                        f"place {x[1]} by {float(y[3] - x[3]):.6f}s")
        return None


class OutlierSuite(PairedSuite):
    """C13 second clause: a single strike 3..N places out, once settled, is disregarded entirely."""
    name = "outlier"
    coq_cap = {"quick": 30, "thorough": 300}

    def scenarios(self, rng, tier):
        for i in range(80 if tier == "quick" else 800):
            leads = rng.choice([True, False])
            # (a band that has settled well away from the configured speed - Wheatley takes its line over exactly with inertia 0
            # once a regression has been made - is a settled rhythm too: "places out" are places of the line being RUNG)
            ratio = rng.choice([1, 1, 1, Fraction(8, 10), Fraction(8, 10)])
            a, orc = line_session(rng, kind="regression", inertia=rng.choice([0.0, 0.3, 0.5, 0.8]) if ratio == 1 else 0.0,
                                  ratio=ratio, human_leads=leads, nrows=9, n=rng.choice([6, 8, 10]),
                                  # ("any dataset size": also the smallest -X values, for which no line is ever fitted)
                                  max_bells=rng.choice([5, 8, 15, 30, 2, 3, 4]) if ratio == 1 else rng.choice([8, 15, 30]),
                                  jitter_us=rng.choice([0, 100]) if ratio == 1 else 0,
                                  n_humans=rng.choice([None, None, 1]) if ratio == 1 else None,
                                  # (a human leader need not pull off at Look to + 3 s: two or three places later or earlier
                                  # - the measure of "places out" is the line being rung, not the nominal start)
                                  offset_places=rng.choice([0, 0, 2, -2, 3]) if leads else 0,
                                  via_setting=(i % 4 == 3 and ratio == 1))
            iv, n = Fraction(orc["iv"]) * ratio, orc["n"]
            # "once the rhythm is settled": from the third whole row on (two or more datapoints are held); away from the
            # configured speed only once the first regressions have been made
            cands = [(j, hb) for j, hb in enumerate(orc["human_blows"]) if hb[0] >= (2 if ratio == 1 else 4) and hb[0] <= 6]
            j, (r, p, b, t) = rng.choice(cands)
            idx = sum(1 for hb in orc["human_blows"][:j] if hb[2] == b)
            # between three places and (safely) less than the distance to the same bell's neighbouring strikes
            places = Fraction(rng.randint(300, max(301, (n - 2) * 100)), 100) * rng.choice([-1, 1])
            if ratio != 1 and rng.random() < 0.6:
                places = Fraction(rng.randint(300, 345), 100) * rng.choice([-1, 1])      # only just a gross blunder
            if i % 4 == 3 and ratio == 1:      # (re-sending the CONFIGURED speed to a band settled elsewhere would be a real change)
                # server mode: just before the blunder the peal speed in force is sent AGAIN (somebody touched the control
                # without moving it): the rhythm stays settled, and so does its memory of the band
                t_set = min(Fraction(t), Fraction(t) + iv * places) - iv * Fraction(rng.randint(20, 60), 100)
                a = copy.deepcopy(a)
                a["events"] = sorted_events(a["events"] + [ev(t_set, "setting", [["peal_speed", a["rhythm"]["peal_speed"]]])])
            b_sc = perturb_events(a, {(b, idx): Fraction(t) + iv * places + Fraction(1, 10 ** 6)})
            yield {"a": a, "b": b_sc, "pick": "b" if i % 2 else "a",
                   "oracle": dict(orc, displaced=[r, p, b, float(places)], off_speed=(ratio != 1))}

    def cases(self, rng, tier):
        yield from self.scenarios(rng, tier)

    def oracle_C13(self, case, out):
        if "trace" not in out["a"] or "trace" not in out["b"]:
            return None
        wa, wb = wheatley_strikes(out["a"]), wheatley_strikes(out["b"])
        orc = case["oracle"]
        if orc.get("off_speed"):
            # "once the rhythm is settled": the premise is read off the undisturbed run - in the row before the blunder
            # Wheatley's strikes lie on the band's line (a band too far from the configured speed is never followed)
            n, gap = orc["n"], Fraction(orc["gap"])
            a0, b0 = Fraction(orc["lines"][0][1]), Fraction(orc["lines"][0][2])
            r0 = orc["displaced"][0] - 1
            prev = [x for x in wa if x[0] == r0]
            if not prev or any(abs(x[3] - (a0 + b0 * (x[0] * n + x[1] + (x[0] // 2) * gap))) > Fraction(5, 1000) for x in prev):
                return None
        for x, y in zip(wa, wb):
            if x[:3] != y[:3] or abs(x[3] - y[3]) > Fraction(case["oracle"]["tol"]):
                d = case["oracle"]["displaced"]
                return (f"one strike of bell {d[2]} displaced by {d[3]:+.2f} places in row {d[0]} moved Wheatley's "
                        f"strike of row {x[0]} place {x[1]} by {float(y[3] - x[3]):.6f}s")
        return None


class TempoSuite(PairedSuite):
    """C12: exact with inertia 0, geometric with inertia <= 1/2, fixed point, tempo change."""
    name = "tempo"
    coq_cap = {"quick": 30, "thorough": 300}

    def scenarios(self, rng, tier):
        for i in range(90 if tier == "quick" else 900):
            mode = rng.choice(["exact", "exact", "geometric", "fixed", "change"])
            leads = rng.choice([True, False])
            ratio = Fraction(rng.randint(93, 107), 100)
            # ("any offset when a human leads": also a pull-off long before or after the nominal Look to + 3 s)
            offset = (rng.choice([Fraction(rng.randint(-30, 40), 100)] * 2 + [Fraction(-22, 10), Fraction(-1), Fraction(-7, 10), Fraction(3, 2)])
                      if leads else 0)
            mb = rng.choice([5, 8, 15, 30])
            jit = rng.choice([0, 100])
            # a third of the sessions are the second touch of a rhythm object that followed the same humans
            # at a different tempo in a first touch (nothing of which may survive Look to)
            pre = rng.choice([None, None, Fraction(92, 100), Fraction(109, 100)])
            if mode == "exact":
                a, orc = line_session(rng, kind="regression", inertia=0.0, ratio=ratio, offset=offset,
                                      human_leads=leads, nrows=8, max_bells=mb, jitter_us=jit, prelude=pre,
                                      covers=rng.choice([0, 0, 1, 2, 3, 4]), via_setting=(pre is None and rng.random() < 0.5))
            elif mode == "geometric":
                a, orc = line_session(rng, kind="regression", inertia=rng.choice([0.1, 0.3, 0.5]), ratio=ratio,
                                      offset=offset, human_leads=leads, nrows=16, max_bells=mb, jitter_us=jit, prelude=pre)
            elif mode == "fixed":
                a, orc = line_session(rng, kind="regression", inertia=rng.choice([0.0, 0.3, 0.7, 1.0]), ratio=1,
                                      offset=0, human_leads=False, nrows=8, max_bells=mb, jitter_us=jit)
            else:
                a, orc = line_session(rng, kind="regression", inertia=0.0, ratio=ratio, offset=offset,
                                      human_leads=leads, nrows=14, max_bells=rng.choice([5, 8, 15]),
                                      tempo_change=(rng.randint(3, 5), ratio * Fraction(rng.choice([97, 98, 103, 105]), 100)),
                                      jitter_us=jit, via_setting=rng.random() < 0.5)
            if mode == "change" and i % 3 == 0:
                # server mode, the band exactly on Wheatley's own line: some rows are rung with inertia 1 (nothing to follow),
                # then the inertia is set to 0 DURING the touch, and later the band moves to a new steady tempo: the memory
                # that has to turn over is the configured dataset size, however long inertia 1 lasted
                r_set = rng.randint(4, 7)
                a, orc = line_session(rng, kind="regression", inertia=0.0, ratio=1, offset=0, human_leads=False,
                                      nrows=r_set + 12, max_bells=rng.choice([5, 8]),
                                      tempo_change=(r_set + rng.randint(1, 2), Fraction(rng.choice([97, 98, 103, 104]), 100)),
                                      jitter_us=jit, via_setting=True, setting_row=r_set)
            case = {"a": a, "oracle": dict(orc, mode=mode, inertia=a["rhythm"]["inertia"])}
            if mode == "fixed":
                alone = copy.deepcopy(a)
                alone["events"] = [e for e in a["events"] if e[1][0] not in ("ring", "assign", "user_entered")]
                case["b"] = alone
            yield case

    def cases(self, rng, tier):
        yield from self.scenarios(rng, tier)

    def oracle_C12(self, case, out):
        if "trace" not in out["a"]:
            return None
        orc = case["oracle"]
        n, gap = orc["n"], Fraction(orc["gap"])
        after = Fraction(orc.get("after", 0))
        ws = [x for x in wheatley_strikes(out["a"]) if x[3] >= after]
        lines = [(Fraction(x), Fraction(a), Fraction(b)) for x, a, b in orc["lines"]]

        def human_line(blow):
            cur = lines[0]
            for l in lines:
                if l[0] <= blow:
                    cur = l
            return cur[1] + cur[2] * blow
        waits = {}
        for it in out["a"]["trace"]:
            if it[1] == "r_wait" and Fraction(it[0]) >= after:
                waits[(it[4], it[5])] = Fraction(it[0])
        hb = [(r, p, b, Fraction(t)) for r, p, b, t in orc["human_blows"]]
        TOLX = Fraction(orc["tol"])
        if orc["mode"] == "fixed":
            wb = wheatley_strikes(out["b"])
            bells_b = {(r, p): t for (r, p, b, t) in wb}
            for (r, p, b, t) in ws:
                if (r, p) in bells_b and abs(bells_b[(r, p)] - t) > TOLX:
                    return (f"humans already on Wheatley's line, yet its strike of row {r} place {p} moved by "
                            f"{float(t - bells_b[(r, p)]):.7f}s")
            return None
        dist = [(r, p, abs(t - human_line(r * n + p + (r // 2) * gap)), waits.get((r, p))) for (r, p, b, t) in ws]
        if orc["mode"] == "exact":
            if len(hb) < 6:
                return None
            t4 = sorted(t for (_r, _p, _b, t) in hb)[3]       # the fourth strike heard
            for (r, p, d, tb) in dist:
                if tb is not None and tb > t4 and d > TOLX:
                    return (f"inertia 0: row {r} place {p} struck {float(d):.6f}s off the humans' line after the "
                            f"first regression")
            return None
        if orc["mode"] == "geometric":
            first = max([d for (r, p, d, tb) in dist if r <= 1] or [Fraction(0)])
            late = [d for (r, p, d, tb) in dist if r >= 13]
            # (humans deliberately jittered by +-100 us put a floor of that order under the distance)
            noise = Fraction(2 * orc.get("jitter_us", 100 if Fraction(orc["tol"]) > TOL else 0), 10 ** 6)
            if first > Fraction(1, 1000) and late and max(late) > first / 50 + noise:
                return (f"inertia {orc['inertia']}: distance to the humans' line {float(max(late)):.5f}s after 13 rows, "
                        f"{float(first):.5f}s at the start")
            return None
        if orc["mode"] == "change":
            change_blow = lines[-1][0]
            after = sorted(t for (r, p, b, t) in hb if r * n + p + (r // 2) * gap >= change_blow)
            turnover = orc["max"] - 1
            if len(after) <= turnover + 1:
                return None
            t_turn = after[turnover]
            for (r, p, d, tb) in dist:
                if tb is not None and tb > t_turn and d > TOLX:
                    return (f"after the tempo change and {turnover} strikes on the new line, row {r} place {p} is still "
                            f"{float(d):.6f}s off it")
            return None
        return None


    def oracle_C15(self, case, out):
        """The sessions led by a human (also those that are the SECOND touch of a rhythm object that followed another
        tempo before): until the regression has four strikes to go on, Wheatley's blows of the first row are placed
        from the leader's actual strike at the CONFIGURED interval."""
        orc = case["oracle"]
        if "trace" not in out["a"] or orc.get("mode") == "fixed":
            return None
        hb = sorted(((r, p, b, Fraction(t)) for r, p, b, t in orc["human_blows"]), key=lambda x: x[3])
        if not hb or (hb[0][0], hb[0][1]) != (0, 0):
            return None                                   # Wheatley leads
        n, iv = orc["n"], Fraction(orc["iv"])
        after = Fraction(orc.get("after", 0))
        t_lead = hb[0][3]
        t_fourth = hb[3][3] if len(hb) > 3 else None
        for (r, p, b, t) in wheatley_strikes(out["a"]):
            if t < after or r != 0:
                continue
            if t_fourth is not None and t >= t_fourth:
                break                                     # the regression legitimately takes over
            if abs(t - (t_lead + iv * p)) > Fraction(11, 1000) + TOL + Fraction(orc.get("jitter_us", 0), 10 ** 6):
                return (f"first row, place {p}: struck {float(t - t_lead):.4f}s after the human leader, the configured "
                        f"interval puts it at {float(iv * p):.4f}s"
                        + (" (second touch; the first was rung at another tempo)" if after else ""))
        return None


class HoldUpSuite(PairedSuite):
    """C14 first clause: a hold-up of D delays everything after it by D (within one polling step)."""
    name = "hold_up"
    coq_cap = {"quick": 30, "thorough": 300}

    def scenarios(self, rng, tier):
        for i in range(80 if tier == "quick" else 800):
            # regression inert, as the property says: also during the first row (initial inertia 1)
            lead_row1 = i % 5 == 4
            if lead_row1:
                # the configuration Wheatley really runs with (inertia 1, first row free): a human leads the first
                # BACKSTROKE row (bell 2 in plain hunt) and is a little late exactly there - the first row is over, so
                # the regression must already be inert
                # (exactly three human bells: the fourth datapoint - the first that allows a fit - is that backstroke lead)
                a, orc = line_session(rng, kind="wait", inertia=1.0, initial_inertia=0.0, human_leads=True, nrows=7,
                                      early_ms=5, n=rng.choice([6, 8]), n_humans=3)
                # Wheatley's line is anchored on the leader's own (5 ms early) pull-off: every other human blow is put
                # another 5 ms earlier, so that it stays clear of the end of Wheatley's own sleeps
                first = min(Fraction(t) for (_r, _p, _b, t) in orc["human_blows"])
                orc = dict(orc, early_ms=5,     # (5 ms relative to the line as anchored by the leader's early pull-off)
                           human_blows=[[r, p, b, t if Fraction(t) == first else fstr(Fraction(t) - Fraction(5, 1000))]
                                        for (r, p, b, t) in orc["human_blows"]])
                a = copy.deepcopy(a)
                a["events"] = sorted_events([[t if (e[0] != "ring" or Fraction(t) == first) else fstr(Fraction(t) - Fraction(5, 1000)), e]
                                             for t, e in a["events"]])
            else:
                a, orc = line_session(rng, kind="wait", inertia=1.0, initial_inertia=1.0, human_leads=False, nrows=7,
                                      early_ms=5)
            iv, n = Fraction(orc["iv"]), orc["n"]
            hb = orc["human_blows"]
            j = rng.randrange(len(hb) // 4, 3 * len(hb) // 4)
            if i % 5 == 3:
                j = 0                      # the very first human blow of the touch is the late one
            holdups = [(j, Fraction(rng.choice([3, 13, 47, 250, 1230, 3001, 11003]), 1000) + Fraction(1, 7919))]
            if lead_row1:
                j = next(k for k, x in enumerate(hb) if (x[0], x[1]) == (1, 0))
                holdups = [(j, Fraction(rng.choice([47, 153, 250]), 1000) + Fraction(1, 7919))]
            if rng.random() < 0.3 and not lead_row1:
                holdups.append((min(len(hb) - 2, j + rng.randint(2, 6)), Fraction(rng.choice([17, 333]), 1000) + Fraction(1, 7907)))
            two = rng.random() < 0.4 and not lead_row1
            speed = None
            if not two and not lead_row1 and rng.random() < 0.5:
                holdups = [(jj, d if d > Fraction(1, 5) else d + Fraction(rng.choice([250, 1230, 3001]), 1000)) for jj, d in holdups]
                # server mode: after the last hold-up somebody changes the peal speed; from then on the (punctual)
                # humans ring at the new speed.  In the held-up session all of that simply happens D later.
                a = copy.deepcopy(a)
                start = Fraction(orc["look_to"]) + 3
                last = max(jj for jj, _d in holdups)
                r_l, p_l = hb[last][0], hb[last][1]
                x_c = r_l * n + p_l + (r_l // 2) + n + Fraction(37, 100)        # blow position of the change
                t_c = start + iv * x_c
                v = rng.choice([150, 165, 200, 210])
                iv2 = blow_interval(v, n)
                a.update({"name": "Wheatley", "instance": 5})
                wheatley_bells = [b for b in range(1, n + 1) if b not in orc["humans"]]
                extra = [ev(Fraction(11, 1000), "user_entered", 1, "Wheatley")]
                extra += [ev(Fraction(12, 1000) + Fraction(b, 100000), "assign", b, 1) for b in wheatley_bells]
                new_hb, evs2, k = [], [], 0
                ring_times = {}
                for (r, p, b, t) in hb:
                    x = r * n + p + (r // 2)
                    t2 = Fraction(t) if x < x_c else t_c + (x - x_c) * iv2 - Fraction(5, 1000) + Fraction(20 + (7 * r + 3 * p) % 50, 10 ** 9)
                    new_hb.append([r, p, b, fstr(t2)])
                    ring_times.setdefault(b, []).append(t2)
                seen = {}
                for t, e in a["events"]:
                    if e[0] == "ring":
                        i_b = seen.get(e[1], 0)
                        seen[e[1]] = i_b + 1
                        evs2.append([fstr(ring_times[e[1]][i_b]), e])
                    else:
                        evs2.append([t, e])
                a["events"] = sorted_events(evs2 + extra + [ev(t_c, "setting", [["peal_speed", v]])])
                a["horizon"] = fstr(t_c + iv2 * (7 * n + 4 - x_c) + Fraction(1, 3000))
                hb = new_hb
                orc = dict(orc, human_blows=hb)
                speed = [fstr(t_c), v]
            moves = {}
            total = Fraction(0)
            count = {}
            for k, (r, p, b, t) in enumerate(hb):
                i_b = count.get(b, 0)
                count[b] = i_b + 1
                for (jj, d) in holdups:
                    if k == jj:
                        total += d
                if total:
                    moves[(b, i_b)] = Fraction(t) + total
            if two:
                # a second touch in the same session: Stand, then Look to again; nobody is late any more
                iv_, n_ = Fraction(orc["iv"]), orc["n"]
                a = copy.deepcopy(a)
                t_stand = Fraction(orc["look_to"]) + 3 + iv_ * (4 * n_ + 3)
                t_end1 = Fraction(orc["look_to"]) + 3 + iv_ * (6 * n_ + 4) + 1
                a["events"] = [e for e in a["events"] if Fraction(e[0]) < t_end1 - 1 or e[1][0] != "ring"]
                a["events"].append(ev(t_stand, "call", "Stand next"))
                look2 = t_end1 + Fraction(1, 1000)
                a["events"].append(ev(t_end1 - Fraction(1, 10), "global", [True] * n_))
                a["events"].append(ev(look2, "call", "Look to"))
                rows2 = probe_rows(a["gen"], n_, 4)
                for r, row in enumerate(rows2):
                    for p, bell in enumerate(row):
                        if bell in orc["humans"]:
                            a["events"].append(ev(look2 + 3 + iv_ * (r * n_ + p + (r // 2)) - Fraction(5, 1000)
                                                  + Fraction(20 + (7 * r + 3 * p) % 50, 10 ** 9), "ring", bell))
                a["events"] = sorted_events(a["events"])
                a["horizon"] = fstr(look2 + 3 + iv_ * (4 * n_ + 2) + Fraction(1, 3000))
                holdups = [h for h in holdups if hb[h[0]][0] <= 3][:1] or [(len(hb) // 4, Fraction(1230, 1000) + Fraction(1, 7919))]
                total = sum(d for _j, d in holdups)
                t_first = Fraction(hb[holdups[0][0]][3])
                b_sc = copy.deepcopy(a)
                b_sc["events"] = sorted_events([[fstr(Fraction(t) + (total if Fraction(t) >= t_first else 0)), e]
                                                for t, e in a["events"]])
                b_sc["horizon"] = fstr(Fraction(a["horizon"]) + total)
            else:
                b_sc = perturb_events(a, moves)
                b_sc["horizon"] = fstr(Fraction(a["horizon"]) + total)
                if speed is not None:
                    for item in b_sc["events"]:
                        if item[1][0] == "setting":
                            item[0] = fstr(Fraction(item[0]) + total)
                    b_sc["events"] = sorted_events(b_sc["events"])
            yield {"a": a, "b": b_sc, "pick": "b" if i % 2 else "a",
                   "oracle": dict(orc, two=two, speed=speed, holdups=[[hb[jj][0], hb[jj][1], fstr(d)] for jj, d in holdups],
                                  look2=[fstr(look2), fstr(look2 + total)] if two else None)}

    def cases(self, rng, tier):
        yield from self.scenarios(rng, tier)

    def oracle_C14(self, case, out):
        if "trace" not in out["a"] or "trace" not in out["b"]:
            return None
        la, lb = wheatley_strikes(out["a"]), wheatley_strikes(out["b"])
        hold = [((r, p), Fraction(d)) for r, p, d in case["oracle"]["holdups"]]
        n = case["oracle"]["n"]
        touch, prev = 0, (-1, -1)
        for xa, xb in zip(la, lb):
            (r, p, b, t) = xb
            if xa[:3] != xb[:3]:
                return f"the hold-up changed which bell Wheatley struck (row {r} place {p})"
            if (r, p) < prev:
                touch += 1            # a new touch has begun: every hold-up lies before it
            prev = (r, p)
            # (the humans ring 5 ms before their moment in the punctual run, so a lateness of D holds Wheatley
            # up by D - 5 ms, rounded up to a whole number of 10 ms polling steps)
            before = [dd for ((hr, hp), dd) in hold if touch > 0 or (hr, hp) < (r, p)]
            k = len(before)
            d = sum(before, Fraction(0)) - k * Fraction(case["oracle"].get("early_ms", 5), 1000)
            shift = t - xa[3]
            slack = Fraction(0)
            if case["oracle"].get("speed"):
                # the change of speed is delivered D_human later, Wheatley was held up by D_human - 5 ms rounded up
                # to the polling grid: the two differ by < 6 ms per hold-up, which the new line scales by |1 - i2/i1|
                i1, i2 = Fraction(case["oracle"]["iv"]), blow_interval(case["oracle"]["speed"][1], n)
                slack = k * Fraction(6, 1000) * abs(1 - i2 / i1)
                if t >= Fraction(case["oracle"]["speed"][0]):
                    # the tick that was asleep when the change arrived keeps its old target; when the tower was slowed
                    # down the (punctual) human of that tick then rings after it, in BOTH runs: one more hold-up whose
                    # rounding to the polling grid may differ by one step between the two runs
                    slack += Fraction(1, 100)
            if not (max(d, 0) - TOL - slack <= shift <= max(d, 0) + k * Fraction(1, 100) + TOL + slack):
                return (f"after hold-ups totalling {float(d):.3f}s, the strike of row {r} place {p} came "
                        f"{float(shift):.4f}s later than in the punctual run")
        return None


    def oracle_C13(self, case, out):
        """inertia 1, waiting on: a strike that was late in one touch holds Wheatley up there and then; in the NEXT
        touch, where nobody is waited for, it must have left no trace (judged on the two-touch sessions)."""
        return self.oracle_C14(case, out) if case["oracle"].get("two") else None

    def oracle_C15(self, case, out):
        """second touch of the two-touch sessions: Wheatley rings the first bell of the opening row, so its first strike
        comes exactly 3 s after that Look to - whatever hold-ups the earlier touch saw."""
        if not case["oracle"].get("two") or "trace" not in out["a"] or "trace" not in out["b"]:
            return None
        for nm, look in zip("ab", case["oracle"]["look2"]):
            look = Fraction(look)
            later = [x for x in wheatley_strikes(out[nm]) if x[3] >= look]
            if not later:
                return f"second touch ({nm}): no strike at all after its Look to"
            r, p, b, t = later[0]
            if (r, p) != (0, 0) or abs(t - (look + 3)) > TOL:
                return (f"second touch ({'punctual run' if nm == 'a' else 'run with hold-ups in the first touch'}): Wheatley leads, "
                        f"its first strike (row {r} place {p}) came {float(t - look):.4f}s after Look to instead of 3 s")
        return None


class OriginSuite(PairedSuite):
    """C14 second clause: the same session with the clock's origin moved."""
    name = "clock_origin"
    coq_cap = {"quick": 20, "thorough": 200}

    def scenarios(self, rng, tier):
        for i in range(40 if tier == "quick" else 400):
            kind = rng.choice(["wait", "regression"])
            # (waiting mode with a live regression makes the humans land exactly on Wheatley's polling
            # instants - a knife edge by construction - so the regression is inert there, as in the property)
            a, orc = line_session(rng, kind=kind, inertia=1.0 if kind == "wait" else rng.choice([0.0, 0.5, 1.0]),
                                  initial_inertia=1.0 if kind == "wait" else 0,
                                  ratio=rng.choice([1, Fraction(102, 100)]),
                                  # (waiting mode, human leader: the line is then anchored on that human's own - early -
                                  # strike, so every other early human lands within nanoseconds of the end of one of
                                  # Wheatley's sleeps: below the resolution of a float at 1.8e9 s, a knife edge of ours)
                                  human_leads=False if kind == "wait" else rng.choice([True, False]),
                                  nrows=6, early_ms=5 if kind == "wait" else 0,
                                  jitter_us=0 if kind == "wait" else 100)
            c = rng.choice([1, 1000, 10 ** 6, 1800000000])
            b_sc = shift_scenario(a, Fraction(c))
            yield {"a": a, "b": b_sc, "pick": "b" if (i % 2 and c <= 1000) else "a", "oracle": dict(orc, c=c)}
        for i in range(16 if tier == "quick" else 160):
            # server mode, Wheatley alone, the tower slowed down (or sped up) late in the touch: at an origin near 0
            # the intercept of the new line lies BEFORE the clock's zero - a perfectly good line
            n = rng.choice([4, 6, 8])
            iv0 = blow_interval(180, n)
            look_to = Fraction(rng.randint(5, 60), 100) + Fraction(rng.randint(1, 999), 10 ** 6)
            evs = [ev(0, "global", [True] * n), ev(Fraction(11, 1000), "user_entered", 1, "Wheatley")]
            for b in range(1, n + 1):
                evs.append(ev(Fraction(12, 1000) + Fraction(b, 100000), "assign", b, 1))
            evs.append(ev(Fraction(4, 100), "row_gen", {"type": "method", "stage": n, "notation": "x1"}))
            evs.append(ev(look_to, "call", "Look to"))
            tc = look_to + 3 + iv0 * Fraction(rng.randint(2500, 7000), 100) + Fraction(rng.randint(1, 999), 10 ** 6)
            val = rng.choice([240, 240, 300, 210, 150])
            evs.append(ev(tc, "setting", [["peal_speed", val]]))
            horizon = tc + blow_interval(val, n) * (3 * n) + Fraction(1, 3000)
            rh = {"kind": "wait", "inertia": 1.0, "peal_speed": 180, "gap": 1.0, "max": 15}
            a = base({"kind": "placeholder"}, n, rh, evs, horizon)
            a.update({"name": "Wheatley", "instance": 5, "stop_at_rounds": False})
            c = rng.choice([1000, 10 ** 6, 1800000000])
            yield {"a": a, "b": shift_scenario(a, Fraction(c)), "pick": "a", "oracle": {"c": c, "n": n, "speed": [fstr(tc), val]}}

        for i in range(2 if tier == "quick" else 8):
            # a LONG touch with a live regression (keep-going mode, so no polling step is involved): minutes into the
            # touch the blow times are in the thousands, and at a present-day origin the real times are ~1.8e9.  The
            # strikes must still be those of the same session at origin 0 (judged by the oracle only: hundreds of rows
            # of exact rational regression are out of the kernel's reach).
            nrows = 300 if tier == "quick" else rng.choice([300, 450, 600])
            a, orc = line_session(rng, kind="regression", inertia=rng.choice([0.0, 0.5]), initial_inertia=0,
                                  ratio=rng.choice([1, Fraction(102, 100), Fraction(97, 100)]),
                                  human_leads=rng.choice([True, False]), n=rng.choice([4, 6]), nrows=nrows, jitter_us=100)
            c = 1800000000
            yield {"a": a, "b": shift_scenario(a, Fraction(c)), "pick": "a", "oracle_only": True,
                   "oracle": dict(orc, c=c, long=True)}

    def cases(self, rng, tier):
        yield from self.scenarios(rng, tier)

    def oracle_C14(self, case, out):
        if "trace" not in out["a"] or "trace" not in out["b"]:
            return None
        c = case["oracle"]["c"]
        tol = TOL if c <= 10 ** 6 else Fraction(5, 1000)
        if case["oracle"].get("long"):
            tol = Fraction(2, 1000)             # (no polling in keep-going mode: 2 ms is 8000 ulps of a double at 1.8e9)
        wa, wb = wheatley_strikes(out["a"]), wheatley_strikes(out["b"])
        if [x[:3] for x in wa] != [x[:3] for x in wb][:len(wa)] and c <= 10 ** 6:
            return f"with the clock's origin moved by {c}s Wheatley struck different bells"
        for x, y in zip(wa, wb):
            if x[:3] == y[:3] and abs((y[3] - c) - x[3]) > tol:
                return (f"origin moved by {c}s: strike of row {x[0]} place {x[1]} at offset {float(y[3] - c):.6f}s "
                        f"instead of {float(x[3]):.6f}s")
        return None


# ============================================================================= C10: progress; the main loop never dies
class ProgressSuite(PairedSuite):
    """Closed-loop bands of responsive humans (punctual, lagging, erratic, early), tower-size changes
    between and during touches, both rhythms."""
    name = "progress"
    coq_cap = {"quick": 40, "thorough": 400}

    def scenarios(self, rng, tier):
        for i in range(120 if tier == "quick" else 1200):
            kind = rng.choice(["wait", "wait", "regression"])
            n = rng.choice([4, 5, 6, 8, 10])
            spec = {"kind": "plain_hunt", "stage": n - rng.choice([0, 0, 1]), "custom": None}
            nrows = rng.choice([4, 6, 8])
            rows = probe_rows(spec, n, nrows)
            humans = set(rng.sample(range(2, n + 1), rng.randint(0, n - 2)))
            peal = rng.choice([150, 180, 200])
            iv = blow_interval(peal, n)
            look_to = Fraction(rng.randint(15, 40), 100) + Fraction(1, 1000)
            start = look_to + 3
            evs = [ev(0, "global", [True] * n), ev(Fraction(3, 100), "user_entered", 11, "Alice")]
            for b in sorted(humans):
                evs.append(ev(Fraction(5, 100) + Fraction(b, 10000), "assign", b, 11))
            evs.append(ev(look_to, "call", "Look to"))
            style = rng.choice(["punctual", "lagging", "erratic", "early", "absent" if kind == "regression" else "lagging"])
            shift = Fraction(0)
            shift_at_last = Fraction(0)
            awaited = []
            for r, row in enumerate(rows):
                if r == nrows - 2:
                    shift_at_last = shift
                for p, bell in enumerate(row):
                    if bell not in humans or style == "absent":
                        continue
                    t = start + shift + iv * (r * n + p + (r // 2))
                    if style == "punctual":
                        t -= Fraction(5, 1000)
                    elif style == "lagging":
                        late = Fraction(rng.randint(20, 400), 1000)
                        if kind == "wait":
                            shift += late
                        t += late
                    elif style == "erratic":
                        d = Fraction(rng.randint(-150, 300), 1000)
                        if d > 0 and kind == "wait":
                            shift += d
                        t += d
                    else:
                        t -= iv * Fraction(rng.randint(20, 90), 100)
                    t = max(t, look_to + Fraction(1, 50)) + Fraction(rng.randint(1, 999), 10 ** 7)
                    evs.append(ev(t, "ring", bell))
                    awaited.append([r, p, bell, fstr(t)])
            # assignment churn DURING a row: a human gives a bell up after the row has begun and before that bell's place
            # (and stops ringing it): from that moment it is Wheatley's, and Wheatley rings it when its turn comes
            churn = None
            if style == "punctual" and humans and rng.random() < 0.6:
                hb_ = rng.choice(sorted(humans))
                r0 = rng.randint(1, nrows - 2)
                p0 = rows[r0].index(hb_)
                if p0 >= 2:
                    t_un = start + iv * (r0 * n + (r0 // 2) + Fraction(rng.randint(20, 80), 100) * (p0 - 1))
                    evs = [e for e in evs if not (e[1][0] == "ring" and e[1][1] == hb_ and Fraction(e[0]) > t_un)]
                    awaited = [a for a in awaited if not (a[2] == hb_ and Fraction(a[3]) > t_un)]
                    evs.append(ev(t_un + Fraction(1, 977), "assign", hb_, 0))
                    churn = [hb_, r0]
            # tower-size changes: between touches is covered elsewhere; here DURING the touch
            size_change = None
            if churn is None and rng.random() < 0.35:
                j = rng.randrange(n, (nrows - 1) * n)
                size_change = min(16, max(4, n + rng.choice([-2, -1, 1, 2, 3])))
                evs.append(ev(start + shift + iv * (j + j // (2 * n)) + Fraction(rng.randint(1, 99), 1000), "size", size_change))
            horizon = start + shift + iv * (nrows * n + nrows // 2) + Fraction(1, 2) + Fraction(1, 3000)
            rh = {"kind": kind, "inertia": rng.choice([0.5, 1.0]), "peal_speed": peal, "gap": 1.0, "max": 15}
            if style == "lagging":      # regression inert, so that "one interval after the hold-up" is exact
                rh.update({"inertia": 1.0, "initial_inertia": 1.0})
            second = None
            if size_change is None and churn is None and humans and style in ("lagging", "erratic", "punctual") and rng.random() < 0.5:
                # the band stands and rings a second touch, punctually this time: Wheatley (on the treble) must pull
                # off at Look to + 3 s however much it had to wait in the first touch
                t_stand = start + shift_at_last + iv * ((nrows - 2) * n + (nrows - 2) // 2) + Fraction(1, 1000)
                evs.append(ev(t_stand, "call", "Stand next"))
                t_end = start + shift + iv * (nrows * n + nrows // 2) + 1
                evs.append(ev(t_end, "global", [True] * n))
                humans2 = set(humans)
                if n >= 6 and rng.random() < 0.5:
                    # between the touches the tower is made two bells smaller and then as big as before: whoever held
                    # the two bells that went has lost them (Ringing Room drops those assignments), they are Wheatley's now
                    evs.append(ev(t_end + Fraction(1, 10), "size", n - 2))
                    evs.append(ev(t_end + Fraction(3, 10), "size", n))
                    humans2 = {b for b in humans if b <= n - 2}
                look2 = t_end + Fraction(rng.randint(50, 90), 100) + Fraction(1, 1000)
                evs.append(ev(look2, "call", "Look to"))
                for r, row in enumerate(probe_rows(spec, n, 2)):
                    for p, bell in enumerate(row):
                        if bell in humans2:
                            evs.append(ev(look2 + 3 + iv * (r * n + p) - Fraction(5, 1000) + Fraction(rng.randint(1, 999), 10 ** 7), "ring", bell))
                horizon = look2 + 3 + iv * (2 * n) + Fraction(1, 3000)
                rh.update({"inertia": 1.0, "initial_inertia": 1.0})
                second = [fstr(look2), 2 * (n - len(humans2))]
            a = base(spec, n, rh, evs, horizon)
            yield {"a": a, "oracle": {"n": n, "nrows": nrows, "humans": sorted(humans), "style": style, "kind": kind,
                                      "iv": fstr(iv), "size_change": size_change, "awaited": awaited,
                                      "look_to": fstr(look_to), "second": second, "churn": churn}}

        for i in range(16 if tier == "quick" else 160):
            # Wheatley has rung every bell for some rows (so no row had a human bell to arm).  During a BACKSTROKE row, after
            # bell b has struck, somebody catches hold of b and pulls its next handstroke early - before Wheatley has
            # finished the row - and then rings in step, punctually: nobody is ever behind, the touch goes on
            n = rng.choice([5, 6, 8])
            spec = {"kind": "plain_hunt", "stage": n, "custom": None}
            nrows = 8
            rows = probe_rows(spec, n, nrows)
            peal = rng.choice([150, 180])
            iv = blow_interval(peal, n)
            look_to = Fraction(rng.randint(15, 40), 100) + Fraction(1, 1000)
            start = look_to + 3
            nominal = lambda r, p: start + iv * (r * n + p + (r // 2))          # noqa: E731
            r0 = rng.choice([1, 3])
            early_places = [p for p in range(0, n - 2)]
            p0 = rng.choice(early_places)
            b = rows[r0][p0]
            evs = [ev(0, "global", [True] * n), ev(Fraction(3, 100), "user_entered", 11, "Alice"), ev(look_to, "call", "Look to")]
            t_assign = nominal(r0, p0) + iv * Fraction(rng.randint(30, 60), 100)
            evs.append(ev(t_assign, "assign", b, 11))
            t_first = max(t_assign + Fraction(1, 100), nominal(r0, n - 1) - iv * Fraction(rng.randint(20, 70), 100))
            evs.append(ev(t_first + Fraction(rng.randint(1, 999), 10 ** 7), "ring", b))
            for r in range(r0 + 2, nrows):
                evs.append(ev(nominal(r, rows[r].index(b)) - Fraction(5, 1000) + Fraction(rng.randint(1, 999), 10 ** 7), "ring", b))
            rh = {"kind": "wait", "inertia": 1.0, "initial_inertia": 1.0, "peal_speed": peal, "gap": 1.0, "max": 15}
            horizon = nominal(nrows, 0) + Fraction(1, 2) + Fraction(1, 3000)
            yield {"a": base(spec, n, rh, evs, horizon),
                   "oracle": {"n": n, "nrows": nrows, "humans": [b], "style": "punctual", "kind": "wait", "iv": fstr(iv),
                              "size_change": None, "awaited": [], "look_to": fstr(look_to), "second": None, "churn": None,
                              "joiner": [b, r0]}}

    def cases(self, rng, tier):
        yield from self.scenarios(rng, tier)

    def oracle_C10(self, case, out):
        o = out["a"]
        if "trace" not in o:
            return None
        orc = case["oracle"]
        if o["outcome"][0] == "crashed":
            return f"Wheatley's main loop was killed by {o['outcome'][2]} at {o['outcome'][3]}"
        if orc["size_change"] is not None:
            return None        # after a mid-touch size change only survival is claimed here
        n, iv = orc["n"], Fraction(orc["iv"])
        rows = [(r, b) for (r, b, _t) in rows_rung(o) if len(b) == n]
        if orc.get("churn"):
            hb_, r0 = orc["churn"]
            mine = [x for x in wheatley_strikes(o) if x[2] == hb_ and x[0] >= r0]
            if len(mine) < orc["nrows"] - r0 - 1:
                return (f"bell {hb_} was given up by its ringer during row {r0}, before its place: it is Wheatley's from then on, "
                        f"but Wheatley struck it only {len(mine)} time(s) in the remaining {orc['nrows'] - r0} rows "
                        f"({len(rows)} rows were completed)")
        if len(rows) < orc["nrows"] - 1:
            return (f"{orc['style']} band, {orc['kind']} mode: only {len(rows)} of {orc['nrows']} rows were completed "
                    f"although every human rang every blow")
        ws = wheatley_strikes(o)
        if orc.get("second"):
            look2 = Fraction(orc["second"][0])
            later = [x for x in ws if x[3] >= look2]
            ws = [x for x in ws if x[3] < look2]
            if len(later) < orc["second"][1] - 1:
                return (f"second touch, punctual band: Wheatley struck only {len(later)} of its {orc['second'][1]} blows of the two "
                        f"rows before the end of the session - it is waiting for somebody who is not there")
            if not later:
                return (f"second touch: Wheatley (on the treble) had not struck {float(Fraction(case['a']['horizon']) - look2):.2f}s "
                        f"after Look to; its pull-off was due 3 s after it")
            for (r, p, b, t) in later:
                want = look2 + 3 + iv * (r * n + p)
                if not (want - TOL <= t <= want + Fraction(5, 100)):
                    return (f"second touch, punctual band: row {r} place {p} struck {float(t - want):+.3f}s from its scheduled "
                            f"moment (Look to + 3 s + {r * n + p} intervals)")
        if orc["kind"] == "regression" and orc["style"] == "absent":
            t0 = Fraction(orc["look_to"]) + 3
            for (r, p, b, t) in ws:
                if abs(t - (t0 + iv * (r * n + p + r // 2))) > TOL:
                    return f"keep-going: nobody else rings, yet row {r} place {p} is off the schedule"
        if orc["kind"] == "wait" and orc["style"] == "lagging":
            # every human is late every time: a Wheatley bell that directly follows a human bell is struck one
            # interval after the moment Wheatley saw that bell (<= one 10 ms poll after it rang), + the 2 pauses
            human_t = {(r, p): Fraction(t) for r, p, b, t in orc["awaited"]}
            for (r, p, b, t) in ws:
                th = human_t.get((r, p - 1))
                if th is not None and not (th + iv - TOL <= t <= th + iv + Fraction(3, 100) + TOL):
                    return (f"row {r} place {p}: struck {float(t - th):.3f}s after the (late) human bell it waited for; "
                            f"one interval is {float(iv):.3f}s")
        return None


# ============================================================================= C19: a peal-speed change bends the rhythm without a jump
class SpeedChangeSuite(PairedSuite):
    name = "speed_change"
    coq_cap = {"quick": 30, "thorough": 300}

    def scenarios(self, rng, tier):
        for i in range(80 if tier == "quick" else 800):
            n = rng.choice([6, 8, 10])
            peal0 = 180
            iv0 = blow_interval(peal0, n)
            look_to = Fraction(rng.randint(25, 60), 100) + Fraction(rng.randint(1, 999), 10 ** 6)
            evs = [ev(0, "global", [True] * n), ev(Fraction(11, 1000), "user_entered", 1, "Wheatley")]
            for b in range(1, n + 1):
                evs.append(ev(Fraction(12, 1000) + Fraction(b, 100000), "assign", b, 1))
            evs.append(ev(Fraction(8, 100), "row_gen", {"type": "method", "stage": n, "notation": "x1"}))
            evs.append(ev(look_to, "call", "Look to"))
            nrows = 8
            changes = []
            tcur = look_to + 3
            for _ in range(rng.randint(1, 2)):
                tc = tcur + iv0 * Fraction(rng.randint(150, 2500), 100) + Fraction(rng.randint(1, 999), 10 ** 6)
                val = rng.choice([150, 200, 240, "210", 165.7, 120, 0, -5, "fast", None, True])
                evs.append(ev(tc, "setting", [["peal_speed", val]]))
                changes.append([fstr(tc), val])
                tcur = tc
            horizon = look_to + 3 + 2 * iv0 * (nrows * n) + Fraction(1, 3000)
            rh = {"kind": "wait", "inertia": 1.0, "peal_speed": peal0, "gap": 1.0, "max": 15}
            a = base({"kind": "placeholder"}, n, rh, evs, horizon)
            a.update({"name": "Wheatley", "instance": 5, "stop_at_rounds": False})
            yield {"a": a, "oracle": {"n": n, "look_to": fstr(look_to), "changes": changes}}

    def cases(self, rng, tier):
        yield from self.scenarios(rng, tier)

    def oracle_C19(self, case, out):
        o = out["a"]
        if "trace" not in o:
            return None
        orc = case["oracle"]
        n = orc["n"]
        start, iv = Fraction(orc["look_to"]) + 3, blow_interval(180, n)
        effective = []
        for tc, val in orc["changes"]:
            if isinstance(val, bool):
                v = int(val)
            elif isinstance(val, (int, float)):
                v = int(val)
            elif isinstance(val, str) and val.isdigit():
                v = int(val)
            else:
                continue
            if v > 0:
                effective.append((Fraction(tc), v))
        waits = {}
        for it in o["trace"]:
            if it[1] == "r_wait":
                waits[(it[4], it[5])] = Fraction(it[0])
        lines = [(Fraction(-1), start, iv)]
        for tc, v in effective:
            _t, s, i = lines[-1]
            pos = (tc - s) / i                       # the blow position of the instant of the change
            i2 = blow_interval(v, n)
            lines.append((tc, tc - pos * i2, i2))
        for (r, p, b, t) in wheatley_strikes(o):
            tb = waits.get((r, p))
            if tb is None:
                continue
            line = [l for l in lines if l[0] < tb][-1]
            # a tick that was already asleep when the setting arrived keeps its old target
            if any(tb < tc <= t for tc, _v in effective):
                continue
            want = line[1] + line[2] * (r * n + p + r // 2)
            if abs(t - want) > TOL and want > tb:
                return (f"after the peal-speed change(s) {orc['changes']} the strike of row {r} place {p} came at "
                        f"{float(t):.5f}s, a line through the position of the change gives {float(want):.5f}s")
        return None
