"""Correspondence suites for the pure row-generation layer (permute, starting rows, place notation,
generator histories).  Each suite produces cases, runs the implementation from /repo's working tree,
renders (case, observed output) as a Gallina term for the in-kernel checker, and offers
model-independent oracles per property."""
import itertools
import json
import types

import coqfmt as F

BELL_NAMES = "1234567890ETABCD"
IMPORTS = "From Wh Require Import Prelude Permute PN Gens Complib CorrGens.\nFrom Coq Require Import NArith ZArith QArith.\nOpen Scope nat_scope."


def bell_nums(row):
    return [b.number for b in row]


# ======================================================================= reference semantics
def textbook_change(stage, placeset):
    """The change a place set denotes, from the textbook definition: named places are made, the
    implicit external places are added, every other bell swaps with its neighbour.  Returns the
    position map as a list `src` with new[i] = old[src[i]], or None when the place set is not
    parity-consistent with the stage."""
    fixed = set(p for p in placeset if 1 <= p <= stage)
    if placeset and min(placeset) % 2 == 0:
        fixed.add(1)
    src = list(range(stage))
    i = 1
    while i <= stage:
        if i in fixed:
            i += 1
        elif i + 1 <= stage and (i + 1) not in fixed:
            src[i - 1], src[i] = i, i - 1
            i += 2
        elif i == stage:  # implicit place at the back
            i += 1
        else:
            return None
    return src


def apply_change(src, row):
    return [row[s] for s in src] + list(row[len(src):])


# ======================================================================= permute
class PermuteSuite:
    name = "permute"
    case_type = "permute_case"
    chk = "chk_permute"
    imports = IMPORTS
    shard = 250

    def cases(self, rng, tier):
        top = 16 if tier == "thorough" else 10
        for stage in range(0, top + 1):
            for bits in range(1 << stage):
                pl = [i + 1 for i in range(stage) if bits >> i & 1]
                yield {"stage": stage, "places": pl, "row": list(range(1, stage + 1))}
                if bits % 7 == 3 or stage <= 6:
                    extra = rng.randint(0, 3)
                    row = list(range(1, min(16, stage + extra) + 1))
                    rng.shuffle(row)
                    yield {"stage": stage, "places": pl, "row": row}
        n_rand = 20000 if tier == "thorough" else 3000
        for _ in range(n_rand):
            stage = rng.randint(0, 16)
            kind = rng.random()
            if kind < 0.6:
                pl = sorted(rng.sample(range(1, stage + 1), rng.randint(0, stage))) if stage else []
            elif kind < 0.8:  # unsorted / duplicated / out of range / zero
                pl = [rng.randint(0, 18) for _ in range(rng.randint(0, 6))]
            else:
                pl = sorted(set(rng.randint(1, 16) for _ in range(rng.randint(1, 5))))
            ln = stage + rng.choice([0, 0, 0, 1, 2, 5, -1, -2]) if kind < 0.9 else rng.randint(0, 16)
            ln = max(0, min(16, ln))
            row = rng.sample(range(1, 17), ln)
            yield {"stage": stage, "places": pl, "row": row}

    def run_impl(self, case):
        from wheatley.row_generation.row_generator import RowGenerator
        from wheatley.bell import Bell
        row = [Bell.from_number(b) for b in case["row"]]
        try:
            out = RowGenerator.permute(types.SimpleNamespace(stage=case["stage"]), row, list(case["places"]))
            return {"ok": bell_nums(out)}
        except Exception as e:  # pylint: disable=broad-except
            return {"err": F.exn_kind(e)}

    def to_coq(self, case, out):
        exp = F.ok(F.natlist(out["ok"])) if "ok" in out else F.err(out["err"])
        return F.pair(F.nat(case["stage"]), F.natlist(case["places"]), F.natlist(case["row"]), exp)

    def key(self, case):
        return json.dumps(case, sort_keys=True)

    def nontrivial(self, case, out):
        return "ok" in out and out["ok"] != case["row"]

    # ---- oracles
    def oracle_C01(self, case, out):
        if len(case["row"]) >= case["stage"]:
            if "ok" not in out:
                return f"permute raised {out['err']} on a row at least as long as the stage"
            if sorted(out["ok"]) != sorted(case["row"]) or len(out["ok"]) != len(case["row"]):
                return "permute output is not a permutation of its input"
        return None

    def oracle_C03(self, case, out):
        if "ok" not in out or len(case["row"]) < case["stage"]:
            return None
        old, new, stage = case["row"], out["ok"], case["stage"]
        if len(set(old)) != len(old) or len(new) != len(old):
            return None
        for i, b in enumerate(new):
            j = old.index(b) if b in old else None
            if j is None or abs(i - j) > 1:
                return f"bell {b} jumped from place {None if j is None else j + 1} to {i + 1}"
            if i >= stage and j != i:
                return f"cover bell {b} moved"
        pl = case["places"]
        if pl == sorted(set(pl)) and all(1 <= p <= stage for p in pl):
            src = textbook_change(stage, pl)
            if src is not None:
                want = apply_change(src, old)
                for p in pl:
                    if new[p - 1] != old[p - 1]:
                        return f"place {p} named in the notation was not made"
                if new != want:
                    return "change differs from the textbook change of this place set"
        return None

    oracle_C02 = oracle_C03


# ======================================================================= generate_starting_row
class StartRowSuite:
    name = "start_row"
    case_type = "start_row_case"
    chk = "chk_start_row"
    imports = IMPORTS

    def cases(self, rng, tier):
        alphabet = BELL_NAMES + "xZ "
        yield {"n": 6, "s": None}
        for n in range(0, 19):
            yield {"n": n, "s": None}
        maxlen = 3 if tier == "quick" else 4
        short = "12345ET" + "x"
        for ln in range(0, maxlen + 1):
            for tup in itertools.product(short, repeat=ln):
                yield {"n": rng.randint(0, 17), "s": "".join(tup)}
        for _ in range(3000 if tier == "quick" else 20000):
            k = rng.randint(1, 16)
            r = rng.random()
            if r < 0.6:
                row = list(BELL_NAMES[:k])
                rng.shuffle(row)
                s = "".join(row)
            elif r < 0.8:
                s = "".join(rng.sample(BELL_NAMES, rng.randint(0, 16)))
            else:
                s = "".join(rng.choice(alphabet) for _ in range(rng.randint(0, 8)))
            yield {"n": rng.randint(0, 18), "s": s}

    def run_impl(self, case):
        from wheatley.row_generation.helpers import generate_starting_row
        try:
            return {"ok": bell_nums(generate_starting_row(case["n"], case["s"]))}
        except Exception as e:  # pylint: disable=broad-except
            return {"err": F.exn_kind(e)}

    def to_coq(self, case, out):
        exp = F.ok(F.natlist(out["ok"])) if "ok" in out else F.err(out["err"])
        return F.pair(F.nat(case["n"]), F.opt(case["s"], F.ustr), exp)

    def key(self, case):
        return json.dumps(case, sort_keys=True)

    def nontrivial(self, case, out):
        return "ok" in out and case["s"] not in (None, "")

    def oracle_C01(self, case, out):
        if "ok" in out:
            r = out["ok"]
            if len(set(r)) != len(r):
                return "starting row contains a bell twice"
            if not all(b in r for b in range(1, case["n"] + 1)):
                return "starting row omits a tower bell"
        return None


# ======================================================================= place notation strings
def render_block(rng, tokens, stage_hint=None):
    """Render a token list (each [] for a cross or an ascending list of places) with random
    optional dots around crosses and random x/-."""
    out = ""
    prev_place = False
    for t in tokens:
        if not t:
            out += "." * rng.choice([0, 0, 0, 1, 2]) + rng.choice("x-") + "." * rng.choice([0, 0, 0, 1, 2])
            prev_place = False
        else:
            if prev_place:
                out += "."
            out += "".join(BELL_NAMES[p - 1] for p in t)
            prev_place = True
    return out


def random_change(rng, stage):
    """A parity-consistent place set for the stage (mostly), or a cross on even stages."""
    if stage % 2 == 0 and rng.random() < 0.4:
        return []
    if stage % 2 == 1 and rng.random() < 0.08:
        return []          # a cross on an odd stage: the last bell makes the implicit place
    for _ in range(20):
        pl = sorted(rng.sample(range(1, stage + 1), rng.randint(1, min(stage, 4))))
        if textbook_change(stage, pl) is not None:
            return pl
    return [1, stage] if stage % 2 == 0 else [1]


def random_notation(rng, stage, max_len=12):
    """(string, expected list of changes computed directly from the tokens, by the grammar's
    declarative expansion - independent of both the model and the implementation)."""
    nblocks = rng.choice([1, 1, 1, 2, 2, 3])
    pieces, expanded = [], []
    for _ in range(nblocks):
        toks = [random_change(rng, stage) for _ in range(rng.randint(1, max_len))]
        # a block may not start/end in a way that strip() would damage: fine for tokens
        s = render_block(rng, toks)
        if nblocks > 1:
            prefix = rng.choice(["", "", "&", "+"])
            sym = prefix != "+"
        else:
            prefix = rng.choice(["", "", "&", "+"])
            sym = prefix == "&"
        # blanks are only rendered where the documented syntax is indifferent to them: after the
        # block (a blank BEFORE '&'/'+' hides the marker from startswith() and is not grammar)
        pieces.append(prefix + s + " " * rng.choice([0, 0, 0, 1]))
        expanded += toks + (list(reversed(toks[:-1])) if sym else [])
    return ",".join(pieces), expanded


def malformed_string(rng):
    pool = BELL_NAMES + "xX-.,&+ :/etabcd²٣Ⅳ½z\t"
    return "".join(rng.choice(pool) for _ in range(rng.randint(0, 10)))


class PNStringSuite:
    name = "pn_strings"
    case_type = "pn_case"
    chk = "chk_pn"
    imports = IMPORTS

    def cases(self, rng, tier):
        fixed = ["", "x", "-", "x1", "x1x1x1,2", "&x1x1x1,2", "&-1-1-1,+2", "1...2", "x1...2.-", "..",
                 "x..x", "--", "x1xe", "14", "3.1.5.3.1.3.1.3.5.1.3.1", "+x", "&", "+", ",", "x,",
                 " x1 ", "1.x.2", "x.1.x.2", "34.16-12", "&x18x18x18x18,12"]
        for s in fixed:
            yield {"s": s, "expanded": None}
        alpha = "x-.1 2&+,"
        maxlen = 4 if tier == "quick" else 5
        for ln in range(1, maxlen + 1):
            for tup in itertools.product(alpha, repeat=ln):
                yield {"s": "".join(tup), "expanded": None}
        for _ in range(3000 if tier == "quick" else 30000):
            stage = rng.randint(2, 16)
            s, expanded = random_notation(rng, stage)
            yield {"s": s, "expanded": expanded, "stage": stage}
        for _ in range(1500 if tier == "quick" else 10000):
            yield {"s": malformed_string(rng), "expanded": None}

    def run_impl(self, case):
        from wheatley.row_generation.helpers import convert_pn, valid_pn
        out = {}
        try:
            out["conv"] = [list(c) for c in convert_pn(case["s"])]
        except Exception as e:  # pylint: disable=broad-except
            out["conv_err"] = F.exn_kind(e)
        try:
            out["valid"] = bool(valid_pn(case["s"]))
        except Exception as e:  # pylint: disable=broad-except
            out["valid"] = None
            out["valid_err"] = F.exn_kind(e)
        return out

    def to_coq(self, case, out):
        if "conv" in out:
            conv = F.ok(F.lst(F.natlist(c) for c in out["conv"]))
        else:
            conv = F.err(out["conv_err"])
        # a validator that raises is rendered as a value the model can never produce
        valid = F.boolean(out["valid"]) if out["valid"] is not None else "(negb (valid_pn (@nil N)))"
        return F.pair(F.ustr(case["s"]), conv, valid)

    def key(self, case):
        return case["s"]

    def nontrivial(self, case, out):
        return "conv" in out and len(out["conv"]) > 1

    def oracle_C02(self, case, out):
        if case.get("expanded") is not None:
            if "conv" not in out:
                return f"grammar string {case['s']!r} was rejected ({out['conv_err']})"
            if out["conv"] != case["expanded"]:
                return f"grammar string {case['s']!r} converted to {out['conv']} instead of {case['expanded']}"
        return None

    def oracle_C18(self, case, out):
        if out.get("valid") is None:
            return f"valid_pn raised {out.get('valid_err')} on {case['s']!r}"
        if out["valid"] and "conv" not in out:
            return f"valid_pn accepted {case['s']!r} but convert_pn raised {out['conv_err']}"
        return None


# ======================================================================= generator histories
def fake_requests_get(payload_text, status=200, log=None):
    class Resp:  # pylint: disable=too-few-public-methods
        status_code = status
        text = payload_text

        def raise_for_status(self):
            if self.status_code >= 400:
                import requests
                raise requests.HTTPError(str(self.status_code))

    def get(url, params=None, timeout=None, **_kw):
        if log is not None:
            log.append((url, params))
        return Resp()

    return get


def random_call_def(rng, stage, lead_len, default_ok=True):
    if default_ok and rng.random() < 0.3:
        return None
    d = {}
    for _ in range(rng.randint(0, 3)):
        pos = rng.randint(-2 * lead_len, 2 * lead_len)
        # (crosses included: a cross is the EMPTY place list, which is falsy in Python)
        toks = [random_change(rng, stage) for _ in range(rng.randint(1, 4))]
        d[pos] = tokens_to_str(toks)
    return d


def random_custom_row(rng, stage):
    r = rng.random()
    if r < 0.6:
        return None
    if r < 0.75:   # longer than the stage: the extra bells are covers inside the generator's own rows
        k = rng.randint(stage, 16)
    else:
        k = rng.randint(1, stage) if stage else 0
    row = list(BELL_NAMES[:k])
    rng.shuffle(row)
    return "".join(row)


def random_payload(rng, stage=None):
    stage = stage or rng.randint(4, 16)
    rounds = BELL_NAMES[:stage]
    n0 = rng.choice([1, 1, 2, 2, 3])
    nrows = rng.randint(0, 40)
    calls_pool = ["", "", "", "", "Bob", "Single", "Go Plain Bob", "That's all", "Stand", " Bob ; Single ",
                  "Stand;That's all", "Bob;", "s", "-", "Go Cambridge", "Bob; Stand", " Stand", "Stand ; Single"]
    rows = [[rounds, rng.choice(calls_pool[:8] + ["Go Original", "Single; Go Erin"]), 0] for _ in range(n0)]
    cur = list(rounds)
    for i in range(nrows):
        j = rng.randrange(stage - 1)
        if i % 2 == 0:
            for k in range(0, stage - 1, 2):
                cur[k], cur[k + 1] = cur[k + 1], cur[k]
        else:
            for k in range(1, stage - 1, 2):
                cur[k], cur[k + 1] = cur[k + 1], cur[k]
        if rng.random() < 0.1:
            cur[j], cur[j + 1] = cur[j + 1], cur[j]
        if "".join(cur) == rounds and i == 0:
            cur[0], cur[1] = cur[1], cur[0]
        rows.append(["".join(cur), rng.choice(calls_pool), rng.randint(0, 7)])
    if nrows == 0:
        r2 = list(rounds)
        r2[0], r2[1] = r2[1], r2[0]
        rows.append(["".join(r2), rng.choice(calls_pool), 0])
    if rng.random() < 0.5:
        rows.append([rounds, rng.choice(["", "That's all", "That's all;Stand", "That's all; Stand"]), 0])
    return {"stage": stage, "title": "T", "rows": rows}


def random_spec(rng):
    r = rng.random()
    if r < 0.45:
        stage = rng.randint(2, 16)
        s, _ = random_notation(rng, stage, max_len=rng.choice([2, 4, 8, 12]))
        ll = 1
        return {"kind": "pn", "stage": stage, "method": s,
                "bob": random_call_def(rng, stage, 8), "single": random_call_def(rng, stage, 8),
                "start_index": rng.randint(-40, 40) if rng.random() < 0.6 else 0,
                "custom": random_custom_row(rng, stage)}
    if r < 0.55:
        stage = rng.randint(1, 16)
        return {"kind": "plain_hunt", "stage": stage, "custom": random_custom_row(rng, stage)}
    if r < 0.65:
        stage = rng.choice([6, 6, 6, 8, 5, 7])
        plain = None
        if rng.random() < 0.3:
            plain = {0: ["x", "1"], rng.randint(1, stage): ["x", rng.choice(["2", "4", "1"])]}
        return {"kind": "dixon", "stage": stage, "plain": plain, "bob": None, "single": None,
                "custom": random_custom_row(rng, stage)}
    if r < 0.78:
        stage = rng.randint(5, 16)
        return {"kind": "grandsire", "stage": stage, "custom": random_custom_row(rng, stage)}
    if r < 0.9:
        stage = rng.choice([5, 7, 9, 11, 13, 15])
        return {"kind": "stedman", "stage": stage, "custom": random_custom_row(rng, stage)}
    return {"kind": "complib", "payload": random_payload(rng)}


def build_impl_generator(spec):
    from wheatley.row_generation import (PlaceNotationGenerator, PlainHuntGenerator, DixonoidsGenerator,
                                         ComplibCompositionGenerator)
    from wheatley.row_generation import complib_composition_generator as ccg
    k = spec["kind"]
    intkeys = lambda d: None if d is None else {int(a): b for a, b in d.items()}  # noqa: E731
    if k == "pn":
        return PlaceNotationGenerator(spec["stage"], spec["method"], intkeys(spec["bob"]), intkeys(spec["single"]),
                                      spec["start_index"], spec["custom"])
    if k == "xml":
        # the --method path: the definition is fetched as CCCBR XML (faked) and parsed by the product
        from wheatley.row_generation import method_place_notation_generator as mpg
        from wheatley.row_generation import MethodPlaceNotationGenerator
        old = mpg.requests.get
        mpg.requests.get = fake_requests_get(spec["xml"])
        try:
            return MethodPlaceNotationGenerator("Some Title Minor", intkeys(spec["bob"]), intkeys(spec["single"]),
                                                spec["custom"], spec["start_index"])
        finally:
            mpg.requests.get = old
    if k == "plain_hunt":
        return PlainHuntGenerator(spec["stage"], spec["custom"])
    if k == "dixon":
        return DixonoidsGenerator(spec["stage"], intkeys(spec["plain"]), intkeys(spec["bob"]),
                                  intkeys(spec["single"]), spec["custom"])
    if k == "grandsire":
        return PlaceNotationGenerator.grandsire(spec["stage"], spec["custom"])
    if k == "stedman":
        return PlaceNotationGenerator.stedman(spec["stage"], spec["custom"])
    if k == "complib":
        old = ccg.requests.get
        ccg.requests.get = fake_requests_get(json.dumps(spec["payload"]))
        try:
            return ComplibCompositionGenerator(1)
        finally:
            ccg.requests.get = old
    raise ValueError(k)


def calldef_coq(d):
    return F.opt(d, lambda dd: F.lst(F.pair(F.z(int(a)), F.ustr(b)) for a, b in dd.items()))


def rules_coq(d):
    return F.opt(d, lambda dd: F.lst(F.pair(F.nat(int(a)), F.pair(F.ustr(b[0]), F.ustr(b[1]))) for a, b in dd.items()))


def payload_coq(p):
    rows = F.lst(F.pair(F.ustr(r[0]), F.ustr(r[1])) for r in p["rows"])
    return f"{{| pl_stage := {F.nat(p['stage'])}; pl_rows := {rows} |}}"


def spec_coq(spec):
    k = spec["kind"]
    cust = F.opt(spec.get("custom"), F.ustr)
    if k in ("pn", "xml"):
        return (f"(SPN {spec['stage']} {F.ustr(spec['method'])} {calldef_coq(spec['bob'])} "
                f"{calldef_coq(spec['single'])} {F.z(spec['start_index'])} {cust})")
    if k == "plain_hunt":
        return f"(SPlainHunt {spec['stage']} {cust})"
    if k == "dixon":
        return (f"(SDixon {spec['stage']} {rules_coq(spec['plain'])} {rules_coq(spec['bob'])} "
                f"{rules_coq(spec['single'])} {cust})")
    if k == "grandsire":
        return f"(SGrandsire {spec['stage']} {cust})"
    if k == "stedman":
        return f"(SStedman {spec['stage']} {cust})"
    if k == "complib":
        return f"(SComplib {payload_coq(spec['payload'])})"
    raise ValueError(k)


def ops_coq(ops):
    def one(o):
        if o == "bob":
            return "OpBob"
        if o == "single":
            return "OpSingle"
        if o == "reset":
            return "OpReset"
        return f"(OpNext {F.boolean(o == 'H')})"
    return F.lst(one(o) for o in ops)


def random_ops(rng, n, p_call=0.08, p_reset=0.01, both=False):
    ops, idx, pending = [], 0, None
    for _ in range(n):
        r = rng.random()
        if r < p_call:
            c = rng.choice(["bob", "single"])
            if both or pending in (None, c):
                ops.append(c)
                pending = c
        elif r < p_call + p_reset:
            ops.append("reset")
            idx, pending = 0, None
        else:
            # strokes normally alternate; a touch may start on either stroke
            ops.append("H" if idx % 2 == 0 else "B")
            idx += 1
            if rng.random() < 0.15:
                pending = None
    return ops


def run_ops(gen, ops):
    from wheatley.stroke import Stroke
    rows = []
    for o in ops:
        if o == "bob":
            gen.set_bob()
        elif o == "single":
            gen.set_single()
        elif o == "reset":
            gen.reset()
        else:
            try:
                row, calls = gen.next_row_and_calls(Stroke(o == "H"))
            except Exception as e:  # pylint: disable=broad-except
                return rows, F.exn_kind(e)
            rows.append([bell_nums(row), list(calls)])
    return rows, None


class GenHistorySuite:
    name = "gen_histories"
    case_type = "gen_case"
    chk = "chk_gen"
    imports = IMPORTS
    shard = 25

    def __init__(self, mode="mixed"):
        self.mode = mode

    def cases(self, rng, tier):
        n = 600 if tier == "quick" else 6000
        for _ in range(n):
            spec = random_spec(rng)
            ops = random_ops(rng, rng.choice([10, 40, 120, 300]), both=rng.random() < 0.1)
            yield {"spec": spec, "ops": ops}
        # start on a backstroke / odd strokes for stroke-sensitive generators
        for _ in range(n // 10):
            spec = random_spec(rng)
            ops = [rng.choice(["H", "B", "bob", "single"]) for _ in range(30)]
            yield {"spec": spec, "ops": ops}
        # the built-in methods on every supported stage, plain courses (judged against their textbook notation)
        for stage in range(3, 17):
            for kind in ("plain_hunt", "grandsire", "stedman"):
                if (kind == "grandsire" and stage < 5) or (kind == "stedman" and (stage < 5 or stage % 2 == 0)):
                    continue
                k = 2 * stage + 7 if kind != "stedman" else 31
                ops = ["H" if i % 2 == 0 else "B" for i in range(k)]
                if rng.random() < 0.5:
                    ops = ops[:rng.randint(3, k - 1)] + ["reset"] + ops[:12]
                yield {"spec": {"kind": kind, "stage": stage, "custom": random_custom_row(rng, stage) if rng.random() < 0.3 else None},
                       "ops": ops}

    def run_impl(self, case):
        try:
            g = build_impl_generator(case["spec"])
        except Exception as e:  # pylint: disable=broad-except
            return {"ctor_err": F.exn_kind(e)}
        rows, ex = run_ops(g, case["ops"])
        return {"rows": rows, "exn": ex, "start_row": bell_nums(g.start_row), "stage": g.stage}

    def to_coq(self, case, out):
        if "ctor_err" in out:
            exp = F.err(out["ctor_err"])
        else:
            rows = F.lst(F.pair(F.natlist(r), F.lst(F.ustr(c) for c in cs)) for r, cs in out["rows"])
            exp = F.ok(F.pair(rows, F.opt(out["exn"], lambda e: e)))
        return F.pair(spec_coq(case["spec"]), ops_coq(case["ops"]), exp)

    def key(self, case):
        return json.dumps(case, sort_keys=True)

    def nontrivial(self, case, out):
        return "rows" in out and len(out["rows"]) >= 5

    def oracle_C01(self, case, out):
        if "rows" not in out:
            return None
        want = sorted(out["start_row"])
        if case["spec"]["kind"] == "complib":
            want = list(range(1, out["stage"] + 1))
        for i, (r, _) in enumerate(out["rows"]):
            if sorted(r) != want:
                return f"row {i} = {r} is not a complete row on {want}"
        if out["exn"] is not None and case["spec"]["kind"] != "complib":
            return f"generator raised {out['exn']}"
        return None

    def oracle_C02(self, case, out):
        """the built-in methods, by their textbook notation: Plain Hunt x.1n / n.1, Grandsire 3.1.n.1.n.1... (x for n on
        even stages) over 2n changes, Stedman 3.1.n.3.1.3.1.3.n.1.3.1 - n being the LAST PLACE of the stage"""
        spec = case["spec"]
        if spec["kind"] not in ("plain_hunt", "grandsire", "stedman") or "rows" not in out:
            return None
        if any(o in ("bob", "single") for o in case["ops"]):
            return None
        n = spec["stage"]
        last = [n] if n % 2 else []
        if spec["kind"] == "plain_hunt":
            expanded = [[], [1, n]] if n % 2 == 0 else [[n], [1]]
        elif spec["kind"] == "grandsire":
            expanded = [[3]] + [([1] if i % 2 else last) for i in range(1, 2 * n)]
        else:
            expanded = [[3], [1], [n], [3], [1], [3], [1], [3], [n], [1], [3], [1]]
        want, seg = [], []
        for o in list(case["ops"]) + ["reset"]:
            if o == "reset":
                part = reference_rows(n, out["start_row"], expanded, {}, {}, 0, seg)
                if part is None:
                    return None
                want += part
                seg = []
            else:
                seg.append("next")
        got = [r for r, _ in out["rows"]]
        for i, (g, w) in enumerate(zip(got, want)):
            if g != w:
                return f"{spec['kind']} on {n}: row {i} is {g}, the method's notation gives {w}"
        return None

    def oracle_C04(self, case, out):
        """Rule-driven (Dixonoid) generators: a pending call acts at the next lead of a bell for which it is defined, for
        the whole pull it is defined for (handstroke and backstroke change), and only then is used up."""
        spec = case["spec"]
        if spec["kind"] != "dixon" or "rows" not in out:
            return None
        stage = spec["stage"]

        def conv(d, dflt):
            d = dflt if d is None else d
            return {int(k): [[] if x in ("x", "-") else [BELL_NAMES.index(ch) + 1 for ch in x] for x in v] for k, v in d.items()}
        plain = conv(spec["plain"], {0: ["x", "1"], 1: ["x", "2"], 2: ["x", "4"], 4: ["x", "4"]})
        rules = {"bob": conv(spec["bob"], {1: ["x", "4"]}), "single": conv(spec["single"], {1: ["x", "1234"]})}
        row = list(out["start_row"])
        pending = None
        got = iter(out["rows"])
        for k, o in enumerate(case["ops"]):
            if o == "reset":
                row, pending = list(out["start_row"]), None
            elif o in ("bob", "single"):
                if pending is not None and pending != o:
                    return None                 # both pending: outside the property's quantifier
                pending = o
            else:
                nxt = next(got, None)
                if nxt is None:
                    break
                idx = 0 if o == "H" else 1
                lead = row[0]
                if pending is not None and rules[pending].get(lead):
                    pl = rules[pending][lead][idx]
                    if idx == 1:
                        pending = None
                elif plain.get(lead):
                    pl = plain[lead][idx]
                else:
                    pl = plain[0][idx]
                src = textbook_change(stage, pl)
                if src is None:
                    return None
                row = apply_change(src, row)
                if nxt[0] != row:
                    return (f"operation {k} ({o}): the rules give {row} but {nxt[0]} was generated "
                            f"(call pending before this change: {pending or 'none'})")
        return None

    def oracle_C03(self, case, out):
        if "rows" not in out or case["spec"]["kind"] == "complib":
            return None
        prev = out["start_row"]
        ops_rows = iter(out["rows"])
        for o in case["ops"]:
            if o == "reset":
                prev = out["start_row"]
            elif o in ("H", "B"):
                nxt = next(ops_rows, None)
                if nxt is None:
                    break
                r = nxt[0]
                for i, b in enumerate(r):
                    if abs(prev.index(b) - i) > 1:
                        return f"bell {b} moved more than one place between {prev} and {r}"
                prev = r
        # rule-driven methods: the places named by the rule in force for each change are made (the rule-level reference
        # of C04 decides which rule that is; it abstains when a Bob and a Single are pending together)
        msg = self.oracle_C04(case, out)
        return msg and "the places named by the rule for this change are not made: " + msg


# ======================================================================= reference interpreter (C02, C04)
def reference_rows(stage, start_row, method, bobs, singles, start_index, history):
    """Rows from the textbook definition.  `method` is a list of place sets, `bobs`/`singles` map a
    lead index to a list of place sets.  `history` is a list of 'bob' | 'single' | 'next'.
    A call made before the k-th change fires at the least index f >= k whose lead index carries a
    definition of it; changes f .. f+len-1 are the call's.  Returns None when some change is not
    parity-consistent (outside the claim)."""
    L = len(method)
    n_next = sum(1 for h in history if h == "next")
    plan = {}          # change index -> place set overriding the method
    k = 0
    pending = None
    busy_until = -1
    for h in history:
        if h in ("bob", "single"):
            if pending is not None and pending != h:
                return None                       # both pending: outside the property's quantifier
            pending = h
            continue
        if pending is not None:
            d = bobs if pending == "bob" else singles
            li = (k + start_index) % L
            if li in d:
                for j, pl in enumerate(d[li]):
                    plan[k + j] = pl
                # anything the interrupted call still had planned beyond the new one is dropped
                for j in list(plan):
                    if j >= k + len(d[li]):
                        del plan[j]
                pending = None
        k += 1
    rows, row = [], list(start_row)
    for i in range(n_next):
        pl = plan.get(i, method[(i + start_index) % L])
        src = textbook_change(stage, pl)
        if src is None:
            return None
        row = apply_change(src, row)
        rows.append(list(row))
    return rows


def tokens_to_str(toks):
    return ".".join("x" if not t else "".join(BELL_NAMES[p - 1] for p in t) for t in toks)


class MethodRowsSuite:
    """C02/C04/C05: place-notation generators built from grammar strings; histories with calls at
    every offset of a lead; rows compared with the model AND with the reference interpreter."""
    name = "method_rows"
    case_type = "gen_case"
    chk = "chk_gen"
    imports = IMPORTS
    shard = 25

    def __init__(self, with_calls=True, with_reset=False):
        self.with_calls = with_calls
        self.with_reset = with_reset
        if not with_calls and not with_reset:
            self.name = "plain_method_rows"

    def one(self, rng, with_calls):
        stage = rng.randint(3, 16)
        s, expanded = random_notation(rng, stage, max_len=rng.choice([1, 2, 3, 6, 10]))
        L = len(expanded)
        bobs, singles, bob_def, single_def = {}, {}, {}, {}
        if with_calls:
            for d, dd in ((bobs, bob_def), (singles, single_def)):
                # (no position at all - as Stedman Doubles has for Bobs - means that the call never acts)
                for _ in range(rng.choice([0, 1, 1, 1, 2, 2])):
                    pos = rng.randint(-2 * L, 2 * L)
                    # (crosses included: a cross is the EMPTY place list, which is falsy in Python)
                    d[pos] = [random_change(rng, stage) for _ in range(rng.randint(1, 4))]
                for pos, toks in d.items():
                    dd[pos] = tokens_to_str(toks)
        start_index = rng.randint(-3 * L, 3 * L) if rng.random() < 0.7 else 0
        custom = random_custom_row(rng, stage)
        spec = {"kind": "pn", "stage": stage, "method": s, "bob": bob_def if with_calls else None,
                "single": single_def if with_calls else None, "start_index": start_index, "custom": custom}
        ref = {"expanded": expanded, "bobs": {str(k): v for k, v in bobs.items()},
               "singles": {str(k): v for k, v in singles.items()}}
        return spec, ref, L

    def cases(self, rng, tier):
        n = 250 if tier == "quick" else 3000
        for _ in range(n):
            spec, ref, L = self.one(rng, self.with_calls)
            nrows = min(3 * L + 5, 150)
            ops = []
            pending = None
            offs = rng.randrange(L)
            for i in range(nrows):
                if self.with_calls and (i % L == offs or rng.random() < 0.05):
                    c = rng.choice(["bob", "single"])
                    if pending in (None, c):
                        ops.append(c)
                        pending = c
                ops.append("H" if i % 2 == 0 else "B")
                if rng.random() < 0.3:
                    pending = None   # (the reference tracks the truth; this only thins the calls)
            if self.with_reset:
                # stop the first touch anywhere (also in the middle of a multi-change call), then
                # ring a second touch that makes calls of its own at the same kind of positions
                cut = rng.randrange(1, len(ops))
                second = ops if rng.random() < 0.5 else [o for o in ops if o in ("H", "B")]
                ops = ops[:cut] + ["reset"] + second[: 4 * L + 6]
            yield {"spec": spec, "ops": ops, "ref": ref}

    def run_impl(self, case):
        out = GenHistorySuite.run_impl(self, case)
        if self.with_reset and "rows" in out:
            # model-independent oracle for C05: a freshly constructed generator given only the
            # operations after the reset
            cut = case["ops"].index("reset")
            g = build_impl_generator(case["spec"])
            rows, ex = run_ops(g, case["ops"][cut + 1:])
            out["fresh_rows"] = rows
            out["n_before_reset"] = sum(1 for o in case["ops"][:cut] if o in ("H", "B"))
        return out

    def to_coq(self, case, out):
        return GenHistorySuite.to_coq(self, case, out)

    def key(self, case):
        return json.dumps([case["spec"], case["ops"]], sort_keys=True)

    def nontrivial(self, case, out):
        return "rows" in out and len(out["rows"]) >= 5

    def _reference(self, case, out):
        spec, ref = case["spec"], case["ref"]
        L = len(ref["expanded"])
        bobs = {(int(k) - 1) % L: v for k, v in ref["bobs"].items()} if spec["bob"] is not None else {(0 - 1) % L: [[1, 4]]}
        singles = {(int(k) - 1) % L: v for k, v in ref["singles"].items()} if spec["single"] is not None else {(0 - 1) % L: [[1, 2, 3, 4]]}
        hist = ["next" if o in ("H", "B") else o for o in case["ops"]]
        rows, seg = [], []
        for h in hist + ["reset"]:
            if h == "reset":            # every touch is read from the start row and start index
                part = reference_rows(spec["stage"], out["start_row"], ref["expanded"], bobs, singles,
                                      spec["start_index"], seg)
                if part is None:
                    return None
                rows += part
                seg = []
            else:
                seg.append(h)
        return rows

    def oracle_C02(self, case, out):
        if "rows" not in out or any(o in ("bob", "single") for o in case["ops"]):
            return None
        want = self._reference(case, out)
        if want is None:
            return None
        got = [r for r, _ in out["rows"]]
        if got != want[:len(got)] or out["exn"] is not None:
            i = next((j for j in range(min(len(got), len(want))) if got[j] != want[j]), len(got))
            return f"row {i} differs from the reference interpreter: {got[i] if i < len(got) else out['exn']} vs {want[i] if i < len(want) else None}"
        return None

    def oracle_C04(self, case, out):
        if "rows" not in out:
            return None
        want = self._reference(case, out)
        if want is None:
            return None
        got = [r for r, _ in out["rows"]]
        if got != want[:len(got)] or out["exn"] is not None:
            i = next((j for j in range(min(len(got), len(want))) if got[j] != want[j]), len(got))
            return f"row {i} differs from the call rule of the reference interpreter"
        return None

    def oracle_C03_places(self, case, out):
        """every place NAMED in the notation of a change is made (a legal change that swaps a bell out of a named
        place is still wrong): the rows are those of the textbook reading of each change"""
        if "rows" not in out:
            return None
        want = self._reference(case, out)
        if want is None:
            return None
        got = [r for r, _ in out["rows"]]
        for i, (g, w) in enumerate(zip(got, want)):
            if g != w:
                return f"row {i} is {g}; making the places its change names gives {w}"
        return None

    def oracle_C05(self, case, out):
        if "fresh_rows" not in out:
            return None
        after = out["rows"][out["n_before_reset"]:]
        if after != out["fresh_rows"][:len(after)]:
            return "rows after reset differ from those of a freshly constructed generator"
        return None

    oracle_C01 = GenHistorySuite.oracle_C01

    def oracle_C03(self, case, out):
        # legal changes (nobody moves more than one place) AND the named places made
        return GenHistorySuite.oracle_C03(self, case, out) or self.oracle_C03_places(case, out)



def method_xml(title, stage, blocks, symmetric):
    """A CCCBR `simple.pl` answer: <symblock> notation + lead end, or one <block>."""
    ns = "http://methods.ringing.org/NS/method"
    if symmetric:
        pn = f"<symblock>{blocks[0]}</symblock><symblock>{blocks[1]}</symblock>"
    else:
        pn = f"<block>{blocks[0]}</block>"
    return (f'<?xml version="1.0"?><methods xmlns="{ns}"><method id="m1"><title>{title}</title>'
            f"<stage>{stage}</stage><pn>{pn}</pn></method></methods>")


class XmlMethodSuite(MethodRowsSuite):
    """C02 for method definitions received as CCCBR XML (the --method path): symmetric (<symblock> notation
    and lead end, each palindromic) and asymmetric (<block>) definitions, every start index and start row."""
    name = "xml_methods"

    def __init__(self):
        MethodRowsSuite.__init__(self, with_calls=False, with_reset=True)

    def one(self, rng, with_calls):
        stage = rng.randint(3, 16)
        sym = rng.random() < 0.7
        if sym:
            a = [random_change(rng, stage) for _ in range(rng.randint(1, 8))]
            b = [random_change(rng, stage) for _ in range(rng.randint(1, 2))]
            sa, sb = render_block(rng, a), render_block(rng, b)
            expanded = a + a[-2::-1] + b + b[-2::-1]
            method = f"&{sa},&{sb}"
            xml = method_xml("Some Title Minor", stage, [sa, sb], True)
        else:
            a = [random_change(rng, stage) for _ in range(rng.randint(1, 12))]
            sa = render_block(rng, a)
            expanded = a
            method = sa
            xml = method_xml("Some Title Minor", stage, [sa], False)
        L = len(expanded)
        start_index = rng.randint(-3 * L, 3 * L) if rng.random() < 0.8 else 0
        spec = {"kind": "xml", "stage": stage, "method": method, "xml": xml, "bob": None, "single": None,
                "start_index": start_index, "custom": random_custom_row(rng, stage)}
        return spec, {"expanded": expanded, "bobs": {}, "singles": {}}, L


class CreateRowGenSuite(GenHistorySuite):
    """The command line's own way to a row generator: wheatley.main.create_row_generator(argparse.Namespace) for
    --place-notation (with --bob/--single/--start-index/--start-row), --method with the special titles
    (Plain Hunt, Grandsire, Stedman, Dixon's Bob, by stage name or number) and --method through the CCCBR XML
    answer (faked).  The generator it builds is run and compared with the model of the generator those
    arguments describe, and (oracle) with that generator constructed directly."""
    name = "create_row_generator"

    CALLS = [("14", {0: "14"}), ("1234", {0: "1234"}), ("-1: 3", {-1: "3"}), ("0: 14 / -2: 16", {0: "14", -2: "16"}),
             (" 3 : 1234.14", {3: "1234.14"}), ("x", {0: "x"})]
    NAMES = {3: "singles", 4: "minimus", 5: "doubles", 6: "minor", 7: "triples", 8: "major", 9: "caters", 10: "royal",
             11: "cinques", 12: "maximus", 13: "sextuples", 14: "fourteen", 15: "septuples", 16: "sixteen"}

    def cases(self, rng, tier):
        for _ in range(120 if tier == "quick" else 1200):
            path = rng.choice(["pn", "pn", "special", "special", "xml"])
            ops = random_ops(rng, rng.choice([10, 40, 90]))
            if path == "pn":
                stage = rng.randint(3, 16)
                s, _ = random_notation(rng, stage, max_len=rng.choice([2, 6, 10]))
                bob, single = rng.choice(self.CALLS), rng.choice(self.CALLS)
                si = rng.choice([0, 0, 1, -1, 5, -7])
                custom = random_custom_row(rng, stage)
                args = {"place_notation": f"{stage}:{s}", "bob": bob[0], "single": single[0],
                        "start_index": si, "start_row": custom}
                spec = {"kind": "pn", "stage": stage, "method": s, "bob": {str(k): v for k, v in bob[1].items()},
                        "single": {str(k): v for k, v in single[1].items()}, "start_index": si, "custom": custom}
            elif path == "special":
                kind = rng.choice(["plain_hunt", "grandsire", "stedman", "dixon"])
                stage = {"plain_hunt": rng.randint(3, 16), "grandsire": rng.randint(5, 16),
                         "stedman": rng.choice([5, 7, 9, 11, 13, 15]), "dixon": 6}[kind]
                word = {"plain_hunt": rng.choice(["Plain Hunt", "plain hunt on", "PLAIN HUNT"]), "grandsire": "Grandsire",
                        "stedman": rng.choice(["Stedman", " stedman"]), "dixon": "Dixon's Bob"}[kind]
                st = rng.choice([self.NAMES[stage].capitalize(), self.NAMES[stage], str(stage)])
                custom = random_custom_row(rng, stage)
                args = {"method": f"{word} {st}", "bob": "14", "single": "1234", "start_index": rng.choice([0, 3]), "start_row": custom}
                spec = {"kind": kind, "stage": stage, "custom": custom}
                if kind == "dixon":
                    spec.update({"plain": None, "bob": None, "single": None})
            else:
                stage = rng.randint(4, 12)
                a = [random_change(rng, stage) for _ in range(rng.randint(1, 6))]
                b = [random_change(rng, stage) for _ in range(1)]
                sa, sb = render_block(rng, a), render_block(rng, b)
                bob, single = rng.choice(self.CALLS), rng.choice(self.CALLS)
                si = rng.choice([0, 2, -1, 7])
                custom = random_custom_row(rng, stage)
                args = {"method": "Some Title " + self.NAMES[stage].capitalize(), "bob": bob[0], "single": single[0],
                        "start_index": si, "start_row": custom, "xml": method_xml("Some Title", stage, [sa, sb], True)}
                spec = {"kind": "pn", "stage": stage, "method": f"&{sa},&{sb}", "bob": {str(k): v for k, v in bob[1].items()},
                        "single": {str(k): v for k, v in single[1].items()}, "start_index": si, "custom": custom}
            yield {"spec": spec, "ops": ops, "args": args}

    def run_impl(self, case):
        import argparse
        import wheatley.main as M
        from wheatley.row_generation import method_place_notation_generator as mpg
        a = dict(case["args"])
        xml = a.pop("xml", None)
        ns = argparse.Namespace(comp=None, method=a.get("method"), place_notation=a.get("place_notation"), bob=a["bob"],
                                single=a["single"], start_index=a["start_index"], start_row=a["start_row"])
        old = mpg.requests.get
        mpg.requests.get = fake_requests_get(xml if xml is not None else "<methods/>")
        try:
            try:
                g = M.create_row_generator(ns)
            except SystemExit as e:
                return {"ctor_err": "EOwn", "msg": str(e.code)}
            except Exception as e:  # pylint: disable=broad-except
                return {"ctor_err": F.exn_kind(e), "msg": str(e)}
        finally:
            mpg.requests.get = old
        rows, ex = run_ops(g, case["ops"])
        out = {"rows": rows, "exn": ex, "start_row": bell_nums(g.start_row), "stage": g.stage, "cls": type(g).__name__}
        try:
            d = build_impl_generator(case["spec"])
            out["direct"] = run_ops(d, case["ops"])[0]
        except Exception as e:  # pylint: disable=broad-except
            out["direct_err"] = F.exn_kind(e)
        return out

    def to_coq(self, case, out):
        if "ctor_err" in out:
            # sys.exit with the option's message / an exception of the constructor: the model's constructor must fail too
            o = dict(out)
            o["ctor_err"] = out["ctor_err"] if out["ctor_err"] != "EOwn" else "EValue"
            return GenHistorySuite.to_coq(self, case, o)
        return GenHistorySuite.to_coq(self, case, out)

    def _same_as_direct(self, case, out):
        if "rows" not in out:
            if "direct" in out:
                return f"create_row_generator({case['args']}) failed ({out.get('msg')}) although these arguments describe a generator"
            return None
        if "direct" in out and out["rows"] != out["direct"]:
            i = next((j for j in range(min(len(out["rows"]), len(out["direct"]))) if out["rows"][j] != out["direct"][j]), None)
            return (f"create_row_generator({ {k: v for k, v in case['args'].items() if k != 'xml'} }) rings row {i} = "
                    f"{out['rows'][i][0] if i is not None else '?'}; the generator those arguments describe rings "
                    f"{out['direct'][i][0] if i is not None else '?'}")
        return None

    oracle_C02 = _same_as_direct
    oracle_C04 = _same_as_direct
    oracle_C18 = _same_as_direct

    def oracle_C01(self, case, out):
        return None

    def oracle_C03(self, case, out):
        return None
