"""Registry: which suites, oracles and trusted-base notes belong to which property."""
from suites import gens, system, tower, timing, parsing, conc, glue


def c01_suites(tier):
    return [gens.PermuteSuite(), gens.StartRowSuite(), gens.GenHistorySuite(), gens.MethodRowsSuite(),
            system.GateSuite(), system.StartStopSuite(), system.ServerSuite(), system.ResizeSuite()]


def c02_suites(tier):
    return [gens.PNStringSuite(), gens.PermuteSuite(), gens.MethodRowsSuite(with_calls=False, with_reset=True), gens.GenHistorySuite(),
            gens.XmlMethodSuite(), gens.CreateRowGenSuite(), system.ServerSuite(light=True)]


def c03_suites(tier):
    return [gens.PermuteSuite(), gens.GenHistorySuite(), gens.MethodRowsSuite(), gens.MethodRowsSuite(with_calls=False),
            system.GateSuite(), system.SecondTouchSuite()]


def c04_suites(tier):
    return [gens.MethodRowsSuite(with_calls=True), gens.GenHistorySuite(), gens.CreateRowGenSuite(), system.SecondTouchSuite()]


def c05_suites(tier):
    return [gens.MethodRowsSuite(with_calls=True, with_reset=True), gens.GenHistorySuite(), system.SecondTouchSuite(),
            system.CompositionSuite()]


def c06_suites(tier):
    return [system.StartStopSuite(), system.RandomSessionSuite(), system.StatementLevelSuite(), glue.GlueSuite(), system.QueuedStartSuite(),
            system.SecondTouchSuite()]


def c07_suites(tier):
    return [system.StartStopSuite(), system.RandomSessionSuite(), glue.GlueSuite()]


def c20_suites(tier):
    return [tower.TowerViewSuite(), system.RandomSessionSuite(), tower.PageSuite()]


def c17_suites(tier):
    return [system.GateSuite(), gens.StartRowSuite(), system.RandomSessionSuite(), system.ResizeSuite()]


def c08_suites(tier):
    return [system.OwnershipSuite(), tower.TowerViewSuite(), system.RandomSessionSuite(), glue.GlueSuite()]


def c16_suites(tier):
    return [system.CompositionSuite(), gens.GenHistorySuite(), glue.GlueSuite(), system.QueuedStartSuite(), parsing.ParseSuite(only=("request_url", "parse_arg"))]


def c09_suites(tier):
    return [system.WaitSuite(), system.RhythmSessionSuite(), glue.GlueSuite()]


def c11_suites(tier):
    return [timing.AloneSuite(), system.RhythmSessionSuite(), glue.GlueSuite(), parsing.ParseSuite(only=("parse_peal_speed",))]


def c12_suites(tier):
    return [timing.TempoSuite(), system.RhythmSessionSuite()]


def c13_suites(tier):
    return [timing.InertiaOneSuite(), timing.OutlierSuite(), system.RhythmSessionSuite(), timing.HoldUpSuite()]


def c14_suites(tier):
    return [timing.HoldUpSuite(), timing.OriginSuite(), system.RhythmSessionSuite()]


def c15_suites(tier):
    return [timing.PullOffSuite(), system.RhythmSessionSuite(), timing.HoldUpSuite(), timing.TempoSuite(), timing.AloneSuite()]


def c10_suites(tier):
    return [timing.ProgressSuite(), system.RandomSessionSuite(), system.WaitSuite(), system.StartStopSuite(),
            system.StatementLevelSuite(), glue.GlueSuite(), system.ServerSuite(light=True), system.CompositionSuite()]


def c18_suites(tier):
    return [parsing.ParseSuite(), gens.PNStringSuite(), gens.StartRowSuite(), gens.CreateRowGenSuite()]


def c19_suites(tier):
    return [system.ServerSuite(), conc.ConcSuite(), timing.SpeedChangeSuite(), system.GateSuite(), glue.GlueSuite(), system.QueuedStartSuite(),
            timing.PullOffSettingSuite()]


PROPS = {
    "C01": {"suites": c01_suites},
    "C02": {"suites": c02_suites},
    "C03": {"suites": c03_suites},
    "C04": {"suites": c04_suites},
    "C05": {"suites": c05_suites},
    "C06": {"suites": c06_suites},
    "C07": {"suites": c07_suites},
    "C08": {"suites": c08_suites},
    "C09": {"suites": c09_suites},
    "C10": {"suites": c10_suites},
    "C11": {"suites": c11_suites},
    "C12": {"suites": c12_suites},
    "C13": {"suites": c13_suites},
    "C14": {"suites": c14_suites},
    "C15": {"suites": c15_suites},
    "C16": {"suites": c16_suites},
    "C17": {"suites": c17_suites},
    "C18": {"suites": c18_suites},
    "C19": {"suites": c19_suites},
    "C20": {"suites": c20_suites},
}
