"""Registry: which suites, oracles and trusted-base notes belong to which property."""
from suites import gens


def c01_suites(tier):
    return [gens.PermuteSuite(), gens.StartRowSuite(), gens.GenHistorySuite()]


def c03_suites(tier):
    return [gens.PermuteSuite(), gens.GenHistorySuite()]


PROPS = {
    "C01": {"suites": c01_suites},
    "C03": {"suites": c03_suites},
}
