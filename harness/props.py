"""Registry: which suites, oracles and trusted-base notes belong to which property."""
from suites import gens, system, tower


def c01_suites(tier):
    return [gens.PermuteSuite(), gens.StartRowSuite(), gens.GenHistorySuite(), gens.MethodRowsSuite()]


def c02_suites(tier):
    return [gens.PNStringSuite(), gens.PermuteSuite(), gens.MethodRowsSuite(with_calls=False, with_reset=True), gens.GenHistorySuite()]


def c03_suites(tier):
    return [gens.PermuteSuite(), gens.GenHistorySuite(), gens.MethodRowsSuite()]


def c04_suites(tier):
    return [gens.MethodRowsSuite(with_calls=True), gens.GenHistorySuite()]


def c05_suites(tier):
    return [gens.MethodRowsSuite(with_calls=True, with_reset=True), gens.GenHistorySuite()]


def c06_suites(tier):
    return [system.StartStopSuite(), system.RandomSessionSuite()]


def c07_suites(tier):
    return [system.StartStopSuite(), system.RandomSessionSuite()]


def c20_suites(tier):
    return [tower.TowerViewSuite(), system.RandomSessionSuite()]


def c17_suites(tier):
    return [system.GateSuite(), gens.StartRowSuite(), system.RandomSessionSuite()]


def c08_suites(tier):
    return [system.OwnershipSuite(), tower.TowerViewSuite(), system.RandomSessionSuite()]


def c16_suites(tier):
    return [system.CompositionSuite(), gens.GenHistorySuite()]


def c09_suites(tier):
    return [system.WaitSuite(), system.RhythmSessionSuite()]


PROPS = {
    "C01": {"suites": c01_suites},
    "C02": {"suites": c02_suites},
    "C03": {"suites": c03_suites},
    "C04": {"suites": c04_suites},
    "C05": {"suites": c05_suites},
    "C06": {"suites": c06_suites},
    "C07": {"suites": c07_suites},
    "C08": {"suites": c08_suites},
    "C09": {"suites": c09_suites},
    "C16": {"suites": c16_suites},
    "C17": {"suites": c17_suites},
    "C20": {"suites": c20_suites},
}
