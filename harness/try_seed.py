#!/usr/bin/env python3
"""Developer tool (not a registered check): confirm a seeded defect produced by a sub-agent in its
scratch worktree, store it under /verif/seeded/<name>/, and run our checks against it on /repo.

usage: try_seed.py <name> <worktree> <property> [more properties to run]
"""
import json, os, shutil, subprocess, sys, time

IN_WT = "--in-worktree" in sys.argv     # run the checks against the patched worktree instead of /repo
sys.argv = [a for a in sys.argv if a != "--in-worktree"]
name, wt, prop = sys.argv[1], sys.argv[2], sys.argv[3]
run_props = sys.argv[3:]
VERIF = "/verif"
pid = os.path.basename(wt)
patch = os.path.join(wt, f"patch_{pid}.diff")
demo = os.path.join(wt, f"demo_{pid}.py")


def sh(cmd, cwd=None, timeout=1800):
    p = subprocess.run(cmd, shell=True, cwd=cwd, stdout=subprocess.PIPE, stderr=subprocess.STDOUT, text=True, timeout=timeout)
    return p.returncode, p.stdout


meta = {"property": prop, "name": name, "ran": []}
# 1. confirm in the worktree: clean tree -> demo passes; patched -> tests unchanged, demo fails
sh("git stash -q -- wheatley || true", cwd=wt)
sh("git checkout -q -- wheatley", cwd=wt)
rc0, out0 = sh(f"/venv/bin/python {demo}", cwd=wt)
rc, out = sh(f"git apply {patch}", cwd=wt)
assert rc == 0, out
rct, outt = sh("/venv/bin/python -m pytest -q -p no:cacheprovider tests 2>&1 | tail -1", cwd=wt)
rc1, out1 = sh(f"/venv/bin/python {demo}", cwd=wt)
meta["demo_on_original"] = {"rc": rc0, "tail": out0.strip().splitlines()[-1:] }
meta["demo_on_patched"] = {"rc": rc1, "tail": out1.strip().splitlines()[-3:]}
meta["tests_on_patched"] = outt.strip()
print("demo original rc", rc0, "| patched rc", rc1, "| tests:", outt.strip())
ok = rc0 == 0 and rc1 != 0 and "79 passed" in outt and "6 failed" in outt
meta["confirmed"] = ok
dest = os.path.join(VERIF, "seeded", name)
os.makedirs(dest, exist_ok=True)
shutil.copy(patch, os.path.join(dest, "patch.diff"))
shutil.copy(demo, os.path.join(dest, os.path.basename(demo)))
stubs = os.path.join(wt, "demo_stubs")
if os.path.isdir(stubs):
    shutil.copytree(stubs, os.path.join(dest, "demo_stubs"), dirs_exist_ok=True)
# 2. run our checks on /repo with the patch applied, then undo
if not IN_WT:
    rc, out = sh(f"git -C /repo apply {patch}")
    assert rc == 0, out
    env = ""
else:
    # (used while a long background run is reading /repo)  the worktree already has the patch applied
    env = f"WHEATLEY_REPO={wt} VERIF_EVIDENCE_DIR=/tmp/seed_ev/{name} "
meta["checks_ran_against"] = "the patched scratch worktree (WHEATLEY_REPO)" if IN_WT else "/repo with the patch applied"
try:
    for p in run_props:
        t0 = time.time()
        rc, out = sh(f"{env}/venv/bin/python harness/check.py --property {p} --tier quick", cwd=VERIF)
        lines = [l for l in out.splitlines() if l.startswith(("VIOLATION", "KNOWN", "BROKEN", p))]
        print(p, "rc", rc, lines)
        meta["ran"].append({"check": p, "rc": rc, "lines": lines, "wall_s": round(time.time() - t0, 1)})
finally:
    if not IN_WT:
        sh("git -C /repo checkout -- .")
    else:
        shutil.rmtree(f"/tmp/seed_ev/{name}", ignore_errors=True)
meta["detected_by"] = [r["check"] for r in meta["ran"] if r["rc"] == 1]
old = {}
mp = os.path.join(dest, "meta.json")
if os.path.exists(mp):
    old = json.load(open(mp))
old.update(meta)
json.dump(old, open(mp, "w"), indent=1)
