"""Data for MANIFEST.json."""
TB = ("Trusted: Coq 8.16.1 kernel + vm_compute; the hand-written Gallina model (tied to /repo only by the per-run "
      "correspondence suites, whose strength is that of their generators); the harness (socketio stub, virtual clock, "
      "fake requests.get). No axioms of ours; Print Assumptions output is copied into the evidence file on every run.")

CLAIMED = {
    "C01": {
        "text": "Theorems for ALL stages, place lists, rows and generator histories that every row is a permutation "
                "of the start row (permute_ok, generator invariants), about a Gallina model of permute / the row "
                "generators / the Bot; the model is compared with the implementation on every run (exhaustive place "
                "sets up to stage 10 quick / 16 thorough, random generator histories).",
        "design_ref": "DESIGN.md section 3, C01", "note": TB,
        "technique": "Coq proof by induction (Permutation invariant) + in-kernel differential correspondence",
    },
    "C03": {
        "text": "Theorem permute_legal: for all stages, place lists and rows the result of a change is the row with "
                "disjoint adjacent pairs swapped inside the first `stage` places (nobody jumps, covers stay), lifted "
                "to generator histories; model compared with the implementation on every run.",
        "design_ref": "DESIGN.md section 3, C03", "note": TB,
        "technique": "Coq proof by induction on the permute loop (inductive relation `legal`) + correspondence",
    },
}

_NYI = "check not built yet in this session; planned as a Coq proof (see DESIGN.md section 3)"
NOT_APPLICABLE = {p: _NYI for p in
                  ["C02", "C04", "C05", "C06", "C07", "C08", "C09", "C10", "C11", "C12", "C13", "C14", "C15", "C16",
                   "C17", "C18", "C19", "C20"]}

NOTES = ("All checks share harness/check.py. Exit 0 = property held on everything explored; exit 1 + VIOLATION line "
         "= violation or broken tie between model and code; exit 2 + BROKEN-CHECK = our own machinery failed.")
