"""Data for MANIFEST.json."""
TB_GLUE = (" The mode the property speaks of is tied to the command line: Model/Glue.v (main.py option handling) "
           "is compared with the real wheatley.main.main on every run.")
TB = ("Trusted: Coq 8.16.1 kernel + vm_compute; the hand-written Gallina model (tied to /repo only by the per-run "
      "correspondence suites, whose strength is that of their generators); the harness (socketio stub, virtual clock, "
      "fake requests.get). No axioms of ours; Print Assumptions output is copied into the evidence file on every run.")

CLAIMED = {
    "C01": {
        "text": "Theorems for ALL stages, place lists, rows and generator histories that every row is a permutation "
                "of the start row (permute_ok, generator invariants), about a Gallina model of permute / the row "
                "generators / the Bot; the model is compared with the implementation on every run (exhaustive place "
                "sets up to stage 10 quick / 16 thorough, random generator histories). Cover padding gives a complete row "
                "of the tower whenever the stage fits, also after a size change DURING a touch (whatever is generated "
                "next - opening row, closing rounds, method row - is a complete row of the new tower); tied by Bot-level "
                "sessions (size gate, start/stop, server mode, resized mid-touch).",
        "design_ref": "DESIGN.md section 3, C01", "note": TB,
        "technique": "Coq proof by induction (Permutation invariant) + in-kernel differential correspondence",
    },
    "C03": {
        "text": "Theorem permute_legal: for all stages, place lists and rows the result of a change is the row with "
                "disjoint adjacent pairs swapped inside the first `stage` places (nobody jumps, covers stay), lifted "
                "to generator histories; model compared with the implementation on every run.",
        "design_ref": "DESIGN.md section 3, C03", "note": TB,
        "technique": "Coq proof by induction on the permute loop (inductive relation `legal`) + correspondence",
    },
}

CLAIMED["C02"] = {
    "text": "Theorems: the k-th row of a plain touch is the start row transformed by the first k changes of the notation "
            "read cyclically from the start index (all k, all start indices incl. negative, any start row); Plain Hunt "
            "equals the notation x.1n / n.1 for every n and length; Grandsire/Stedman facts for every supported stage by "
            "kernel computation; convert_pn on EVERY string of the documented grammar (tokens, optional dots around a "
            "cross, & / + markers, comma-joined blocks) is the declarative expansion (C02_grammar_single_block, "
            "C02_grammar_comma_blocks). Model of convert_pn/valid_pn/generators compared with the implementation on grammar-"
            "directed, exhaustive-short and malformed strings every run; rows also compared with an independent "
            "reference interpreter; the CCCBR-XML path (faked fetch) and the server-JSON path (selections delivered over the "
            "simulated socket, judged row by row) are part of the check.",
    "design_ref": "DESIGN.md section 3, C02", "note": TB + " Blanks inside a notation string are covered by the tie only.",
    "technique": "Coq proof (induction over rows and over token sequences; vm_compute over the finite set of stages) + correspondence",
}
CLAIMED["C04"] = {
    "text": "Theorem pn_step_spec: the complete decision rule of one generator step (call fires exactly where defined, "
            "Bob before Single, call in progress supplies exactly its remaining changes, otherwise the method's change "
            "and nothing else changes) for every method, call dictionary, start index and state; corollaries; call "
            "position (pos-1) mod L. Model compared with the implementation on call-heavy histories; rows also "
            "compared with an independent forward-searching reference of the call rule.",
    "design_ref": "DESIGN.md section 3, C04", "note": TB,
    "technique": "Coq proof by case analysis of the step function + correspondence",
}
CLAIMED["C05"] = {
    "text": "Theorem: after ANY history of operations, reset returns exactly the generator the constructor built, so the "
            "second touch's rows equal a fresh generator's (all generator kinds); C05_refuted_pre_fix exhibits the "
            "violation of the tree before the fix commit; through the Bot, the turnover that starts the method resets the "
            "generator before the first method row is generated (C05_bot_method_start_like_fresh_launch). Model compared "
            "with the implementation on histories with a reset at every row offset and on whole-Bot sessions whose first "
            "touch is cut anywhere and restarted by Go; oracle: a freshly constructed generator / textbook interpreter.",
    "design_ref": "DESIGN.md section 3, C05", "note": TB,
    "technique": "Coq proof (structural: reset state = constructor state) + correspondence",
}

CLAIMED["C06"] = {
    "text": "Theorem (for the whole closed system Bot+Tower+rhythm+clock, every configuration, every timed history of "
            "messages, strikes and ticks, every fuel): the start counter, the row number and the generator's start "
            "stroke stay in step (invariant Jw), hence the start-stroke assertion of the row turnover can never fire and "
            "the method can only start on its start stroke; Go sets the counter to 'first start-stroke row beginning "
            "after the row of the Go'; no start before the counter is 0; Go during the method is a no-op. Model tied "
            "to the real Bot by exhaustive placements of Go/That's all/Rounds/Stand/Look to over the first rows (both "
            "start strokes, up-down-in, covers) plus random sessions; rows also judged by an independent row-level "
            "TouchSpec oracle. Granularity: messages land inside sleeps (H); statement-level races inside "
            "start_next_row are NOT covered by the theorem (see DESIGN.md known findings).",
    "design_ref": "DESIGN.md section 3, C06", "note": TB + TB_GLUE,
    "technique": "Coq proof: inductive invariant over all steps of the system model (induction on fuel) + correspondence",
}
CLAIMED["C07"] = {
    "text": "Theorems on the control skeleton of the row turnover, for all control states and inputs: ringing stops "
            "only at a turnover into a handstroke and only because a stand was pending or stop-at-rounds saw rounds "
            "(so bells are left at hand); a pending stand acts at the next handstroke and is carried over a backstroke; "
            "That's all gives rounds at once after a rounds row and exactly one more method row otherwise. Model "
            "tied to the real Bot by exhaustive placement of stop calls; TouchSpec oracle checks rows rung, the point "
            "of standing and the parity of strikes per bell.",
    "design_ref": "DESIGN.md section 3, C07", "note": TB + TB_GLUE,
    "technique": "Coq proof by case analysis of the control step function + correspondence",
}

CLAIMED["C08"] = {
    "text": "Theorems for every state of the system model: a tick acts on the bell and the ownership sampled when it "
            "begins; it strikes exactly when that bell was Wheatley's and the tower's stroke of it equals the row's "
            "stroke, striking that very bell on that very stroke and nothing else; the row turnover never strikes; "
            "within a row the place advances by one per tick; ownership equals the backward-looking reading of the "
            "message history (C20). Tied to the real Bot/Tower by sessions with assignment churn at arbitrary instants "
            "(also inside waits), with/without --name, humans pulling Wheatley's ropes; oracle from the simulated "
            "server's own bookkeeping (owner at tick begin, accepted strokes, once per row, completeness).",
    "design_ref": "DESIGN.md section 3, C08", "note": TB + TB_GLUE + " 'At the moment of its turn' is read as the instant the "
            "tick for that place begins (when the code decides).",
    "technique": "Coq proof (characterisation of the tick's outputs) + correspondence with ground-truth oracle",
}
CLAIMED["C16"] = {
    "text": "Theorems: a composition generator hands out exactly the loaded rows in order and then rounds (all "
            "compositions and positions); no call from a composition is 'Stand'; opening-row calls are filed under "
            "'rows before the first change'; a late Go flushes all missed calls (permutation) in chronological order "
            "(sorted); with calls off make_calls is the identity. Tied to the real constructor and Bot by generated "
            "payloads served through a fake requests.get, Go at every row 0..6 or up-down-in, calls on/off; oracle "
            "recomputes rows, call texts, order and instants directly from the payload.",
    "design_ref": "DESIGN.md section 3, C16", "note": TB + TB_GLUE + " json.loads / requests are library code outside the model.",
    "technique": "Coq proof (induction over rows; sortedness/permutation of the flush) + correspondence",
}
CLAIMED["C17"] = {
    "text": "Theorems: the Look-to gate as an iff (stage != 0, stage <= N, opening row as long as the tower) on the "
            "generator about to be rung; a refused Look to changes nothing and emits nothing; opening-row length = "
            "max(N, k) for a start row on k bells; a size change recomputes opening row/rounds for the new size and "
            "discards the queued generator exactly when it does not fit; covers are the opening row's tail. Tied to "
            "the code by the stage x tower grid, custom start rows shorter/equal/longer, size-change sequences "
            "between touches and queued generators in server mode.",
    "design_ref": "DESIGN.md section 3, C17", "note": TB,
    "technique": "Coq proof (decision rule as iff; list lemmas) + correspondence over the full grid",
}
CLAIMED["C20"] = {
    "text": "Theorem view_refines_spec: for EVERY history of the seven tower messages the dictionary-based view "
            "(strokes/size, user names, bell holders) equals a dictionary-free backward-looking reading of the "
            "history; the system model's handlers update the view by exactly that fold; tower-page parsing returns the "
            "quoted server_ip / TowerNotFoundError. Tied to the real RingingRoomTower by random well- and ill-formed "
            "histories through the stub client (white-box and via is_bell_assigned_to/get_stroke), start-up order and "
            "tower id checked on the client log.",
    "design_ref": "DESIGN.md section 3, C20", "note": TB + " python-socketio itself is replaced by a stub.",
    "technique": "Coq proof by induction over the history (refinement of association lists to a per-key spec) + correspondence",
}

TBR = TB + " Floats: IEEE doubles / numpy / math.exp are MODELLED by exact rationals (executable instance rounds to a 2^-100 grid); implementation times are compared within 1e-6 s and knife-edge cases (an event within 1e-8 s of the end of a sleep, a weight within 1e-8 of the rejection threshold) are skipped and counted."
CLAIMED["C09"] = {
    "text": "Theorem never_ahead: for ANY non-empty set of human bells and ANY interleaving of human strikes (late, early, "
            "doubled, a whole row ahead) with row turnovers, in every reachable state every human bell has struck in all "
            "previous rows and a bell no longer awaited in the current row has struck in it - proved about the model "
            "functions that mirror WaitForUserRhythm's expect_bell/on_bell_ring; plus: the polling loop has no time-out. "
            "Tied to the code by closed-loop sessions under the virtual clock with adversarial human timing (incl. a bell left at "
            "backstroke at Look to and pulled twice); oracle counts "
            "human strikes from the simulated server's log at every Wheatley strike.",
    "design_ref": "DESIGN.md section 3, C09", "note": TBR + TB_GLUE + " Statement-level interleaving inside the arming loop is not "
            "covered (granularity H).",
    "technique": "Coq proof: inductive invariant over all histories of an abstract band driving the model's bookkeeping functions + correspondence",
}
CLAIMED["C11"] = {
    "text": "Theorems: I = m*60/(2520(2N+1)); blow index r*N+p+floor(r/2)*g; a tick whose blow is ahead sleeps exactly up "
            "to start + I*blow; by induction over all blows no error accumulates whenever consecutive scheduled instants "
            "are more than the 10 ms pause apart; steps are I (in a row / backstroke lead) and I(1+g) (handstroke lead); "
            "5040 rows at gap 1 take exactly the requested time. Tied to the code by Wheatley-alone sessions over towers "
            "4..16, speeds 60..600 (and infeasible ones), gaps, up to 40 rows, second touches after a human-bent first "
            "touch; oracle: the closed form in exact rationals, 1e-6 s.",
    "design_ref": "DESIGN.md section 3, C11", "note": TBR + TB_GLUE + " The composition of the per-tick lemmas with the system model's "
            "main loop is by the recurrence theorem, not by a theorem about Sys.run (partial).",
    "technique": "Coq proof over Q (field/lra, induction on blows) + correspondence with closed-form oracle",
}
CLAIMED["C12"] = {
    "text": "Theorems (exact-rational instance): collinear data are recovered exactly by the weighted regression for any "
            "weights/size/tempo; lerp laws: inertia 0 takes the new line, distance contracts by exactly t per retained "
            "strike (t^k after k), lerp a a t = a (fixed point); the data _add_data_point keeps all weigh more than the "
            "rejection threshold, different strikes have different blow times, and positive weights on two different "
            "blows make the normal matrix non-singular (det = sum over pairs w_i w_j (x_i-x_j)^2 > 0), so collinear "
            "recovery holds with no hypothesis about the matrix; on the model's _add_data_point one regression over "
            "data on the humans' line moves start and interval towards it by exactly the inertia in force (inertia 0: "
            "onto it). Tied to the code by keep-going sessions with humans on "
            "their own even line (tempo 0.93..1.07, >= 1/3 human bells, human or Wheatley leading, dataset sizes 5..30, "
            "tempo changes); oracle: distance of Wheatley's strikes from the humans' line.",
    "design_ref": "DESIGN.md section 3, C12", "note": TBR + " Retention of the strikes under the 7% tempo bound is checked "
            "by the sessions, not proved (partial).",
    "technique": "Coq proof over Q (field) + correspondence with line-distance oracle",
}
CLAIMED["C13"] = {
    "text": "Theorems: with preferred inertia 1 a data point of any row > 0 leaves start and interval untouched (all "
            "states); a point whose weight is <= 0.001 leaves the retained dataset exactly as it was; exp(-9) < 0.001 < "
            "exp(-2.6^2) by kernel computation; refitting data on the current line returns the current line. Tied to the "
            "code by PAIRED sessions: inertia 1 with post-row-1 human times perturbed by up to a row; settled touches "
            "with one strike displaced by 3..N-2 places (incl. a lone human, rows >= 2); oracle compares the two runs.",
    "design_ref": "DESIGN.md section 3, C13", "note": TBR,
    "technique": "Coq proof + paired-run correspondence",
}
CLAIMED["C14"] = {
    "text": "Theorems: WaitForUser hands time - delay to the inner rhythm in every inward call; the regression is "
            "translation invariant (origin moved by any c moves the fitted start by c, interval unchanged); the one "
            "absolute test (_start_time == 0) is exhibited. Tied to the code by PAIRED sessions: hold-ups of 3 ms..11 s "
            "(also repeated, also followed by a second touch) with later events shifted, and the same session at clock "
            "origins 1, 1e3, 1e6, 1.8e9, including 300-600-row sessions with a live regression at origin 1.8e9 (these "
            "exposed the ill-conditioned regression repaired by /repo 2aed760); oracle: strike-by-strike differences.",
    "design_ref": "DESIGN.md section 3, C14", "note": TBR + " At origin 1.8e9 the implementation pair is compared at 5 ms (2 ms for the long keep-going sessions). The "
            "translation-invariance theorem is about the exact function; its double-precision evaluation is modelled, "
            "not verified, so that clause rests on the paired oracle.",
    "technique": "Coq proof over Q (field) + paired-run correspondence",
}
CLAIMED["C15"] = {
    "text": "Theorems: Wheatley leading anchors the line at the start time given by the Bot (call + 3 s) with the configured "
            "interval; a human leading puts the line at infinity, a human bell's tick then polls with no time-out, and only "
            "the strike of the bell expected at blow 0 brings the line back (whatever other humans do first). Tied to "
            "the code by sessions over every leader assignment, delays 0.3..45 s, custom start rows, other humans early; "
            "oracle: first strike at exactly +3 s / nothing before the leader / first row placed from the leader's strike.",
    "design_ref": "DESIGN.md section 3, C15", "note": TBR + " A message handler that sleeps runs to completion before the "
            "simulated main thread resumes (model and harness alike): state raised and lowered again inside one handler is "
            "not observable (seeded change C15-f, DESIGN.md section 6, is not detected for that reason).",
    "technique": "Coq proof (case analysis of initialise_line / on_bell_ring; loop exit lemma) + correspondence",
}

CLAIMED["C10"] = {
    "text": "Theorems: every exception that can escape a tick (the only way main_loop dies) comes from one of three "
            "sources - no bell at the current place, the start-stroke assertion, the row generator; the assertion is "
            "excluded in every reachable state (C06's system-wide invariant); place-notation / plain-hunt generators "
            "never fail under their row invariant (C01); within a row the next tick finds its bell (row ends at "
            "min(len(row), tower size): also when the tower grows mid-row, after the fix); the wait for a human has no "
            "time-out and ends when the bell has rung (C09). Tied to the code by closed-loop bands (punctual, lagging, "
            "erratic, early, absent, a ringer catching hold mid-touch), size changes during touches, compositions rung past "
            "their end, server-mode sessions, both rhythms; oracle: no crash, every row completed, "
            "the bell after an awaited human within one interval (+30 ms), keep-going on schedule.",
    "design_ref": "DESIGN.md section 3, C10", "note": TBR + TB_GLUE + " Liveness under real OS scheduling is not modelled; the "
            "bounded-lag statement is checked by the sessions, not proved (partial). Statement-level races are findings.",
    "technique": "Coq proof (failure-source classification + system invariant) + correspondence",
}
CLAIMED["C18"] = {
    "text": "Theorems for EVERY string: each parser returns a value or its OWN error (never a bare ValueError / "
            "AssertionError), with Python's int()/strip()/isnumeric() modelled over code points from generated Unicode "
            "tables; valid_pn accepts exactly what convert_pn converts; convert_pn never returns an empty notation; "
            "whatever parse_place_notation / parse_call / parse_start_row accept builds a generator / call dictionary / "
            "opening row. Tied to the code by exhaustive strings up to length 3 (4 thorough) over each parser's "
            "alphabet, grammar-directed and malformed longer strings, composition references through the real "
            "urlparse, the request URL, all 0x110000 code points of the classifier tables (sampled in quick), and "
            "main.create_row_generator's exit behaviour.",
    "design_ref": "DESIGN.md section 3, C18", "note": TB + " urlparse / argparse are library code outside the model; the "
            "Unicode tables are generated from the running interpreter and compared with it on every run.",
    "technique": "Coq proof (structural totality; validator = converter) + exhaustive-short-string correspondence",
}
CLAIMED["C19"] = {
    "text": "Theorems: a selection only writes the queued generator and a malformed one leaves the state untouched; the "
            "row turnover keeps the generator's identity; Look to gates on the queued generator; EVERY statement-level "
            "interleaving (that respects the lock) of the selection handler with the size-change handler, with the Look-to "
            "hand-over and of all three ends in the state of a sequential order, for every fit valuation (complete "
            "enumeration in the kernel), and the same code without the lock does not; a peal-speed change keeps the blow "
            "position of the instant of the change and takes the new slope; stop touch switches ringing off at once and "
            "no further tick starts; roll call on entering the ringing loop only; exit only from the idle loop, in "
            "server mode, after > 300 s. Tied to the code by server-mode sessions and by the REAL handlers on real "
            "threads under a deterministic statement scheduler (sys.settrace + cooperative lock).",
    "design_ref": "DESIGN.md section 3, C19", "note": TBR + TB_GLUE + " python-socketio's dispatch threading and CPython atomicity below "
            "a statement are not modelled.",
    "technique": "Coq proof (complete enumeration of lock-respecting merges by vm_compute; algebra over Q) + thread-scheduler correspondence",
}

_NYI = "check not built yet in this session; planned as a Coq proof (see DESIGN.md section 3)"
NOT_APPLICABLE = {}

NOTES = ("All checks share harness/check.py. Exit 0 = property held on everything explored; exit 1 + VIOLATION line "
         "= violation or broken tie between model and code; exit 2 + BROKEN-CHECK = our own machinery failed.")
