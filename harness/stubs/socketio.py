"""Stand-in for python-socketio (not installed in this sandbox).  RingingRoomTower only uses
Client(), connect(url), on(event, handler), emit(event, data), disconnect() and `.connected`.
The simulator (harness/sim.py) installs a sink that receives every emit."""

_sink = None  # set by the simulator: callable(client, event, data)
_last_client = None


def set_sink(fn):
    global _sink
    _sink = fn


def last_client():
    return _last_client


class Client:
    def __init__(self, *args, **kwargs):
        global _last_client
        self.connected = False
        self.url = None
        self.handlers = {}
        self.log = []  # (kind, event-or-url, data) in program order
        _last_client = self

    def connect(self, url, *args, **kwargs):
        self.url = url
        self.connected = True
        self.log.append(("connect", url, None))

    def on(self, event, handler=None):
        self.handlers[event] = handler
        self.log.append(("on", event, None))

    def emit(self, event, data=None, *args, **kwargs):
        self.log.append(("emit", event, data))
        if _sink is not None:
            _sink(self, event, data)

    def disconnect(self):
        self.connected = False
        self.log.append(("disconnect", None, None))
