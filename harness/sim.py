"""Discrete-event simulator that runs the REAL Bot / RingingRoomTower / rhythm classes of /repo
single-threaded under a virtual clock, against a simulated Ringing Room server.  The Gallina twin is
coq/theories/Model/Sys.v (same semantics, see DESIGN.md Appendix A):

* time.time / time.sleep (and wheatley.tower.sleep) are replaced; sleep(d) delivers, in timestamp
  order (FIFO among equal times) and in the calling thread, every queued item due in the slept
  interval, then advances the clock.  A handler that sleeps re-enters sleep().
* the server keeps the true strokes; a c_bell_rung whose claimed stroke matches toggles the bell and
  is broadcast as s_bell_rung `delta` later; c_call is echoed as s_call `delta` later; a human pull
  ("ring") toggles and is broadcast `delta` later as well (one ordered connection: the bell-state
  snapshots reach Wheatley in the order in which the server took them).
* exceptions escaping a message handler are caught and logged (python-socketio/engineio do the
  same); an exception escaping the main loop ends the run as a crash.
"""
import heapq
import time as _time
from fractions import Fraction

import socketio  # the stub in harness/stubs

TOWER_ID = 763451928

_REAL_TIME = _time.time
_REAL_SLEEP = _time.sleep


def real_time():
    return _REAL_TIME()


class Stop(BaseException):
    """Raised inside sleep() when the scenario's horizon is passed."""


def frac(x):
    if isinstance(x, str):
        return Fraction(x)
    if isinstance(x, (list, tuple)):
        return Fraction(x[0], x[1])
    return Fraction(x)


class Sim:
    def __init__(self, scenario):
        self.sc = scenario
        self.now = frac(scenario.get("origin", 0))
        self.horizon = frac(scenario["horizon"])
        self.delta = frac(scenario.get("delta", 0))
        self.queue = []
        self.seq = 0
        self.server = []
        self.out = []  # (time, kind, payload...)
        self.client = None
        self.malformed_emits = []
        self.rejected = []      # strikes the server refused (claimed stroke != the bell's stroke)
        for t, ev in scenario["events"]:
            self.push(frac(t), ev)

    # ---- clock
    def push(self, t, ev):
        heapq.heappush(self.queue, (t, self.seq, ev))
        self.seq += 1

    def time(self):
        return float(self.now)

    def sleep(self, d):
        d = Fraction(d)
        if d < 0:
            raise ValueError("sleep length must be non-negative")
        end = self.now + d
        while self.queue and self.queue[0][0] <= end:
            t, _, ev = self.queue[0]
            if t > self.horizon:
                raise Stop()
            heapq.heappop(self.queue)
            self.now = max(self.now, t)
            self.deliver(ev)
        self.now = max(self.now, end)
        if self.now > self.horizon:
            raise Stop()

    # ---- server
    def log(self, *item):
        self.out.append((self.now,) + item)

    def on_emit(self, client, event, data):
        self.client = client
        if not isinstance(data, dict) or data.get("tower_id") != TOWER_ID:
            self.malformed_emits.append((event, data))
        if event == "c_join":
            self.log("join")
        elif event == "c_request_global_state":
            self.log("request_state")
        elif event == "c_bell_rung":
            bell, hand = data["bell"], data["stroke"]
            self.log("bell", bell, bool(hand))
            if not isinstance(bell, int) or isinstance(bell, bool) or not isinstance(hand, bool):
                self.malformed_emits.append((event, data))
                return
            if not (1 <= bell <= len(self.server) and self.server[bell - 1] == hand):
                self.rejected.append((str(self.now), bell, bool(hand)))
            if 1 <= bell <= len(self.server) and self.server[bell - 1] == hand:
                self.server[bell - 1] = not hand
                self.push(self.now + self.delta, ("msg", "s_bell_rung",
                                                  {"global_bell_state": list(self.server), "who_rang": bell}))
        elif event == "c_call":
            self.log("call", data["call"])
            self.push(self.now + self.delta, ("msg", "s_call", {"call": data["call"]}))
        elif event == "c_wheatley_is_ringing":
            self.log("is_ringing", bool(data["is_ringing"]))
        elif event == "c_roll_call":
            self.log("roll_call", data["instance_id"])
        else:
            self.log("other_emit", event)

    def deliver(self, ev):
        kind = ev[0]
        if kind == "ring":
            bell = ev[1]
            if 1 <= bell <= len(self.server):
                self.server[bell - 1] = not self.server[bell - 1]
                # (same latency as the echo of Wheatley's own strikes: one connection delivers in order, so a
                # snapshot of the bell states taken earlier can never overtake one taken later)
                self.push(self.now + self.delta, ("msg", "s_bell_rung", {"global_bell_state": list(self.server), "who_rang": bell}))
            return
        if kind == "size":
            self.server = [True] * ev[1]
            name, data = "s_size_change", {"size": ev[1]}
        elif kind == "global":
            self.server = [bool(b) for b in ev[1]]
            name, data = "s_global_state", {"global_bell_state": list(self.server)}
        elif kind == "msg":
            name, data = ev[1], ev[2]
        elif kind == "call":
            name, data = "s_call", {"call": ev[1]}
        elif kind == "assign":
            name, data = "s_assign_user", {"bell": ev[1], "user": ev[2]}
        elif kind == "user_entered":
            name, data = "s_user_entered", {"user_id": ev[1], "username": ev[2]}
        elif kind == "userlist":
            name, data = "s_set_userlist", {"user_list": [{"user_id": i, "username": n} for i, n in ev[1]]}
        elif kind == "user_left":
            name, data = "s_user_left", {"user_id": ev[1]}
        elif kind == "setting":
            name, data = "s_wheatley_setting", {k: v for k, v in ev[1]}
        elif kind == "row_gen":
            name, data = "s_wheatley_row_gen", ev[1]
        elif kind == "stop_touch":
            name, data = "s_wheatley_stop_touch", {}
        else:
            raise ValueError(kind)
        handler = self.client.handlers.get(name) if self.client else None
        if handler is None:
            return
        restore = None
        if kind == "row_gen" and isinstance(ev[1], dict) and ev[1].get("type") == "composition":
            # a composition is fetched from CompLib while the message is handled: the third item of the event is the
            # decoded payload the (fake) site answers with; absent = HTTP 404
            import json as _json
            from wheatley.row_generation import complib_composition_generator as ccg
            from suites.gens import fake_requests_get
            payload = ev[2] if len(ev) > 2 else None
            restore = (ccg, ccg.requests.get)
            ccg.requests.get = (fake_requests_get(_json.dumps(payload)) if payload is not None
                                else fake_requests_get("not found", status=404))
        try:
            handler(data)
        except Exception as e:  # pylint: disable=broad-except
            import coqfmt
            self.log("handler_exn", coqfmt.exn_kind(e))
        finally:
            if restore is not None:
                restore[0].requests.get = restore[1]


def make_logging_rhythm(sim, inner):
    from wheatley.rhythm.abstract_rhythm import Rhythm

    class LoggingRhythm(Rhythm):
        """Proxy that records every call across the Bot -> Rhythm interface."""

        def return_to_mainloop(self):
            sim.log("r_return")
            inner.return_to_mainloop()

        def wait_for_bell_time(self, current_time, bell, row_number, place, user_controlled, stroke):
            sim.log("r_wait", current_time, bell.number, row_number, place, bool(user_controlled), stroke.is_hand())
            inner.wait_for_bell_time(current_time, bell, row_number, place, user_controlled, stroke)

        def expect_bell(self, expected_bell, row_number, place, expected_stroke):
            sim.log("r_expect", expected_bell.number, row_number, place, expected_stroke.is_hand())
            inner.expect_bell(expected_bell, row_number, place, expected_stroke)

        def change_setting(self, key, value, real_time):
            sim.log("r_setting", key, real_time)
            inner.change_setting(key, value, real_time)

        def on_bell_ring(self, bell, stroke, real_time):
            sim.log("r_on_bell", bell.number, stroke.is_hand(), real_time)
            inner.on_bell_ring(bell, stroke, real_time)

        def initialise_line(self, stage, user_controls_treble, start_time, number_of_user_controlled_bells):
            sim.log("r_init", stage, bool(user_controls_treble), start_time, number_of_user_controlled_bells)
            inner.initialise_line(stage, user_controls_treble, start_time, number_of_user_controlled_bells)

    return LoggingRhythm()


def make_scripted_rhythm(durs):
    from wheatley.rhythm.abstract_rhythm import Rhythm
    durs = [frac(d) for d in durs]

    class Scripted(Rhythm):
        def return_to_mainloop(self):
            pass

        def wait_for_bell_time(self, current_time, bell, row_number, place, user_controlled, stroke):
            _time.sleep(durs.pop(0) if durs else Fraction(1, 4))

        def expect_bell(self, expected_bell, row_number, place, expected_stroke):
            pass

        def change_setting(self, key, value, real_time):
            pass

        def on_bell_ring(self, bell, stroke, real_time):
            pass

        def initialise_line(self, stage, user_controls_treble, start_time, number_of_user_controlled_bells):
            pass

    return Scripted()


def build_rhythm(spec):
    from wheatley.rhythm import RegressionRhythm, WaitForUserRhythm
    if spec["kind"] == "scripted":
        return make_scripted_rhythm(spec["durs"])
    # through the product's own factory (wheatley/main.py), exactly as console_main/server_main call it
    from wheatley.main import create_rhythm
    return create_rhythm(spec["peal_speed"], spec["inertia"], spec.get("max", 15), spec["gap"],
                         spec["kind"] == "wait", spec.get("initial_inertia", 0))


class Injector:
    """Statement-level delivery (DESIGN.md A.4): deliver one event immediately BEFORE the k-th `line`
    event (0-based) of the n-th call (0-based) of a chosen function of wheatley/bot.py or
    wheatley/rhythm/*.py - i.e. as if the socket thread ran the handler at that statement boundary
    of the main thread.  Located by function name + ordinal, never by line number."""

    def __init__(self, sim, spec):
        self.sim = sim
        self.func, self.call_no, self.stmt, self.event = spec["func"], spec.get("call", 0), spec["stmt"], spec["event"]
        self.file = spec.get("file", "bot.py")
        self.calls = 0
        self.fired = False
        self.lines_seen = None

    def trace(self, frame, event, arg):
        code = frame.f_code
        if code.co_name != self.func or not code.co_filename.endswith("wheatley/" + self.file) or self.fired:
            return None
        if event == "call":
            mine = self.calls == self.call_no
            self.calls += 1
            if not mine:
                return None
            self.lines_seen = 0
            return self.local
        return None

    def local(self, frame, event, arg):
        if event == "line" and not self.fired:
            if self.lines_seen == self.stmt:
                self.fired = True
                self.sim.deliver(self.event)
                self.sim.sleep(0)      # a human pull is broadcast at once: let that broadcast arrive here too
            self.lines_seen += 1
        return self.local


def run_scenario(sc, build_generator, inspect=None):
    """Runs one scenario on the implementation.  Returns
    {"ctor_err": kind} or {"trace": [...], "outcome": [...], "malformed": n}."""
    import wheatley.tower as wtower
    from wheatley.bot import Bot
    from wheatley.tower import RingingRoomTower
    from wheatley.row_generation.place_holder_generator import PlaceHolderGenerator
    import coqfmt

    sim = Sim(sc)
    socketio.set_sink(sim.on_emit)
    old = (_time.time, _time.sleep, wtower.sleep)
    _time.time, _time.sleep, wtower.sleep = sim.time, sim.sleep, sim.sleep
    try:
        try:
            gen = PlaceHolderGenerator() if sc["gen"]["kind"] == "placeholder" else build_generator(sc["gen"])
        except Exception as e:  # pylint: disable=broad-except
            return {"ctor_err": coqfmt.exn_kind(e)}
        tower = RingingRoomTower(TOWER_ID, "http://sim.invalid")
        rhythm = make_logging_rhythm(sim, build_rhythm(sc["rhythm"]))
        bot = Bot(tower, gen, sc["udi"], sc["stop_at_rounds"], sc["call_comps"], rhythm,
                  user_name=sc.get("name"), server_instance_id=sc.get("instance"))
        outcome = None
        injector = None
        if sc.get("inject"):
            import sys as _sys
            injector = Injector(sim, sc["inject"])
            _sys.settrace(injector.trace)
        try:
            with tower:
                sim.client = socketio.last_client()
                tower.wait_loaded()
                if sc.get("look_to_time") is not None:
                    # (exactly what server_main does with --look-to-time; suites/glue.py checks that it does)
                    bot.look_to_has_been_called(float(Fraction(sc["look_to_time"])))
                bot.main_loop()
                outcome = ["exited"]
        except Stop:
            outcome = ["stopped"]
        except Exception as e:  # pylint: disable=broad-except
            outcome = ["crashed", coqfmt.exn_kind(e), type(e).__name__, str(sim.now)]
        if injector is not None:
            import sys as _sys
            _sys.settrace(None)
        res = {"trace": [[str(t)] + list(rest) for (t, *rest) in sim.out], "outcome": outcome,
               "injected": None if injector is None else injector.fired,
               "malformed": len(sim.malformed_emits), "end": str(sim.now), "rejected": sim.rejected,
               "client_log": [(k, e) for (k, e, _d) in sim.client.log[:16]] if sim.client else []}
        if inspect is not None:
            res["inspect"] = inspect(bot, tower, rhythm, sim)
        return res
    finally:
        import sys as _sys
        _sys.settrace(None)
        _time.time, _time.sleep, wtower.sleep = old
        socketio.set_sink(None)
