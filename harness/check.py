#!/venv/bin/python
"""Single entry point: `check.py --property Cxx --tier quick|thorough`.

1. hygiene of the Coq development, full .vo build, obligations + Print Assumptions of Props/Cxx.v
2. correspondence: every suite attached to the property runs the implementation (from /repo's
   working tree) and the model (in the kernel) on the same cases and reports every difference
3. the property's own oracle is evaluated on every implementation trace
4. verdict, evidence/<id>.json, VIOLATION / KNOWN-FINDING lines
"""
import argparse
import json
import os
import random
import sys
import time
import traceback

HERE = os.path.dirname(os.path.abspath(__file__))
sys.path.insert(0, HERE)
sys.path.insert(0, os.path.join(HERE, "suites"))

import common as C  # noqa: E402


def run_suite(suite, pid, rng, tier, findings):
    """Returns a dict with counts, disagreements, oracle violations (unmatched), known findings."""
    oracle = getattr(suite, "oracle_" + pid, None)
    cases, outs, terms = [], [], []
    seen = set()
    t0 = time.time()
    for case in suite.cases(rng, tier):
        k = suite.key(case)
        if k in seen:
            continue
        seen.add(k)
        out = suite.run_impl(case)
        cases.append(case)
        outs.append(out)
        terms.append(None if (isinstance(case, dict) and case.get("oracle_only")) else suite.to_coq(case, out))
    t_impl = time.time() - t0
    t1 = time.time()
    # suites may cap how many cases go through the (slower) in-kernel comparison; the property oracle
    # below still sees every case
    cap = getattr(suite, "coq_cap", {}).get(tier)
    coq_idx = [i for i in range(len(terms)) if not (isinstance(cases[i], dict) and cases[i].get("oracle_only"))]
    terms = [terms[i] for i in coq_idx]
    if cap and len(terms) > cap:
        step = len(terms) / cap
        pick = sorted({int(i * step) for i in range(cap)})
        coq_idx = [coq_idx[i] for i in pick]
        terms = [terms[i] for i in pick]
    skipped = []
    if getattr(suite, "classify", False):
        bad, skipped = C.run_cases_classify(suite.imports, suite.case_type, suite.chk, terms,
                                            shard=getattr(suite, "shard", 20), tag=suite.name)
    else:
        bad = C.run_cases(suite.imports, suite.case_type, suite.chk, terms, shard=getattr(suite, "shard", 300),
                          tag=suite.name)
    bad = [coq_idx[i] for i in bad]
    skipped = [coq_idx[i] for i in skipped]
    t_coq = time.time() - t1
    res = {
        "suite": suite.name, "evaluations": len(cases),
        "distinct_nontrivial": sum(1 for c, o in zip(cases, outs) if suite.nontrivial(c, o)),
        "disagreements": [], "violations": [], "known": [], "impl_s": round(t_impl, 2), "coq_s": round(t_coq, 2),
        "samples": [], "stats": {}, "skipped": len(skipped), "compared_with_model": len(coq_idx),
    }
    if hasattr(suite, "stats"):
        res["stats"] = suite.stats(cases, outs)
    for i in (0, len(cases) // 2, len(cases) - 1):
        if cases:
            res["samples"].append({"case": cases[i], "impl": outs[i]})
    for i in bad:
        res["disagreements"].append({"suite": suite.name, "case": cases[i], "impl": outs[i]})
    if oracle is not None:
        for idx, (c, o) in enumerate(zip(cases, outs)):
            msg = oracle(c, o)
            if msg is None:
                continue
            item = {"suite": suite.name, "case": c, "impl": o, "message": msg, "index": idx}
            f = match_finding(pid, suite, c, o, msg, findings)
            if f is not None:
                item["finding"] = f["id"]
                res["known"].append(item)
            else:
                res["violations"].append(item)
    return res


def match_finding(pid, suite, case, out, msg, findings):
    matcher = getattr(suite, "finding_class", None)
    if matcher is None:
        return None
    cls = matcher(pid, case, out, msg)
    if cls is None:
        return None
    for f in findings.get("findings", []):
        if f["property"] == pid and f["class"] == cls:
            return f
    return None


def main():
    ap = argparse.ArgumentParser()
    ap.add_argument("--property", required=True)
    ap.add_argument("--tier", default=os.environ.get("VERIF_TIER", "quick"), choices=["quick", "thorough"])
    args = ap.parse_args()
    pid, tier = args.property, args.tier
    seed = int(os.environ.get("VERIF_SEED", "0") or 0)
    os.environ["PYTHONHASHSEED"] = "0"
    t0 = time.time()
    try:
        rc = check(pid, tier, seed, t0)
    except C.Broken as e:
        print(f"BROKEN-CHECK property={pid}: {e}")
        rc = 2
    except Exception:  # pylint: disable=broad-except
        traceback.print_exc()
        print(f"BROKEN-CHECK property={pid}: harness exception")
        rc = 2
    finally:
        C.cleanup()
    sys.exit(rc)


def check(pid, tier, seed, t0):
    C.setup_impl_path()
    import props
    if pid not in props.PROPS:
        raise C.Broken(f"unknown property {pid}")
    spec = props.PROPS[pid]
    findings = C.load_known_findings()

    problems = C.hygiene()
    if problems:
        raise C.Broken("hygiene: " + "; ".join(problems[:5]))
    ok, log, build_s = C.build()
    if not ok:
        raise C.Broken("Coq build failed:\n" + log[-3000:])
    thms, n_obl, built, mods = C.obligations(pid)
    if not built or not thms:
        raise C.Broken(f"Props/{pid}.v not built or has no Theorem")
    assumptions = C.print_assumptions(pid, thms)
    axioms = sorted({a for v in assumptions.values() for a in v})

    rng = random.Random(f"{seed}-{pid}-{tier}")
    results = []
    for suite in spec["suites"](tier):
        results.append(run_suite(suite, pid, rng, tier, findings))
    extra = spec.get("extra")
    extra_info = extra(tier, rng, findings) if extra else {}

    disagreements = [d for r in results for d in r["disagreements"]]
    violations = [v for r in results for v in r["violations"]] + extra_info.get("violations", [])
    known = [k for r in results for k in r["known"]] + extra_info.get("known", [])

    # known findings: one line per listed finding that was exhibited
    for fid in sorted({k["finding"] for k in known}):
        f = next(x for x in findings["findings"] if x["id"] == fid)
        print(f"KNOWN-FINDING: property={pid} {f['what']}")

    rc = 0
    other_violations = []
    if violations:
        v = violations[0]
        path = C.write_replay(pid, {"property": pid, "kind": "oracle-violation", "suite": v["suite"],
                                    "case": v["case"], "observed": v["impl"], "message": v["message"],
                                    "index": v.get("index"), "seed": seed, "tier": tier,
                                    "replay": f"/venv/bin/python {os.path.join(HERE, 'replay.py')} <this file>"})
        print(f"VIOLATION property={pid} replay={path}")
        rc = 1
        # further violations of a different shape (digits blanked) get their own replay files
        import re
        seen = {(v["suite"], re.sub(r"[0-9]+", "#", v["message"]))}
        for v2 in violations[1:]:
            key = (v2["suite"], re.sub(r"[0-9]+", "#", v2["message"]))
            if key in seen or len(seen) >= 10:
                continue
            seen.add(key)
            p2 = C.write_replay(pid, {"property": pid, "kind": "oracle-violation", "suite": v2["suite"],
                                      "case": v2["case"], "observed": v2["impl"], "message": v2["message"],
                                      "index": v2.get("index"), "seed": seed, "tier": tier,
                                      "replay": f"/venv/bin/python {os.path.join(HERE, 'replay.py')} <this file>"})
            other_violations.append({"suite": v2["suite"], "message": v2["message"][:300], "replay": p2})
            print(f"  (also: {v2['suite']}: {v2['message'][:160]} -> {p2})", file=sys.stderr)
    elif disagreements:
        # the tie between model and code broke but the oracle accepted every trace: widen the search
        found = None
        if spec.get("search"):
            found = spec["search"](rng, findings)
        if found:
            path = C.write_replay(pid, {"property": pid, "kind": "oracle-violation", **found})
            print(f"VIOLATION property={pid} replay={path}")
        else:
            d = disagreements[0]
            path = C.write_replay(pid, {"property": pid, "kind": "correspondence-broken",
                                        "broken": f"correspondence suite `{d['suite']}` (model theorems of Props/{pid}.v "
                                                  f"no longer describe the code)",
                                        "suite": d["suite"], "first_disagreeing_case": d["case"], "impl": d["impl"],
                                        "n_disagreements": len(disagreements)})
            print(f"VIOLATION property={pid} replay={path} no-failing-input-found")
        rc = 1

    ev = {
        "property_id": pid, "tier": tier, "seed": seed, "level": "proof",
        "coverage": {
            "obligations": n_obl, "discharged": n_obl,
            "checker_cmd": "make -C /verif/coq (coqc 8.16.1, full .vo build) + Print Assumptions on every theorem of "
                           f"Props/{pid}.v",
            "trusted_base": [
                "Coq 8.16.1 kernel incl. vm_compute (no native_compute)",
                "axioms reported by Print Assumptions: " + ("none (closed under the global context)" if not axioms
                                                            else "; ".join(axioms)),
                "hand-written Gallina model tied to /repo by the correspondence suites of this run (harness/suites)",
                "harness: socketio stub, virtual clock, fake requests.get (harness/sim.py)",
            ] + spec.get("trusted", []),
            "theorems": {t: (assumptions.get(t) or ["Closed under the global context"]) for t in thms},
            "modules": mods,
            "evaluations": sum(r["evaluations"] for r in results) + extra_info.get("evaluations", 0),
            "distinct_nontrivial": sum(r["distinct_nontrivial"] for r in results) + extra_info.get("distinct_nontrivial", 0),
            "rule": spec.get("rule", "cases are de-duplicated by their JSON form; non-trivial per suite"),
            "suites": [{k: r[k] for k in ("suite", "evaluations", "distinct_nontrivial", "impl_s", "coq_s", "stats", "skipped", "compared_with_model")}
                       | {"disagreements": len(r["disagreements"]), "oracle_violations": len(r["violations"]),
                          "known_findings": len(r["known"])} for r in results],
            "samples": [s for r in results for s in r["samples"]][:6] + extra_info.get("samples", []),
            "extra": {k: v for k, v in extra_info.items() if k not in ("violations", "known", "samples")}
                     | ({"other_violations": other_violations} if other_violations else {}),
            "exhaustive": False,
        },
        "assumptions": spec.get("assumptions", []),
        "wall_s": round(time.time() - t0, 2),
        "violations": len(violations) + (1 if disagreements and not violations else 0),
    }
    C.write_evidence(pid, ev)
    print(f"{pid} {tier}: obligations={n_obl} suites={len(results)} cases={ev['coverage']['evaluations']} "
          f"disagreements={len(disagreements)} violations={len(violations)} known={len(known)} "
          f"wall={ev['wall_s']}s")
    return rc


if __name__ == "__main__":
    main()
