#!/usr/bin/env python3
"""Regenerates /verif/MANIFEST.json from harness/manifest_data.py (kept in one place so the
manifest is always schema-valid and in step with the registered checks)."""
import json, os, sys
HERE = os.path.dirname(os.path.abspath(__file__))
sys.path.insert(0, HERE)
import manifest_data as M

checks = []
for pid in sorted(M.CLAIMED):
    c = M.CLAIMED[pid]
    checks.append({
        "property_id": pid,
        "quick_cmd": f"/venv/bin/python harness/check.py --property {pid} --tier quick",
        "thorough_cmd": f"/venv/bin/python harness/check.py --property {pid} --tier thorough",
        "evidence_file": f"/verif/evidence/{pid}.json",
        "replay_cmd_template": "/venv/bin/python harness/replay.py {path}",
        "engine": "coq-model+correspondence",
        "level_claimed": {"category": "proof", "text": c["text"], "design_ref": c["design_ref"]},
        "level_note": c["note"],
        "technique": c["technique"],
    })
man = {
    "version": 1,
    "setup_cmd": "cd /verif/coq && coq_makefile -f _CoqProject -o Makefile && timeout 3000 make -j16",
    "hooks": {
        "guard": "KNEASLE_WHEATLEY_VERIF",
        "enable": "no source hooks are needed: the harness drives the unmodified code through a socketio stub, "
                  "a virtual clock and sys.settrace; the guard variable is unused",
        "baseline_off_cmd": "cd /repo && /venv/bin/python -m pytest -ra -q -p no:cacheprovider --timeout=900 "
                            "--continue-on-collection-errors",
        "source_commits": [],
        "add_only": True,
    },
    "engines": [{
        "name": "coq-model+correspondence", "path": "/verif/harness/check.py",
        "serves_properties": sorted(M.CLAIMED),
        "kind_free_text": "Coq 8.16.1 theorems about hand-written Gallina models (coq/theories), tied to /repo on every "
                          "run by in-kernel differential evaluation of the model against the implementation",
    }],
    "checks": checks,
    "notes": M.NOTES,
    "not_applicable": [{"property_id": p, "reason": r} for p, r in sorted(M.NOT_APPLICABLE.items())],
}
json.dump(man, open(os.path.join(os.path.dirname(HERE), "MANIFEST.json"), "w"), indent=1)
print("MANIFEST.json written:", len(checks), "checks,", len(M.NOT_APPLICABLE), "not_applicable")
