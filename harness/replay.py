#!/venv/bin/python
"""Replay a file written by check.py (evidence/replays/<property>-<hash>.json) against /repo's
current working tree: the recorded case is run again on the implementation (through harness/sim.py
or the generator-level runner of its suite), the property's oracle is applied to what is observed
now, and - with --model - the case is also handed to the Coq model.

usage: replay.py <file> [--model] [--trace]
exit 0: the recorded input no longer violates / disagrees; exit 1: it still does."""
import json
import os
import sys

HERE = os.path.dirname(os.path.abspath(__file__))
sys.path.insert(0, HERE)
import common as C  # noqa: E402


def find_suite(pid, name):
    import props
    for s in props.PROPS[pid]["suites"]("thorough"):
        if s.name == name:
            return s
    raise SystemExit(f"property {pid} has no suite called {name}")


def main():
    args = [a for a in sys.argv[1:] if not a.startswith("--")]
    flags = {a for a in sys.argv[1:] if a.startswith("--")}
    d = json.load(open(args[0]))
    pid = d["property"]
    C.setup_impl_path()
    suite = find_suite(pid, d["suite"])
    case = d.get("case") or d.get("first_disagreeing_case")
    out = suite.run_impl(case)
    print(f"property {pid}, suite {suite.name}, recorded as: {d['kind']}")
    if d.get("message"):
        print("recorded message :", d["message"])
    still = False
    oracle = getattr(suite, f"oracle_{pid}", None)
    if oracle is not None:
        msg = oracle(case, out)
        print("oracle now       :", msg if msg else "no violation")
        still = still or bool(msg)
    if d["kind"] == "correspondence-broken" or "--model" in flags:
        if isinstance(case, dict) and case.get("oracle_only"):
            print("model            : this case is judged by the oracle only")
        else:
            C.build()
            term = suite.to_coq(case, out)
            if getattr(suite, "classify", False):
                bad, skipped = C.run_cases_classify(suite.imports, suite.case_type, suite.chk, [term], tag="replay")
                verdict = "DISAGREES" if bad else ("skipped (knife edge / outside the model)" if skipped else "agrees")
            else:
                bad = C.run_cases(suite.imports, suite.case_type, suite.chk, [term], tag="replay")
                verdict = "DISAGREES" if bad else "agrees"
            print("model vs code now:", verdict)
            still = still or bool(bad)
            C.cleanup()
    if not still and d.get("index") is not None and d["kind"] == "oracle-violation":
        # the input alone no longer fails: was it the HISTORY of the process (state shared between instances)?  Re-run
        # the suites of this property in the order and with the generator state of the recorded run, up to that case.
        import random
        import props
        rng = random.Random(f"{d.get('seed', 0)}-{pid}-{d.get('tier', 'quick')}")
        verdict = None
        for s2 in props.PROPS[pid]["suites"](d.get("tier", "quick")):
            seen = set()
            k = 0
            for c2 in s2.cases(rng, d.get("tier", "quick")):
                key = s2.key(c2)
                if key in seen:
                    continue
                seen.add(key)
                o2 = s2.run_impl(c2)
                if s2.name == suite.name and k == d["index"]:
                    verdict = getattr(s2, f"oracle_{pid}")(c2, o2)
                    break
                k += 1
            if s2.name == suite.name:
                break
        print("in sequence      :", verdict if verdict else "no violation either")
        if verdict:
            print("                   (the case fails only after the cases run before it in the same process)")
        still = bool(verdict)
    if "--trace" in flags:
        print(json.dumps(out, indent=1, default=str))
    sys.exit(1 if still else 0)


if __name__ == "__main__":
    main()
