#!/venv/bin/python
"""Replay a file written by check.py (evidence/replays/<property>-<hash>.json) against /repo's
current working tree: the recorded case is run again on the implementation (through harness/sim.py
or the generator-level runner of its suite), the property's oracle is applied to what is observed
now, and - with --model - the case is also handed to the Coq model.

usage: replay.py <file> [--model] [--trace]
exit 0: the recorded input no longer violates / disagrees; exit 1: it still does."""
import json
import os
import sys

HERE = os.path.dirname(os.path.abspath(__file__))
sys.path.insert(0, HERE)
import common as C  # noqa: E402


def find_suite(pid, name):
    import props
    for s in props.PROPS[pid]["suites"]("thorough"):
        if s.name == name:
            return s
    raise SystemExit(f"property {pid} has no suite called {name}")


def main():
    args = [a for a in sys.argv[1:] if not a.startswith("--")]
    flags = {a for a in sys.argv[1:] if a.startswith("--")}
    d = json.load(open(args[0]))
    pid = d["property"]
    C.setup_impl_path()
    suite = find_suite(pid, d["suite"])
    case = d.get("case") or d.get("first_disagreeing_case")
    out = suite.run_impl(case)
    print(f"property {pid}, suite {suite.name}, recorded as: {d['kind']}")
    if d.get("message"):
        print("recorded message :", d["message"])
    still = False
    oracle = getattr(suite, f"oracle_{pid}", None)
    if oracle is not None:
        msg = oracle(case, out)
        print("oracle now       :", msg if msg else "no violation")
        still = still or bool(msg)
    if d["kind"] == "correspondence-broken" or "--model" in flags:
        if isinstance(case, dict) and case.get("oracle_only"):
            print("model            : this case is judged by the oracle only")
        else:
            C.build()
            term = suite.to_coq(case, out)
            if getattr(suite, "classify", False):
                bad, skipped = C.run_cases_classify(suite.imports, suite.case_type, suite.chk, [term], tag="replay")
                verdict = "DISAGREES" if bad else ("skipped (knife edge / outside the model)" if skipped else "agrees")
            else:
                bad = C.run_cases(suite.imports, suite.case_type, suite.chk, [term], tag="replay")
                verdict = "DISAGREES" if bad else "agrees"
            print("model vs code now:", verdict)
            still = still or bool(bad)
            C.cleanup()
    if "--trace" in flags:
        print(json.dumps(out, indent=1, default=str))
    sys.exit(1 if still else 0)


if __name__ == "__main__":
    main()
