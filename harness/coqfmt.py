"""Render Python values as Gallina literals for the generated cases_k.v files."""
from fractions import Fraction


def nat(n):
    assert isinstance(n, int) and n >= 0, n
    return str(n)


def z(i):
    return f"({int(i)})%Z"


def n_(i):
    return f"{int(i)}%N"


def boolean(b):
    return "true" if b else "false"


def lst(items):
    items = list(items)
    return "[" + "; ".join(items) + "]" if items else "[]"


def natlist(xs):
    return lst(nat(x) for x in xs)


def ustr(s):
    """A Python str as a list of code points (N)."""
    if s == "":
        return "(@nil N)"
    return "([" + ";".join(str(ord(c)) for c in s) + "]%N)"


def opt(x, f):
    return "None" if x is None else f"(Some {f(x)})"


def pair(*xs):
    return "(" + ", ".join(xs) + ")"


def q(x):
    """An exact rational for a float / Fraction / int."""
    if isinstance(x, float):
        n, d = x.as_integer_ratio()
    else:
        fr = Fraction(x)
        n, d = fr.numerator, fr.denominator
    return f"(({n})#{d})%Q"


EXN_NAMES = {
    "ValueError": "EValue",
    "IndexError": "EIndex",
    "KeyError": "EKey",
    "AssertionError": "EAssert",
    "ZeroDivisionError": "EZeroDiv",
    "NullRowGenError": "ENullRowGen",
    "TypeError": "EType",
    "AttributeError": "EType",
}
OWN_ERRORS = {
    "StartRowParseError", "PealSpeedParseError", "CallParseError", "PlaceNotationError",
    "InvalidComplibURLError", "RowGenParseError", "MethodNotFoundError", "TowerNotFoundError",
    "PrivateCompError", "InvalidCompError", "PlaceNotationNotFoundError",
}


def exn_kind(e):
    """Map an exception instance (or class name) to the model's exn constructor."""
    name = e if isinstance(e, str) else type(e).__name__
    if name in OWN_ERRORS:
        return "EOwn"
    return EXN_NAMES.get(name, "EOther")


def ok(x):
    return f"(Ok {x})"


def err(kind):
    return f"(Err {kind})"


def stroke(is_hand):
    return boolean(is_hand)
